"""rerank_with_gel on the read-only state view of the agent-parallel compute phase: setdefault on the frozen GEL graph raised (layer dropped in the parallel run only).
Run: cd /repo && PYTHONPATH=/repo /venv/bin/python /verif/repro/c10_hybrid_rerank_raises_on_readonly_view.py  (exit 1 = defect shows)"""
import sys
from types import SimpleNamespace as NS
from clematis.engine.stages.hybrid import rerank_with_gel
from clematis.engine.stages.state_clone import readonly_snapshot
cfg = {"t2": {"hybrid": {"enabled": True, "lambda_graph": 0.5, "edge_threshold": 0.1}}}
ctx = NS(cfg=cfg, config=cfg)
state = NS(graph={"nodes": {}, "edges": {"a→c": {"src": "a", "dst": "c", "weight": 0.9}}})
items = [("a", 0.9), ("b", 0.8), ("c", 0.79)]
live, m1 = rerank_with_gel(ctx, state, items)
try:
    ro, m2 = rerank_with_gel(ctx, readonly_snapshot(state), items)
except Exception as e:
    ro, m2 = None, repr(e)
print("live:", [i[0] for i in live], m1.get("hybrid_used"))
print("read-only view:", ro and [i[0] for i in ro], m2)
sys.exit(1 if ro is None or [i[0] for i in ro] != [i[0] for i in live] else 0)
