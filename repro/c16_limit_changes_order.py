#!/usr/bin/env python3
"""Side observation (unchanged code): the staging byte limit changes the order in which staged
records reach a stream. The parallel driver stages the compute buffers in task order and, on
LOG_STAGING_BACKPRESSURE, flushes what it has so far; a record that arrives later but sorts
earlier (smaller slice / turn) is then written AFTER records it should precede. With a roomy limit
the same input is flushed in (turn, stage order, slice, arrival) order.

Clause contradicted: "staged records are flushed in (turn, stage order, slice, arrival) order
whatever the staging limit".

Reach: needs compute buffers of one batch that differ in slice_idx / turn_id (the stock
_run_turn_compute copies both from the shared ctx, so they are equal there; the driver's own
_sort_turn_buffers and LogKey exist for the case that they are not) - here the compute phase is
stubbed as in tests/engine/test_orchestrator_backpressure.py. Everything else (driver, LogStager,
default_key_for, _append_jsonl_unbuffered) is the real code.

Exit 1 when the violation shows, 0 otherwise.
"""
from __future__ import annotations

import json
import os
import sys
import tempfile
from types import SimpleNamespace as SNS

os.environ.pop("CI", None)

from clematis.engine import orchestrator as orch  # noqa: E402
import clematis.engine.util.io_logging as iol  # noqa: E402
from tests.helpers.configs import make_cfg_par  # noqa: E402
from tests.helpers.world import make_state_disjoint  # noqa: E402

SLICES = {"A": 1, "B": 0}  # task order A, B; slice order B, A


def fake_compute(ctx, base, agent_id, text):
    return {
        "turn_id": 3,
        "slice_idx": SLICES[agent_id],
        "agent_id": agent_id,
        "logs": [
            ("t1.jsonl", {"agent": agent_id, "slice": SLICES[agent_id], "pad": "x" * 100}),
            ("t2.jsonl", {"agent": agent_id, "slice": SLICES[agent_id], "pad": "y" * 100}),
        ],
        "deltas": [],
        "dialogue": "ok",
        "graphs_touched": set(),
        "graph_versions": {},
    }


def fake_apply(ctx, state, t4_like):
    return SNS(applied=0, clamps=0, version_etag="e", snapshot_path="s", metrics={"cache_invalidations": 0})


orch._run_turn_compute = fake_compute
orch.apply_changes = fake_apply
orch._make_readonly_snapshot = lambda state: state


def run(limit: int) -> dict:
    d = tempfile.mkdtemp(prefix=f"c16_obs_limit_{limit}_")
    os.environ["CLEMATIS_LOG_DIR"] = d
    orch.enable_staging = lambda: iol.enable_staging(byte_limit=limit)
    ctx = SNS(cfg=make_cfg_par(2), turn_id=3)
    orch._run_agents_parallel_batch(ctx, make_state_disjoint(2), [("A", "x"), ("B", "y")])
    out = {}
    for name in ("t1.jsonl", "t2.jsonl", "apply.jsonl"):
        with open(os.path.join(d, name), "rb") as f:
            out[name] = [json.loads(ln)["agent"] for ln in f.read().split(b"\n") if ln]
    return out


roomy = run(32 * 1024 * 1024)
tight = run(250)
print("limit 32 MiB :", roomy)
print("limit 250 B  :", tight)
if roomy != tight:
    print("VIOLATION: per-stream record order depends on the staging limit")
    sys.exit(1)
sys.exit(0)
