#!/usr/bin/env python3
"""C14 side observation (unchanged code): t1.decay.rate (and floor) are coerced to float but never range-checked, and
t1.node_budget only has to be > 0. _compute_decay evaluates rate**distance, and float ** int raises OverflowError instead
of returning inf. With rate = 1e200 and a node budget large enough for the walk to reach distance 2 the accepted
configuration makes the turn raise.
Exit 1 = violation shown; exit 0 otherwise."""

import os, sys, tempfile
from types import SimpleNamespace
ROOT = "/repo"
if ROOT not in sys.path:
    sys.path.insert(0, ROOT)
from configs.validate import validate_config
from clematis.errors import ConfigError
from clematis.engine.orchestrator.core import Orchestrator
from clematis.graph.store import InMemoryGraphStore, Node, Edge


class _AttrDict(dict):
    def __getattr__(self, name):
        try:
            return self[name]
        except KeyError as e:
            raise AttributeError(name) from e


def _attr(o):
    if isinstance(o, dict):
        return _AttrDict({k: _attr(v) for k, v in o.items()})
    if isinstance(o, list):
        return [_attr(v) for v in o]
    return o


def small_world():
    store = InMemoryGraphStore()
    store.ensure("g:surface")
    store.upsert_nodes(
        "g:surface",
        [Node(id="n:hello", label="hello"), Node(id="n:world", label="world"), Node(id="n:reply", label="reply")],
    )
    store.upsert_edges(
        "g:surface",
        [
            Edge(id="e:h->w", src="n:hello", dst="n:world", weight=0.8, rel="supports"),
            Edge(id="e:w->r", src="n:world", dst="n:reply", weight=0.5, rel="associates"),
        ],
    )
    return {"store": store, "active_graphs": ["g:surface"], "version_etag": "0"}


def run_turn_under(cfg, text, keep_snapshot_dir=False):
    """validate cfg (must be accepted), then run one turn of the real orchestrator on a 3-node world."""
    tmp = tempfile.mkdtemp(prefix="obs_c14_")
    os.environ["CLEMATIS_LOG_DIR"] = os.path.join(tmp, "logs")
    norm = validate_config(cfg)  # ConfigError here would mean: rejected (no violation)
    if not keep_snapshot_dir:
        norm["t4"]["snapshot_dir"] = os.path.join(tmp, "snaps")
    ctx = SimpleNamespace(turn_id="1", agent_id="A", now=None, now_ms=0, cfg=_attr(norm))
    return Orchestrator().run_turn(ctx, small_world(), text)


cfg = {"t1": {"decay": {"rate": 1e200}, "node_budget": 1e308}}
try:
    run_turn_under(cfg, "hello")  # seeds n:hello only, so n:reply is at distance 2
    print("accepted and the turn ran")
    sys.exit(0)
except ConfigError as e:
    print(f"rejected by the validator ({e})")
    sys.exit(0)
except Exception as e:
    print(f"ACCEPTED by validate_config, but the turn raised {type(e).__name__}: {e}")
    sys.exit(1)

