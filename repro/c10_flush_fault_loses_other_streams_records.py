#!/usr/bin/env python3
"""Side observation (UNCHANGED code): one unwritable stream in the staged flush loses every record that sorts
after it - other streams, other agents, and the apply.jsonl records of agents whose commit already happened.

The parallel driver drains the stager (drain_sorted moves the buffer out first) and appends record by record.
If one append raises (here: t2.jsonl cannot be opened because a directory of that name is in the way - any
OSError on one stream, or one record json.dumps cannot encode, does the same) the loop ends, the drained list is
dropped and the `finally` flush finds an empty stager.  t4.jsonl and apply.jsonl are perfectly writable, both
agents were committed (apply_changes ran for A and B), yet none of their t4 / apply records reaches the disk.

Clause contradicted: "Every record appended to a JSONL stream appears as exactly one complete LF-terminated JSON
line" / lossless - for the records of the healthy streams, under a fault at one point of the flush.
Exit 1 = violation shown, 0 = not shown.
"""
import json
import os
import sys
import tempfile
from types import SimpleNamespace as SNS

sys.path.insert(0, "/repo")
d = tempfile.mkdtemp(prefix="obs_c16_")
os.environ["CLEMATIS_LOG_DIR"] = d
os.environ.pop("CI", None)

from clematis.engine import orchestrator as orch  # noqa: E402
from tests.helpers.configs import make_cfg_par  # noqa: E402
from tests.helpers.world import make_state_disjoint  # noqa: E402

os.mkdir(os.path.join(d, "t2.jsonl"))  # the one broken stream

committed = []


def fake_compute(ctx, base, agent_id, text):
    return {
        "turn_id": 1, "slice_idx": 0, "agent_id": agent_id,
        "logs": [(s, {"agent": agent_id, "stream": s}) for s in ("t1.jsonl", "t2.jsonl", "t4.jsonl")],
        "deltas": [], "dialogue": "ok", "graphs_touched": set(), "graph_versions": {},
    }


def fake_apply(ctx, state, t4):
    committed.append(ctx.agent_id)
    return SNS(applied=1, clamps=0, version_etag="e", snapshot_path=None, metrics={})


orch._run_turn_compute = fake_compute
orch._make_readonly_snapshot = lambda s: s
orch.apply_changes = fake_apply
ctx = SNS(cfg=make_cfg_par(4), turn_id=1)
state = make_state_disjoint(2)
err = None
try:
    orch._run_agents_parallel_batch(ctx, state, [("A", "hi"), ("B", "hi")])
except Exception as ex:  # noqa: BLE001
    err = ex
print("driver raised:", repr(err))
print("agents committed:", committed)


def agents_in(name):
    p = os.path.join(d, name)
    if not os.path.isfile(p):
        return []
    return [json.loads(x)["agent"] for x in open(p)]


got = {n: agents_in(n) for n in ("t1.jsonl", "t4.jsonl", "apply.jsonl")}
print("records on disk:", got)
lost = {n: [a for a in committed if a not in v] for n, v in got.items()}
lost = {n: v for n, v in lost.items() if v}
if lost:
    print("VIOLATION: staged records of writable streams were lost:", lost)
    sys.exit(1)
sys.exit(0)
