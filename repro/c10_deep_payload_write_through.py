"""Side observation (unchanged code): a deeply nested log payload is written during the compute phase.

clematis.io.log.append_jsonl captures a record for the batch driver with copy.deepcopy(); any
exception there falls back to an immediate write.  A payload nested ~600 levels deep makes deepcopy
raise RecursionError while json.dumps still serialises it, so that line reaches the file during
the compute phase, ahead of every captured line of the same file (which are written at commit).
Sequential order in t1.jsonl: A-head, A-deep, B-head, B-deep.  Batch driver: A-deep, B-deep, A-head, B-head.

Exit 1 when the order differs from the sequential run, 0 otherwise.
"""
import json
import os
import sys
import tempfile
from types import SimpleNamespace as SNS

import clematis.io.paths as paths
from clematis.engine import orchestrator as orch
from clematis.engine.orchestrator import Orchestrator
from clematis.io.log import append_jsonl

DEPTH = 600


def deep(depth):
    x = "leaf"
    for _ in range(depth):
        x = [x]
    return x


def stub(self, ctx, state, text):
    agent = ctx.agent_id
    append_jsonl("t1.jsonl", {"turn": ctx.turn_id, "agent": agent, "kind": "head"})
    append_jsonl("t1.jsonl", {"turn": ctx.turn_id, "agent": agent, "kind": "deep", "trace": deep(DEPTH)})
    if getattr(ctx, "_dry_run_until_t4", False):
        ctx._dryrun_t4 = SNS(approved_deltas=[])
        ctx._dryrun_utter = f"say:{agent}"
        ctx._dryrun_t1 = {"graphs_touched": []}
        ctx._dryrun_t2 = {}
    return SNS(line=f"say:{agent}", events=[])


def fake_apply(ctx, state, t4):
    return SNS(applied=0, clamps=0, version_etag="v", snapshot_path=None, metrics={})


def run(parallel, d):
    paths.logs_dir = lambda: d
    cfg = {"perf": {"enabled": True, "parallel": {"enabled": parallel, "agents": parallel, "max_workers": 4 if parallel else 1}}}
    ctx = SNS(cfg=cfg, turn_id=3)
    state = {"graphs_by_agent": {"A": ["GA"], "B": ["GB"]}}
    orch._run_agents_parallel_batch(ctx, state, [("A", "x"), ("B", "y")])
    with open(os.path.join(d, "t1.jsonl"), encoding="utf-8") as f:
        return [(r["agent"], r["kind"]) for r in map(json.loads, f.read().splitlines())]


Orchestrator.run_turn = stub
orch.apply_changes = fake_apply
with tempfile.TemporaryDirectory() as a, tempfile.TemporaryDirectory() as b:
    seq = run(False, a)
    par = run(True, b)
print("sequential:", seq)
print("batch     :", par)
sys.exit(1 if seq != par else 0)
