#!/usr/bin/env python3
"""Side observation (unchanged code): the entry timestamp depends on the HISTORY of a reused ctx when the
logical clock is not a Python int.

run_turn() refreshes ctx.now_iso from ctx.now_ms only `if isinstance(nm, int)`; write_reflection_entries()
prefers ctx.now_iso and otherwise derives the stamp itself with int(ctx.now_ms) (so a float clock is accepted
there).  With a float clock (e.g. time.time()*1000 without int()) on a ctx that served an earlier turn, the
entry of the later turn carries the EARLIER turn's timestamp; the same turn on a fresh ctx gets another stamp.
Same agent, turn, slot, text and clock value -> two different timestamps.

exit 1 when the violation shows, 0 otherwise.
"""
import copy, os, sys, tempfile
from pathlib import Path
from types import SimpleNamespace as SNS

ROOT = Path(__file__).resolve().parent
sys.path.insert(0, str(ROOT)); os.chdir(ROOT)
os.environ["CI"] = "true"; os.environ["CLEMATIS_NETWORK_BAN"] = "1"
tmp = Path(tempfile.mkdtemp(prefix="c19_obs_ts_"))
(tmp / "logs").mkdir()
os.environ["CLEMATIS_LOG_DIR"] = os.environ["CLEMATIS_LOGS_DIR"] = str(tmp / "logs")

from clematis.engine.orchestrator.core import Orchestrator
from clematis.engine.types import Config


class Idx:
    kind = "inmemory"
    def __init__(self): self.rows = []
    def add(self, ep): self.rows.append(copy.deepcopy(ep))


def mkcfg():
    c = Config()
    c.t3["allow_reflection"] = True
    c.t3["reflection"] = {"backend": "rulebased", "summary_tokens": 16, "embed": False, "topk_snippets": 0}
    c.t4["snapshot_dir"] = str(tmp / "snaps")
    c.scheduler = {"budgets": {"time_ms_reflection": 6000, "ops_reflection": 1}}
    return c


def mkstate(cfg):
    return {"cfg": cfg, "memory_index": Idx(), "_planner_reflection_flag": True}


def mkctx(cfg, turn, now_ms):
    return SNS(turn_id=turn, agent_id="AgentA", now_ms=now_ms, cfg=cfg, _dry_run_until_t4=False)


cfg = mkcfg()
orch = Orchestrator()

# history A: one ctx serves turn 1 (int clock) and then turn 2 (float clock)
st_a = mkstate(cfg)
ctx = mkctx(cfg, 1, 12_345)
orch.run_turn(ctx, st_a, "hello world")
ctx.turn_id, ctx.now_ms = 2, 22_345.0
orch.run_turn(ctx, st_a, "hello world")
row_a = st_a["memory_index"].rows[-1]

# history B: turn 2 on a fresh ctx, same agent / turn / input / clock value
st_b = mkstate(cfg)
orch.run_turn(mkctx(cfg, 2, 22_345.0), st_b, "hello world")
row_b = st_b["memory_index"].rows[-1]

print("reused ctx :", {k: row_a[k] for k in ("id", "ts", "text")})
print("fresh ctx  :", {k: row_b[k] for k in ("id", "ts", "text")})
print("turn 1 ts  :", st_a["memory_index"].rows[0]["ts"])
if row_a["id"] == row_b["id"] and row_a["text"] == row_b["text"] and row_a["ts"] != row_b["ts"]:
    print("VIOLATION: same agent/turn/slot/text (same id) but different timestamps; the reused ctx kept turn 1's stamp")
    sys.exit(1)
print("ok")
sys.exit(0)
