#!/usr/bin/env python
"""Side observation (unchanged checkout): apply_promotion attaches concept edges with
graph.promotion.attach_weight, which the validator only bounds to [-1, 1]; it is not
bounded by graph.update.clamp_min/clamp_max. With clamp_max=0.1 and the default
attach_weight=0.5 the graph holds edges whose weight lies outside the configured clamp
bounds. Exit 1 when the violation shows, 0 otherwise.
"""
import sys

from configs.validate import validate_config
from clematis.engine import gel


class Ctx:
    def __init__(self, cfg):
        self.cfg = cfg
        self.config = cfg


class State:
    pass


cfg = validate_config(
    {
        "graph": {
            "enabled": True,
            "update": {"mode": "additive", "alpha": 0.05, "clamp_min": -0.1, "clamp_max": 0.1},
            "merge": {"enabled": True, "min_avg_w": 0.05},
            "promotion": {"enabled": True},  # attach_weight default 0.5
        }
    }
)
ctx, st = Ctx(cfg), State()
for t in range(3):
    gel.observe_retrieval(ctx, st, [("a", 0.9), ("b", 0.8), ("c", 0.7)], turn=t)
clusters = gel.merge_candidates(ctx, st)
for p in gel.promote_clusters(ctx, st, clusters):
    gel.apply_promotion(ctx, st, p)

lo = cfg["graph"]["update"]["clamp_min"]
hi = cfg["graph"]["update"]["clamp_max"]
bad = {k: r["weight"] for k, r in st.graph["edges"].items() if not (lo <= r["weight"] <= hi)}
if bad:
    print(f"edges outside clamp bounds [{lo}, {hi}]: {bad}")
    sys.exit(1)
print("all edge weights within clamp bounds")
sys.exit(0)
