"""Reproduction (documentation only): a snapshot whose GEL edge carries "attrs": null (garbage / foreign content) is
loaded at boot; with graph.enabled the decay tick then dereferences attrs and the turn is aborted.
Usage: cd /repo && PYTHONPATH=/repo /venv/bin/python <this>"""
import json, os, sys, tempfile
work = tempfile.mkdtemp(prefix="c20attrs_")
os.environ["CLEMATIS_LOG_DIR"] = os.path.join(work, "logs")
from clematis.engine.types import TurnCtx, Config
from clematis.engine.orchestrator import Orchestrator
from clematis.graph.store import InMemoryGraphStore
from clematis.memory.index import InMemoryIndex

snap = os.path.join(work, "snap")
os.makedirs(snap)
body = {"schema_version": "v1", "version_etag": "7", "store": {}, "gel": {"nodes": {}, "edges": {"a→b": {"id": "a→b", "src": "a", "dst": "b", "rel": "coact", "weight": 0.5, "attrs": None}}, "meta": {}}}
json.dump(body, open(os.path.join(snap, "state_A.json"), "w"))
from configs.validate import validate_config


class AD(dict):
    def __getattr__(self, k):
        try:
            v = self[k]
        except KeyError:
            raise AttributeError(k)
        return AD(v) if isinstance(v, dict) and not isinstance(v, AD) else v


raw = validate_config({"graph": {"enabled": True}, "t4": {"snapshot_dir": snap}, "t1": {"decay": {"mode": "exp_floor"}}})
cfg = AD(raw)
def _mk():
    c = TurnCtx(turn_id=1, agent_id="A", scene_tags=[], now="2025-03-01T12:00:00+00:00", cfg=cfg)
    c.config = cfg
    return c


state = {"store": InMemoryGraphStore(), "active_graphs": [], "mem_index": InMemoryIndex(), "mem_backend": "inmemory"}
try:
    res = Orchestrator().run_turn(_mk(), state, "hello")
    print("turn completed:", repr(res.line), "graph:", state.get("graph"), "loaded:", state.get("_boot_loaded"))
    sys.exit(0)
except Exception as e:
    print("TURN ABORTED:", type(e).__name__, e)
    sys.exit(1)
