#!/usr/bin/env python
"""Side observation (unchanged code): edge ids are built by joining node ids with a separator that node ids may
contain themselves ("__" in _edge_id, "→" in the body key). Two edges between DIFFERENT node pairs then get the same
id and one of them silently disappears from the snapshot body, so the loaded state has fewer edges than the state
that was snapshotted.
  ("a__b","c") vs ("a","b__c")  -> both "a__b__c__coact"   (collide in _sanitize_gel_for_write)
  ("a→b","c")  vs ("a","b→c")   -> both "a→b→c"            (collide in the write/load re-keying)
Exit 1 when the violation shows, 0 otherwise.
"""
import json
import sys
import tempfile
from types import SimpleNamespace

from clematis.engine.snapshot import load_latest_snapshot, write_snapshot


def E(s, d, w):
    return {"src": s, "dst": d, "rel": "coact", "weight": w, "updated_at": None, "attrs": {}}


def roundtrip(edges):
    d = tempfile.mkdtemp(prefix="c06obs_")
    cfg = {"t4": {"snapshot_dir": d}, "graph": {"enabled": True}}
    ctx = SimpleNamespace(agent_id="Ag", turn_id=1, cfg=cfg, config=cfg)
    nodes = {}
    for e in edges:
        nodes[e["src"]] = {"id": e["src"]}
        nodes[e["dst"]] = {"id": e["dst"]}
    s1 = SimpleNamespace(store=None, graph={"nodes": nodes, "edges": edges, "meta": {}})
    write_snapshot(ctx, s1, "1")
    s2 = SimpleNamespace(store=None)
    load_latest_snapshot(ctx, s2)
    return sorted((r["src"], r["dst"], r["weight"]) for r in s2.graph["edges"].values())


def main():
    bad = False
    for label, edges in (
        ("'__' in ids", [E("a__b", "c", 0.1), E("a", "b__c", 0.2)]),
        ("'→' in ids", [E("a→b", "c", 0.1), E("a", "b→c", 0.2)]),
    ):
        want = sorted((e["src"], e["dst"], e["weight"]) for e in edges)
        got = roundtrip(edges)
        print(label, "| state:", want, "| loaded:", got)
        if got != want:
            bad = True
    if bad:
        print("VIOLATION: distinct edges collapse to one id; the loaded GEL lost an edge")
        return 1
    print("no violation")
    return 0


if __name__ == "__main__":
    sys.exit(main())
