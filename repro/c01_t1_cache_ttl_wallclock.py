#!/usr/bin/env python
"""Side observation (unchanged checkout): t1.jsonl depends on how fast the wall clock runs.

The T1 result cache expires entries by real time (clematis/engine/cache.py: LRUCache / _NamespaceCache
use time.time, TTL = t1.cache.ttl_s). Whether turn 2 below is a cache hit therefore depends on the real
time that passed since turn 1: the same replay on a "slow" host (a pause between the two turns) logs
cache_hits=0 / max_delta=1.0, on a fast one cache_hits=1 / max_delta=0.0. To keep the script quick the
validated configuration sets t1.cache.ttl_s = 1 (the default, 300 s, behaves the same after 5 minutes).

Each replay runs in its own fresh interpreter. Exit 1 when the violation shows, 0 otherwise.
"""
from __future__ import annotations

import os
import subprocess
import sys
import tempfile
import time
from types import SimpleNamespace

os.environ["CI"] = "true"
ROOT = os.path.dirname(os.path.abspath(__file__))
if ROOT not in sys.path:
    sys.path.insert(0, ROOT)


class AttrDict(dict):
    def __getattr__(self, name):
        try:
            return self[name]
        except KeyError as exc:
            raise AttributeError(name) from exc


def _attr(obj):
    if isinstance(obj, dict):
        return AttrDict({k: _attr(v) for k, v in obj.items()})
    if isinstance(obj, list):
        return [_attr(v) for v in obj]
    return obj


def replay(outdir: str, pause_s: float) -> str:
    from clematis.engine.orchestrator import Orchestrator
    from clematis.graph.store import Edge, InMemoryGraphStore, Node
    from configs.validate import validate_config

    logs = os.path.join(outdir, "logs")
    snaps = os.path.join(outdir, "snapshots")
    os.makedirs(logs)
    os.makedirs(snaps)
    os.environ["CLEMATIS_LOG_DIR"] = logs
    os.environ["CLEMATIS_SNAPSHOT_DIR"] = snaps
    raw = validate_config({"t1": {"cache": {"enabled": True, "max_entries": 512, "ttl_s": 1}}})
    raw["t4"]["snapshot_dir"] = snaps
    cfg = _attr(raw)

    store = InMemoryGraphStore()
    store.upsert_nodes("g:surface", [Node(id="n:hello", label="hello"), Node(id="n:world", label="world")])
    store.upsert_edges("g:surface", [Edge(id="e:h->w", src="n:hello", dst="n:world", weight=0.8, rel="supports")])
    state = {"store": store, "active_graphs": ["g:surface"], "version_etag": "0"}
    for i, (agent, text) in enumerate([("A", "hello world"), ("B", "hello world")]):
        ctx = SimpleNamespace(
            turn_id=i + 1, agent_id=agent, scene_tags=[], now="2025-01-04T12:00:%02dZ" % i,
            now_ms=1735992000000 + 1000 * i, cfg=cfg, config=cfg,
        )
        Orchestrator().run_turn(ctx, state, text)
        time.sleep(pause_s)  # nothing but real time passes between the turns
    with open(os.path.join(logs, "t1.jsonl"), "r", encoding="utf-8") as fh:
        return fh.read()


def main() -> int:
    if len(sys.argv) > 1 and sys.argv[1] == "--child":
        sys.stdout.write(replay(sys.argv[2], float(sys.argv[3])))
        return 0
    base = tempfile.mkdtemp(prefix="c01_obs_t1ttl_")
    outs = {}
    for label, pause in (("fast", 0.0), ("slow", 1.6)):
        res = subprocess.run(
            [sys.executable, os.path.abspath(__file__), "--child", os.path.join(base, label), str(pause)],
            cwd=ROOT, check=True, capture_output=True, text=True,
        )
        outs[label] = res.stdout
    if outs["fast"] != outs["slow"]:
        print("VIOLATION: canonical t1.jsonl of the same replay depends on wall-clock speed")
        print("fast host:\n" + outs["fast"])
        print("slow host (1.6 s between the turns):\n" + outs["slow"])
        return 1
    print("no difference")
    return 0


if __name__ == "__main__":
    sys.exit(main())
