#!/usr/bin/env python
"""Side observation (unchanged code): the body name is f"state_{agent}.json" joined onto the snapshot dir with the
agent id taken verbatim. For an agent id containing a path separator (e.g. "team/A") write_snapshot succeeds - the
atomic writer creates the intermediate directory "state_team/" and writes "A.json" (+ sidecar) inside it - but
discovery lists only the top level of the snapshot dir and looks for the literal name "state_team/A.json", so the
same agent's load_latest_snapshot finds nothing (loaded=False) although a snapshot was just written.
Exit 1 when the violation shows, 0 otherwise.
"""
import os
import sys
import tempfile
from types import SimpleNamespace

from clematis.engine.snapshot import load_latest_snapshot, write_snapshot


class Store:
    def __init__(self, w=None):
        self.w = dict(w or {})


def main():
    d = tempfile.mkdtemp(prefix="c06obs_")
    cfg = {"t4": {"snapshot_dir": d}, "graph": {"enabled": True}}
    ctx = SimpleNamespace(agent_id="team/A", turn_id=1, cfg=cfg, config=cfg)
    edge = {"src": "a", "dst": "b", "rel": "coact", "weight": 0.4, "updated_at": None, "attrs": {}}
    s1 = SimpleNamespace(store=Store({("node", "n1", "weight"): 0.5}), graph={"nodes": {}, "edges": [edge], "meta": {}})
    path = write_snapshot(ctx, s1, "9")
    print("written:", path, "exists:", os.path.isfile(path))
    s2 = SimpleNamespace(store=Store(), version_etag=None)
    info = load_latest_snapshot(ctx, s2)
    print("load   :", info, "| version:", s2.version_etag, "| weights:", s2.store.w, "| edges:", list(s2.graph["edges"]))
    if os.path.isfile(path) and not (info["loaded"] and s2.version_etag == "9" and s2.store.w and s2.graph["edges"]):
        print("VIOLATION: the snapshot written for agent 'team/A' is not found by the same agent's loader")
        return 1
    print("no violation")
    return 0


if __name__ == "__main__":
    sys.exit(main())
