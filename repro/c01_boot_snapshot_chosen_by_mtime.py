#!/usr/bin/env python
"""Side observation (UNCHANGED code): the boot hook of the first turn (Orchestrator.run_turn -> load_latest_snapshot)
restores the state version and the GEL graph from the snapshot directory.  An agent that has no body of its own
there (a new agent joining a world that A and B already saved) gets "the newest state_*.json by mtime"
(clematis/engine/snapshot.py:_pick_latest_snapshot_path).  The two replays below start from byte-identical
directories (same file names, same bodies); only the file modification times differ - what a restore by copy, a
checkout or a stepped wall clock changes.  Agent C then boots from a different body: apply.jsonl (version_etag) and
the snapshot body written for C differ.

exit 1 = violation shown, 0 = not shown.
"""
from __future__ import annotations

import json
import os
import subprocess
import sys
import tempfile

ROOT = "/repo"
NOW_MS = 1_717_200_000_000


def body(agent: str, version: str, edge: tuple[str, str]) -> str:
    src, dst = edge
    return json.dumps({
        "turn": 1, "agent": agent, "version_etag": version, "applied": 0, "deltas": [], "schema_version": "v1",
        "store": {}, "graph_schema_version": "v1.1",
        "gel": {"nodes": {}, "edges": {f"{src}→{dst}": {"id": f"{src}→{dst}", "src": src, "dst": dst, "rel": "coact",
                                                      "weight": 0.5, "updated_at": None, "attrs": {}}},
                "meta": {"schema": "v1.1", "merges": [], "splits": [], "promotions": [],
                         "concept_nodes_count": 0, "edges_count": 1}},
        "graph": {"nodes_count": 0, "edges_count": 1, "meta": {"last_update": None}},
    })


def child(newest: str, wd: str) -> None:
    os.environ["CI"] = "true"
    sys.path.insert(0, ROOT)
    logs, snaps = os.path.join(wd, "logs"), os.path.join(wd, "snaps")
    os.makedirs(logs)
    os.makedirs(snaps)
    os.environ["CLEMATIS_LOG_DIR"] = logs
    os.environ["CLEMATIS_SNAPSHOT_DIR"] = snaps
    # identical initial directory in both replays
    for agent, ver, edge in (("A", "7", ("ep1", "ep2")), ("B", "3", ("ep8", "ep9"))):
        with open(os.path.join(snaps, f"state_{agent}.json"), "w", encoding="utf-8", newline="\n") as f:
            f.write(body(agent, ver, edge))
    # ... except for the modification times
    t_old, t_new = 1_700_000_000, 1_700_000_100
    for agent in ("A", "B"):
        t = t_new if agent == newest else t_old
        os.utime(os.path.join(snaps, f"state_{agent}.json"), (t, t))

    from types import SimpleNamespace as SNS
    from configs.validate import validate_config
    from clematis.engine.orchestrator import Orchestrator
    from clematis.engine.orchestrator.core import _iso_from_ms
    from clematis.graph.store import InMemoryGraphStore, Node

    class AttrDict(dict):
        __getattr__ = dict.__getitem__

    def attr(o):
        return AttrDict({k: attr(v) for k, v in o.items()}) if isinstance(o, dict) else o

    cfg = attr(validate_config({"t4": {"snapshot_dir": snaps}}))
    store = InMemoryGraphStore()
    store.upsert_nodes("g:surface", [Node(id="n:hello", label="hello")])
    state = {"store": store, "active_graphs": ["g:surface"], "version_etag": "0"}
    ctx = SNS(turn_id=1, agent_id="C", now=_iso_from_ms(NOW_MS), now_ms=NOW_MS, cfg=cfg, config=cfg)
    line = Orchestrator().run_turn(ctx, state, "hello").line
    out = {
        "utter": line,
        "apply": open(os.path.join(logs, "apply.jsonl"), encoding="utf-8").read().replace(wd, "<WD>"),
        "snapshot_C": open(os.path.join(snaps, "state_C.json"), encoding="utf-8").read(),
    }
    print("RESULT " + json.dumps(out))


def run(newest: str) -> dict:
    with tempfile.TemporaryDirectory() as wd:
        p = subprocess.run([sys.executable, os.path.abspath(__file__), "--child", newest, wd], cwd=ROOT,
                           env=dict(os.environ, PYTHONPATH=ROOT, PYTHONHASHSEED="0"), capture_output=True, text=True)
        if p.returncode:
            print(p.stdout, p.stderr)
            raise SystemExit(2)
        return json.loads([l for l in p.stdout.splitlines() if l.startswith("RESULT ")][-1][7:])


if __name__ == "__main__":
    if len(sys.argv) > 1 and sys.argv[1] == "--child":
        child(sys.argv[2], sys.argv[3])
        sys.exit(0)
    r1, r2 = run("A"), run("B")
    print("replay 1 (state_A.json has the later mtime):", r1["apply"].strip())
    print("replay 2 (state_B.json has the later mtime):", r2["apply"].strip())
    if r1 != r2:
        print("VIOLATION: same directory content, same turn - apply.jsonl differs:", r1["apply"] != r2["apply"],
              "| snapshot body of C differs:", r1["snapshot_C"] != r2["snapshot_C"])
        sys.exit(1)
    print("not shown")
    sys.exit(0)
