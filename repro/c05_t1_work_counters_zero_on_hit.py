"""
Side observation (unchanged checkout): with perf.enabled + perf.metrics.report_memory, T1 reports the
work counters t1_frontier_evicted / t1_dedup_hits / t1_visited_evicted. A fresh computation measures
them, a T1 cache hit reports 0 for all three - so the same turn returns different T1Result.metrics
depending on whether the propagation cache is on. These are not hit/miss counters nor max_delta.

Exit 1 when the violation shows, 0 otherwise.
"""
import sys

from clematis.engine.stages import t1 as t1_mod
from clematis.engine.stages.t1 import t1_propagate
from clematis.engine.types import Config
from clematis.graph.store import Edge, InMemoryGraphStore, Node

GID = "g:surface"
DIAGNOSTIC = {"cache_hits", "cache_misses", "cache_used", "cache_enabled", "max_delta",
              "t1.cache_evictions", "t1.cache_bytes"}


def make_state():
    store = InMemoryGraphStore()
    names = ["hub", "a", "b", "c", "d"]
    store.upsert_nodes(GID, [Node(id=f"n:{x}", label=x) for x in names])
    store.upsert_edges(
        GID,
        [Edge(id=f"e:hub->{x}", src="n:hub", dst=f"n:{x}", weight=0.9, rel="supports") for x in names[1:]]
        + [Edge(id=f"e:{x}->hub", src=f"n:{x}", dst="n:hub", weight=0.9, rel="supports") for x in names[1:]],
    )
    return {"store": store, "active_graphs": [GID]}


def replay(cache_on: bool):
    t1_mod._T1_CACHE = None
    t1_mod._T1_CACHE_CFG = None
    cfg = Config()
    cfg.t1["cache"] = {"enabled": cache_on, "max_entries": 64, "ttl_s": 300}
    cfg.perf = {
        "enabled": True,
        "metrics": {"report_memory": True},
        "t1": {"caps": {"frontier": 1, "visited": 2}, "dedupe_window": 2},
    }
    ctx = type("Ctx", (), {"cfg": cfg, "turn_id": "t", "agent_id": "A"})()
    state = make_state()
    out = []
    for _ in range(2):
        r = t1_propagate(ctx, state, "hub")
        out.append(({k: v for k, v in r.metrics.items() if k not in DIAGNOSTIC}, list(r.graph_deltas)))
    return out


off = replay(False)
on = replay(True)
bad = 0
for i, (a, b) in enumerate(zip(off, on)):
    if a != b:
        bad += 1
        diff = {k: (a[0].get(k), b[0].get(k)) for k in set(a[0]) | set(b[0]) if a[0].get(k) != b[0].get(k)}
        print(f"turn {i}: (cache off, cache on) differ in {diff}")
if bad:
    print("VIOLATION: T1 metrics beyond the cache diagnostics depend on the cache")
    sys.exit(1)
print("no difference")
sys.exit(0)
