#!/usr/bin/env python
"""
Side observation (unchanged checkout): the timestamp of a reflection entry depends on the history of the ctx
object when the turn's logical clock cannot be rendered as a calendar date.

run_turn refreshes ctx.now_iso from ctx.now_ms on every turn (fixes 087c661 / 13c187d), but the refresh sits in a
try/except: for a clock beyond datetime's range (year > 9999) _iso_from_ms raises and the previous turn's
ctx.now_iso is left in place.  write_reflection_entries prefers ctx.now_iso, so the entry of turn 2 is stamped with
turn 1's time when the ctx is reused, and with the writer's own fallback format when the ctx is fresh: same agent,
turn, slot, text (and clock) - two different timestamps.

Exit 1 when the two timestamps differ (violation), 0 otherwise.
"""
import os, sys, tempfile
ROOT = "/repo"; sys.path.insert(0, ROOT)
_tmp = tempfile.mkdtemp(prefix="c19obs_"); os.environ["CLEMATIS_LOG_DIR"] = _tmp; os.environ["CLEMATIS_LOGS_DIR"] = _tmp
os.chdir(_tmp)
from types import SimpleNamespace as SNS
import clematis.engine.orchestrator as orch
from clematis.engine.orchestrator import core
from clematis.engine.types import Plan
from clematis.memory.index import InMemoryIndex
from configs.validate import validate_config


class AD(dict):
    def __getattr__(self, k):
        try:
            return self[k]
        except KeyError as e:
            raise AttributeError(k) from e


def ad(o):
    if isinstance(o, dict):
        return AD({k: ad(v) for k, v in o.items()})
    if isinstance(o, list):
        return [ad(v) for v in o]
    return o


cfg = ad(validate_config({"t3": {"allow_reflection": True, "reflection": {"topk_snippets": 0, "embed": False}},
                          "scheduler": {"budgets": {"ops_reflection": 1}}}))
orch.t3_deliberate = lambda ctx, state, bundle: Plan(version="t3-plan-v1", reflection=True, ops=[], request_retrieve=None)

FAR = 10 ** 15  # ms; about year 33658 - a valid integer clock, not a valid datetime


def turn2_entry(reuse_ctx: bool):
    idx = InMemoryIndex()
    state = {"memory_index": idx, "version_etag": "0"}
    ctx = SNS(turn_id=1, agent_id="A", now_ms=1000, cfg=cfg)
    if reuse_ctx:
        core.run_turn(ctx, state, "hello")
        ctx.turn_id, ctx.now_ms = 2, FAR
    else:
        core.run_turn(ctx, state, "hello")
        ctx = SNS(turn_id=2, agent_id="A", now_ms=FAR, cfg=cfg)
    core.run_turn(ctx, state, "hello")
    rows = [e for e in idx._eps if e["id"].startswith("refl-2-")]
    assert len(rows) == 1, rows
    return rows[0]


a = turn2_entry(reuse_ctx=True)
b = turn2_entry(reuse_ctx=False)
print("reused ctx :", a["id"], a["ts"])
print("fresh ctx  :", b["id"], b["ts"])
if a["id"] == b["id"] and a["text"] == b["text"] and a["ts"] != b["ts"]:
    print("VIOLATION: same agent/turn/slot/text/clock, different timestamps (the reused ctx carries turn 1's time)")
    sys.exit(1)
print("ok")
sys.exit(0)
