#!/usr/bin/env python
"""
Side observation (unchanged code): compression="zstd" while the zstandard module is not importable.

_write_lines degrades to codec "none" (with a warning) but write_snapshot_auto has already chosen the file name
('*.json.zst') and the header ('"codec": "zstd"'): plain text is stored under a .zst name.  _read_text refuses every
'.zst' file when zstandard is missing, so
  * the snapshot that was just written cannot be read back in the same environment (RuntimeError, neither the
    payload nor 'absence'), and
  * a delta-mode write never finds its (present, intact) baseline readable and silently writes fulls forever.

Exit 1 when the violation shows, 0 otherwise (also 0 when zstandard is installed: nothing to observe then).
"""
import sys
import tempfile

import clematis.engine.snapshot as S

if S._zstd is not None:
    print("zstandard installed; nothing to observe")
    sys.exit(0)

BASE = {"store": {"w": {"a": 1, "b": 2}}}
CURR = {"store": {"w": {"a": 1, "b": 3}}}
bad = []
with tempfile.TemporaryDirectory() as d:
    p1, _ = S.write_snapshot_auto(d, etag_from=None, etag_to="E1", payload=BASE, compression="zstd")
    p2, wrote_delta = S.write_snapshot_auto(d, etag_from="E1", etag_to="E2", payload=CURR, compression="zstd", delta_mode=True)
    print("wrote:", p1, "|", p2, "| delta:", wrote_delta)
    print("first bytes of", p1, "->", open(p1, "rb").read(40))
    if not wrote_delta:
        bad.append("delta requested, baseline present and intact, yet the writer could not read it and wrote a full")
    for how, kw in (("etag", dict(root=d, etag_to="E2")), ("path", dict(path=p2))):
        try:
            got = S.read_snapshot(**kw)
            print(f"read back ({how}):", got)
            if got != CURR:
                bad.append(f"read back ({how}) returned {got!r}")
        except Exception as e:
            print(f"read back ({how}) raised {e!r}")
            bad.append(f"read back ({how}) of the snapshot just written raised {type(e).__name__}")
if bad:
    print("VIOLATION:")
    for b in bad:
        print("  -", b)
    sys.exit(1)
print("OK")
sys.exit(0)
