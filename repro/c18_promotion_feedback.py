"""Side observation (unchanged code): the promotion pass is not idempotent.

The orchestrator's per-turn pass is merge_candidates -> promote_clusters -> apply_promotion.
apply_promotion attaches concept<->member edges (weight 0.5 >= merge.min_avg_w), and
merge_candidates / _build_adj do not tell concept edges from coact edges, so on the next pass
the concept node is itself a cluster member:
  - ids sorting after "c::" (ep1, ep2, ...): lexmin member becomes "c::ep1", a NEW concept
    "c::c::ep1" is created, then "c::c::c::ep1", ... one more concept node and a growing set
    of edges on every pass over an otherwise unchanged graph;
  - ids sorting before "c::" (a, b, ...): the concept is attached to itself: self-loop edge
    "c::a→c::a".
Exit 1 when a second pass over an unchanged graph changes it.
"""
import copy, sys
from clematis.engine import gel


class S:
    pass


CFG = {"graph": {
    "enabled": True, "coactivation_threshold": 0.2, "observe_top_k": 64, "pair_cap_per_obs": 2048,
    "update": {"mode": "additive", "alpha": 0.1, "clamp_min": -1.0, "clamp_max": 1.0},
    "decay": {"half_life_turns": 200, "floor": 0.0},
    "merge": {"enabled": True, "min_size": 3, "min_avg_w": 0.2, "max_diameter": 2, "cap_per_turn": 4},
    "promotion": {"enabled": True, "label_mode": "lexmin", "attach_weight": 0.5, "cap_per_turn": 2},
}}


def promo_pass(s):
    clusters = gel.merge_candidates(CFG, s)
    for p in gel.promote_clusters(CFG, s, clusters)[:2]:
        gel.apply_promotion(CFG, s, p)


bad = 0
for ids in (("ep1", "ep2", "ep3"), ("a", "b", "d")):
    s = S()
    for _ in range(3):
        gel.observe_retrieval(CFG, s, [(ids[0], .9), (ids[1], .8), (ids[2], .7)])
    promo_pass(s)
    before = copy.deepcopy(s.graph)
    promo_pass(s)
    if s.graph != before:
        bad += 1
        print(f"ids={ids}: second promotion pass changed the graph")
        print("   nodes :", sorted(before["nodes"]), "->", sorted(s.graph["nodes"]))
        print("   new edges:", sorted(set(s.graph["edges"]) - set(before["edges"])))
        print("   concept_nodes_count:", before["meta"]["concept_nodes_count"], "->", s.graph["meta"]["concept_nodes_count"])
sys.exit(1 if bad else 0)
