#!/usr/bin/env python
"""
Side observation (unchanged checkout): duplicates are merged BEFORE the cooldown
step and the merged delta keeps only the smallest op_idx.  If two ops of different
kinds propose a change to the same target and only the op with the larger index is
in cooldown, the blocked op is reported in rejected_ops but its contribution is
still part of the approved delta ("none originating from an operation still in
cooldown" does not hold).

Exit 1 when the approved delta contains the blocked op's contribution, 0 otherwise.
"""
import sys
from types import SimpleNamespace

from configs.validate import validate_config
from clematis.engine.stages.t4 import t4_filter
from clematis.engine.types import ProposedDelta

cfg = validate_config({"t4": {"cooldowns": {"CreateGraph": 10}}})
ctx = SimpleNamespace(turn_id=12, config=SimpleNamespace(t4=dict(cfg["t4"])))
state = SimpleNamespace(meta=SimpleNamespace(cooldowns={"CreateGraph": 11}))  # CreateGraph used last turn

ops = [{"kind": "EditGraph"}, {"kind": "CreateGraph"}]
deltas = [
    ProposedDelta(target_kind="node", target_id="n:x", attr="weight", delta=0.05, op_idx=0),
    ProposedDelta(target_kind="node", target_id="n:x", attr="weight", delta=0.20, op_idx=1),  # from the blocked op
]
res = t4_filter(ctx, state, None, None, {"ops": ops, "deltas": deltas}, None)
print("rejected_ops =", res.rejected_ops)
print("approved     =", res.approved_deltas)

blocked = {r.idx for r in res.rejected_ops}
assert blocked == {1}, blocked
got = [x.delta for x in res.approved_deltas if x.target_id == "n:x"]
if got and abs(got[0] - 0.05) > 1e-12:
    print(f"VIOLATION: approved n:x = {got[0]} includes +0.20 proposed by op 1, which is reported as cooldown-blocked")
    sys.exit(1)
print("ok")
sys.exit(0)
