#!/usr/bin/env python
"""
Side observation (unchanged checkout): the T1 cache key names the matched seed nodes as a SORTED id tuple, but the
propagation depends on the ORDER in which the seeds were matched (labels are walked in label order) as soon as the
perf dedupe ring is on (perf.enabled + perf.t1.dedupe_window): the ring keeps the last `window` pushes, so which seed
is still "recent" when the first edges are relaxed depends on the seeding order. Two texts that match the same nodes
through different labels / tags therefore share a cache entry although a fresh computation differs.

Exit 1 when caches-on and caches-off disagree, 0 otherwise.
"""
import os
import sys
from types import SimpleNamespace

sys.path.insert(0, "/repo")

from clematis.engine.types import Config
from clematis.engine.stages.t1 import t1_propagate
from clematis.graph.store import InMemoryGraphStore, Node, Edge


def build_state():
    store = InMemoryGraphStore()
    store.upsert_nodes(
        "g",
        [
            # node A is reachable through its label "zeta" and through its tag "alpha"
            Node(id="A", label="zeta", attrs={"tags": ["alpha"]}),
            Node(id="B", label="mid"),
            Node(id="C", label="gamma"),
            Node(id="D", label="delta"),
        ],
    )
    store.upsert_edges(
        "g",
        [
            Edge(id="e1", src="A", dst="B", weight=0.9, rel="supports"),
            Edge(id="e2", src="A", dst="C", weight=0.5, rel="supports"),
            Edge(id="e3", src="C", dst="D", weight=0.9, rel="supports"),
        ],
    )
    return {"store": store, "active_graphs": ["g"]}


def run(cache_on: bool):
    cfg = Config()
    cfg.t1["cache"] = {"enabled": cache_on, "max_entries": 512, "ttl_s": 300}
    cfg.t1["queue_budget"] = 3
    cfg.t1["node_budget"] = 5.0
    cfg.perf = {"enabled": True, "t1": {"dedupe_window": 1}}
    ctx = SimpleNamespace(cfg=cfg)
    state = build_state()
    out = []
    # both texts match exactly the nodes {A, B}; "zeta mid" seeds B then A, "alpha mid" seeds A then B
    for text in ("zeta mid", "alpha mid"):
        r = t1_propagate(ctx, state, text)
        m = {k: v for k, v in r.metrics.items() if not k.startswith("cache_") and k != "max_delta"}
        out.append((text, [d["id"] for d in r.graph_deltas], m))
    return out


def main() -> int:
    on, off = run(True), run(False)
    bad = False
    for a, b in zip(on, off):
        print("caches on :", a)
        print("caches off:", b)
        if a != b:
            bad = True
            print("  -> MISMATCH")
    return 1 if bad else 0


if __name__ == "__main__":
    sys.exit(main())
