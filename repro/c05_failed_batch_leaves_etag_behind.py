#!/usr/bin/env python
"""
Side observation (unchanged checkout): a graph edit batch that fails half-way leaves the graph changed but its
etag unchanged, so the T1 cache keeps serving the propagation of the graph as it was BEFORE the edit.

InMemoryGraphStore.apply_deltas inserts the deltas one by one and recomputes the content etag only after the loop;
a malformed delta (here: an upsert_edge without "weight", a non-numeric weight does the same) raises out of the
loop, the earlier deltas of the batch stay applied and _bump_etag never runs. (apply_changes hides this because it
replays the batch delta by delta; any direct caller of the store API - world scripts, GEL promotion, tests - does not.)

History: turn("alpha") ; apply_deltas([new edge A->C, malformed delta]) -> raises, caught by the caller ; turn("alpha").
Exit 1 when caches-on and caches-off disagree on the second turn, 0 otherwise.
"""
import os
import sys
from types import SimpleNamespace

sys.path.insert(0, "/repo")

from clematis.engine.types import Config
from clematis.engine.stages.t1 import t1_propagate
from clematis.graph.store import InMemoryGraphStore, Node, Edge


def run(cache_on: bool):
    cfg = Config()
    cfg.t1["cache"] = {"enabled": cache_on, "max_entries": 512, "ttl_s": 300}
    ctx = SimpleNamespace(cfg=cfg)
    store = InMemoryGraphStore()
    store.upsert_nodes("g", [Node(id="A", label="alpha"), Node(id="B", label="beta"), Node(id="C", label="gamma")])
    store.upsert_edges("g", [Edge(id="e1", src="A", dst="B", weight=0.9, rel="supports")])
    state = {"store": store, "active_graphs": ["g"]}

    first = t1_propagate(ctx, state, "alpha")
    etag_before = store.version_etag("g")
    try:
        store.apply_deltas(
            "g",
            [
                {"op": "upsert_edge", "src": "A", "dst": "C", "weight": 0.9, "rel": "supports"},
                {"op": "upsert_edge", "src": "B", "dst": "C"},  # malformed: no weight
            ],
        )
    except Exception as exc:  # the caller survives the failed batch
        print(f"  apply_deltas raised {type(exc).__name__}; edges now: {sorted(store.get_graph('g').edges)}")
    etag_after = store.version_etag("g")
    second = t1_propagate(ctx, state, "alpha")
    strip = lambda m: {k: v for k, v in m.items() if not k.startswith("cache_") and k != "max_delta"}
    return (
        [d["id"] for d in first.graph_deltas],
        [d["id"] for d in second.graph_deltas],
        strip(second.metrics),
        etag_before == etag_after,
    )


def run_wedged(cache_on: bool):
    """Variant: one edge with a non-numeric weight makes _bump_etag itself raise - from then on EVERY edit of that
    graph lands in the maps, raises, and leaves the etag where it was."""
    cfg = Config()
    cfg.t1["cache"] = {"enabled": cache_on, "max_entries": 512, "ttl_s": 300}
    ctx = SimpleNamespace(cfg=cfg)
    store = InMemoryGraphStore()
    store.upsert_nodes("h", [Node(id="A", label="alpha"), Node(id="B", label="beta"), Node(id="Z", label="zed")])
    t1_propagate(ctx, {"store": store, "active_graphs": ["h"]}, "alpha")
    for edges in (
        [Edge(id="bad", src="Z", dst="A", weight="n/a", rel="supports")],  # never relaxed from seed A
        [Edge(id="ok", src="A", dst="B", weight=0.9, rel="supports")],  # a perfectly valid later edit
    ):
        try:
            store.upsert_edges("h", edges)
        except Exception as exc:
            print(f"  upsert_edges({edges[0].id}) raised {type(exc).__name__}; edges now: {sorted(store.get_graph('h').edges)}")
    r = t1_propagate(ctx, {"store": store, "active_graphs": ["h"]}, "alpha")
    return [d["id"] for d in r.graph_deltas]


def main() -> int:
    print("caches on:")
    on = run(True)
    print("caches off:")
    off = run(False)
    print("caches on :", on)
    print("caches off:", off)
    bad = False
    if on[:3] != off[:3]:
        print("MISMATCH: the graph changed (edge A->C is there) but the etag did not:", on[3])
        bad = True
    print("variant (etag wedged by a non-numeric weight), caches on:")
    won = run_wedged(True)
    print("variant, caches off:")
    woff = run_wedged(False)
    print("caches on :", won)
    print("caches off:", woff)
    if won != woff:
        print("MISMATCH: the valid edit A->B landed but the etag never moved again")
        bad = True
    return 1 if bad else 0


if __name__ == "__main__":
    sys.exit(main())
