"""C04 (only if the batch call fails, once more one by one; an all-or-nothing store never has a delta applied twice):
apply_changes extracted the store's counters *inside* the try that guards the batch call -
    res = apply_fn("g:surface", deltas); applied_count += int(_safe_get(res, "edits", 0))
so a store whose apply_deltas SUCCEEDS but reports a counter that int() rejects (edits: None - "not counted") is treated
as a failed batch: every approved delta is handed over a second time, one by one.
exit 1 = defect present, 0 = absent."""
import sys, types
sys.path.insert(0, "/repo")
from clematis.engine.apply import apply_changes
from clematis.engine.types import T4Result

class Store:
    """all-or-nothing batch store that does not count edits"""
    def __init__(self): self.calls = []; self.w = {}
    def apply_deltas(self, gid, deltas):
        self.calls.append([d["id"] for d in deltas])
        for d in deltas:
            self.w[d["id"]] = self.w.get(d["id"], 0.0) + d["delta"]
        return {"edits": None, "clamps": 0}

deltas = [{"target_kind": "node", "target_id": f"n:{i}", "id": f"n:{i}", "attr": "weight", "delta": 0.5} for i in "abc"]
try:
    t4 = T4Result(approved_deltas=deltas, rejected_ops=[], reasons=[], metrics={})
except TypeError:
    t4 = types.SimpleNamespace(approved_deltas=deltas, rejected_ops=[], reasons=[], metrics={})
store = Store()
state = {"store": store, "version_etag": "7"}
ctx = types.SimpleNamespace(cfg={"t4": {"snapshot_every_n_turns": 0, "cache_bust_mode": "none"}}, config=None, turn_id=1, agent_id="A")
ctx.config = ctx.cfg
res = apply_changes(ctx, state, t4)
print("store calls:", store.calls)
print("weights:", store.w, "version:", state.get("version_etag"))
bad = [k for k, v in store.w.items() if abs(v - 0.5) > 1e-9]
if len(store.calls) != 1 or bad:
    print(f"DEFECT: the batch call succeeded, yet {len(store.calls) - 1} further single-delta calls were made; weights applied twice for {bad}")
    sys.exit(1)
print("OK: one batch call, every delta applied once")
