"""Side observation (unchanged code): real stage pipeline, no active graph (so the compute phase runs through),
T3 off, default t4 config (cache_bust_mode on-apply, snapshot every turn).  The batch driver and the sequential
loop disagree on results and on apply.jsonl / t2.jsonl:
  * per-agent result lines: the sequential turns return the input text, the batch returns "" (dry-run never
    reaches the code that builds the line);
  * apply.jsonl "snapshot": the commit phase calls apply_changes with the BATCH ctx (no agent_id), so every agent's
    snapshot goes to state_agent.json instead of state_<agent>.json (and the second overwrites the first);
  * apply.jsonl "cache_invalidations" is 2,0 instead of 1,1 and t2.jsonl "cache_size" is 1,2 instead of 1,1: the
    compute phases fill the live turn-level cache through the read-only snapshot before any apply invalidates it.

Exit 1 when any of these differ.
"""

import os
import sys
import tempfile
from dataclasses import asdict
from types import SimpleNamespace as SNS

import clematis.io.paths as paths
from clematis.engine import orchestrator as orch
from clematis.engine.cache import CacheManager
from clematis.engine.types import Config
from clematis.graph.store import InMemoryGraphStore, Node, Edge
from clematis.memory.index import InMemoryIndex

os.environ["CI"] = "true"


class St(dict):
    def __getattr__(self, k):
        try:
            return self[k]
        except KeyError:
            raise AttributeError(k)

    def __setattr__(self, k, v):
        self[k] = v


def make_state():
    store = InMemoryGraphStore()
    store.ensure("g:surface")
    store.upsert_nodes("g:surface", [Node(id="n:hello", label="hello"), Node(id="n:world", label="world")])
    store.upsert_edges("g:surface", [Edge(id="e1", src="n:hello", dst="n:world", weight=0.8, rel="supports")])
    return St(store=store, active_graphs=[], graphs_by_agent={"A": ["gA"], "B": ["gB"]},
              _boot_loaded=True, _cache_mgr=CacheManager(max_entries=64, ttl_sec=600),
              mem_index=InMemoryIndex(), mem_backend="inmemory")


def run(parallel, d):
    paths.logs_dir = lambda: d
    cfg = SNS(**asdict(Config()))
    cfg.perf = {"enabled": True, "parallel": {"enabled": parallel, "agents": parallel, "max_workers": 4 if parallel else 1}}
    cfg.t3 = dict(cfg.t3, enabled=False)
    cfg.t4 = dict(cfg.t4, snapshot_dir=os.path.join(d, "snaps"))
    ctx = SNS(cfg=cfg, config=cfg, turn_id=5, now="2026-01-01T00:00:00+00:00", now_ms=1767225600000)
    res = orch._run_agents_parallel_batch(ctx, make_state(), [("A", "hello"), ("B", "nothing matches")])
    import json
    rows = {}
    for n in ("apply.jsonl", "t2.jsonl"):
        with open(os.path.join(d, n), encoding="utf-8") as f:
            rows[n] = [json.loads(x) for x in f.read().splitlines()]
    return {
        "lines": [r.line for r in res],
        "snapshot": [os.path.basename(str(r["snapshot"])) for r in rows["apply.jsonl"]],
        "cache_invalidations": [r["cache_invalidations"] for r in rows["apply.jsonl"]],
        "t2_cache_size": [r.get("cache_size") for r in rows["t2.jsonl"]],
    }


with tempfile.TemporaryDirectory() as a, tempfile.TemporaryDirectory() as b:
    seq = run(False, a)
    par = run(True, b)
bad = 0
for k in seq:
    print("%-20s sequential=%s batch=%s" % (k, seq[k], par[k]))
    bad |= seq[k] != par[k]
sys.exit(1 if bad else 0)
