#!/usr/bin/env python3
"""Side observation (UNCHANGED code): with string turn ids the per-file order of a staged flush depends on the
staging byte limit.

_run_agents_parallel_batch stages the compute buffers in the order of _sort_turn_buffers, which compares turn ids
as integers when int() accepts them ("9" < "10"); LogStager.drain_sorted compares the raw LogKey.turn_id
("10" < "9" for strings).  The two orders disagree, so whether a back-pressure flush happens between the two
buffers decides which record comes first in t1.jsonl.  With a mixed int / str pair drain_sorted raises TypeError
and the staged records are gone (the buffer was already moved out).

Needs buffers with different turn ids in one batch (the real _run_turn_compute gives every buffer ctx.turn_id, so
this shows through the orchestrator-level hooks the existing tests use: _run_turn_compute / enable_staging).
String turn ids are supported input: run_smoke_turn uses turn_id="1", _sort_turn_buffers has a str branch.

Clause contradicted: "staged records are flushed in (turn, stage order, slice, arrival) order whatever the
staging limit".   Exit 1 = violation shown, 0 = not shown.
"""
import json
import os
import sys
import tempfile
from types import SimpleNamespace as SNS

sys.path.insert(0, "/repo")
d = tempfile.mkdtemp(prefix="obs_c16_")
os.environ["CLEMATIS_LOG_DIR"] = d
os.environ.pop("CI", None)

from clematis.engine import orchestrator as orch  # noqa: E402
import clematis.engine.util.io_logging as io_log  # noqa: E402
from tests.helpers.configs import make_cfg_par  # noqa: E402
from tests.helpers.world import make_state_disjoint  # noqa: E402


def run(turns, limit):
    for f in os.listdir(d):
        os.remove(os.path.join(d, f))

    def fake_compute(ctx, base, agent_id, text):
        tid = turns[agent_id]
        return {
            "turn_id": tid, "slice_idx": 0, "agent_id": agent_id,
            "logs": [("t1.jsonl", {"agent": agent_id, "turn": tid, "pad": "x" * 50})],
            "deltas": [], "dialogue": "ok", "graphs_touched": set(), "graph_versions": {},
        }

    orch._run_turn_compute = fake_compute
    orch._make_readonly_snapshot = lambda s: s
    orch.apply_changes = lambda ctx, state, t4: SNS(applied=0, clamps=0, version_etag="e", snapshot_path=None, metrics={})
    orch.enable_staging = lambda: io_log.enable_staging(byte_limit=limit)
    ctx = SNS(cfg=make_cfg_par(4), turn_id=1)
    state = make_state_disjoint(2)
    err = None
    try:
        orch._run_agents_parallel_batch(ctx, state, [(a, "hi") for a in turns])
    except Exception as ex:  # noqa: BLE001
        err = ex
    p = os.path.join(d, "t1.jsonl")
    got = [json.loads(x)["agent"] for x in open(p)] if os.path.exists(p) else []
    return got, err


bad = False
big, _ = run({"A": "9", "B": "10"}, 32 * 1024 * 1024)
small, _ = run({"A": "9", "B": "10"}, 60)
print("turn ids '9','10'  limit 32MiB ->", big, "   limit 60 bytes ->", small)
if big != small:
    print("VIOLATION: per-file order of t1.jsonl depends on the staging limit")
    bad = True
got, err = run({"A": 9, "B": "10"}, 32 * 1024 * 1024)
print("turn ids 9,'10'  ->", got, "error:", repr(err))
if err is not None and len(got) < 2:
    print("VIOLATION: mixed turn id types: drain_sorted raised and the staged records are lost")
    bad = True
sys.exit(1 if bad else 0)
