#!/usr/bin/env python
"""Side observation (unchanged code): the configured similarity thresholds never reach the planner.

`deliberate` reads tau_high / tau_low / epsilon_edit from bundle["cfg"]["t3"]["policy"], but the
bundle that run_turn builds (`assemble_bundle` -> `cfg_snapshot`) copies only max_rag_loops, tokens
and temp out of cfg.t3.  So for every configured threshold other than the built-in 0.8 / 0.4 the
Speak intent and the retrieval request follow the defaults, not the documented (configured) ones.

Exit 1 when the violation shows, 0 otherwise.
"""
import sys
from types import SimpleNamespace as NS

from configs.validate import validate_config
from clematis.engine.stages.t3 import make_plan_bundle, deliberate


def _plan_for(tau_high, tau_low, s_max):
    raw = {"t3": {"policy": {"tau_high": tau_high, "tau_low": tau_low}}}
    cfg = validate_config(raw)  # accepted: thresholds in [0,1], tau_high >= tau_low
    cfg = cfg if isinstance(cfg, dict) else raw
    assert float(cfg["t3"]["policy"]["tau_low"]) == tau_low
    ctx = NS(now="2025-01-01T00:00:00+00:00", agent_id="A", cfg=cfg, input_text="hello")
    t1 = NS(graph_deltas=[{"id": "n1", "label": "fern", "delta": 0.5}], metrics={})
    t2 = NS(retrieved=[], metrics={"sim_stats": {"mean": s_max, "max": s_max}, "k_returned": 0})
    bundle = make_plan_bundle(ctx, {}, t1, t2)
    plan = deliberate(bundle)
    kinds = [op.kind for op in plan.ops]
    return bundle, plan.ops[0].intent, kinds


def main() -> int:
    bad = []
    # (a) configured tau_low=0.1, evidence 0.2 >= tau_low: documented -> assertion, no retrieval
    b, intent, kinds = _plan_for(0.9, 0.1, 0.2)
    print("bundle cfg.t3 =", b["cfg"]["t3"])
    print(f"(a) tau_high=0.9 tau_low=0.1 s_max=0.2 -> intent={intent} ops={kinds}")
    if intent != "assertion" or "RequestRetrieve" in kinds:
        bad.append("(a) evidence above the configured low threshold still yields question/RequestRetrieve")
    # (b) configured tau_high=0.5, evidence 0.6 >= tau_high: documented -> summary
    b, intent, kinds = _plan_for(0.5, 0.3, 0.6)
    print(f"(b) tau_high=0.5 tau_low=0.3 s_max=0.6 -> intent={intent} ops={kinds}")
    if intent != "summary":
        bad.append("(b) evidence above the configured high threshold is not a summary")
    # (c) configured tau_low=0.7, evidence 0.5 < tau_low: documented -> question + retrieval
    b, intent, kinds = _plan_for(0.9, 0.7, 0.5)
    print(f"(c) tau_high=0.9 tau_low=0.7 s_max=0.5 -> intent={intent} ops={kinds}")
    if intent != "question" or "RequestRetrieve" not in kinds:
        bad.append("(c) evidence below the configured low threshold does not ask/retrieve")
    for m in bad:
        print("VIOLATION:", m)
    return 1 if bad else 0


if __name__ == "__main__":
    sys.exit(main())
