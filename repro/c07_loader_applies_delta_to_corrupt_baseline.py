#!/usr/bin/env python
"""
Side observation (unchanged code): load_latest_snapshot applies a delta to a CORRUPT baseline.

read_snapshot and write_snapshot_auto read the baseline through _read_baseline_payload (an unusable baseline counts
as a missing one); load_latest_snapshot still uses _read_header_payload directly.  A baseline full snapshot that was
truncated after its header line is parsed as a single JSON object, so the *header* is taken for the baseline body
and the delta is applied on top of the header fields: the boot loader reports loaded=True with a state rebuilt from
{header fields + changed paths only}, although the sibling full snapshot for the same etag is right there.

Exit 1 when the violation shows, 0 otherwise.
"""
import os
import sys
import tempfile
import time
from types import SimpleNamespace

from clematis.engine.snapshot import load_latest_snapshot, read_snapshot, write_snapshot_auto


def edge(src, dst, w):
    return {"src": src, "dst": dst, "rel": "coact", "weight": w, "updated_at": None, "attrs": {}}


def body(etag, w_ab):
    return {
        "schema_version": "v1",
        "version_etag": etag,
        "store": {},
        "gel": {
            "nodes": {"a": {"id": "a"}, "b": {"id": "b"}, "c": {"id": "c"}},
            "edges": {"a→b": edge("a", "b", w_ab), "b→c": edge("b", "c", 0.5)},
            "meta": {},
        },
    }


with tempfile.TemporaryDirectory() as d:
    base_path, _ = write_snapshot_auto(d, etag_from=None, etag_to="E1", payload=body("E1", 0.1))
    delta_path, wrote_delta = write_snapshot_auto(d, etag_from="E1", etag_to="E2", payload=body("E2", 0.9), delta_mode=True)
    assert wrote_delta
    # a sibling full snapshot for E2 exists as well (the documented fallback target)
    full2_path, _ = write_snapshot_auto(d, etag_from=None, etag_to="E2", payload=body("E2", 0.9))

    # the baseline gets truncated after its header line (torn copy / disk full)
    with open(base_path, "r", encoding="utf-8") as f:
        header_line = f.readline()
    with open(base_path, "w", encoding="utf-8") as f:
        f.write(header_line)

    # make the delta file the newest *.json so that the boot loader picks it
    now = time.time()
    os.utime(base_path, (now - 30, now - 30))
    os.utime(full2_path, (now - 20, now - 20))
    os.utime(delta_path, (now, now))

    # reference behaviour of the sibling reader: corrupt baseline == missing -> falls back to the full E2
    ref = read_snapshot(path=delta_path)
    assert ref == body("E2", 0.9), ref

    ctx = SimpleNamespace(agent_id="ag", cfg={"t4": {"snapshot_dir": d}})
    state = {}
    res = load_latest_snapshot(ctx, state)
    edges = sorted((state.get("graph") or {}).get("edges", {}))
    nodes = sorted((state.get("graph") or {}).get("nodes", {}))
    print("loader result:", res)
    print("loaded nodes:", nodes, "edges:", edges)

    ok_full = res.get("loaded") and nodes == ["a", "b", "c"] and edges == ["a→b", "b→c"]
    ok_absent = not res.get("loaded")
    if ok_full or ok_absent:
        print("OK: loader fell back to the full snapshot or reported absence")
        sys.exit(0)
    print("VIOLATION: loaded=True with a state rebuilt from the baseline's header line + the delta "
          "(expected nodes a,b,c and edges a→b,b→c or loaded=False)")
    sys.exit(1)
