"""Side observation (unchanged code): what is on disk after a failed commit depends on the staging limit.

Two agents with disjoint graphs; apply_changes fails for the second one (e.g. the snapshot
directory is not writable).  A sequential loop has by then written A's t1/t2/t4/apply lines and B's
t1/t2/t4 lines.  The batch driver has committed A to the state but flushes its staged records only
after the last commit and has no error path:
  * default staging limit: nothing at all reaches the disk (A is applied, its log lines are lost);
  * staging limit of 1 byte: every record but the last staged one was flushed by back-pressure.
So the outcome depends on the log-staging memory limit, and with the default limit it is not the
sequential one.

Exit 1 when the two limits leave different files behind / differ from the sequential run.
"""
import os
import sys
import tempfile
from types import SimpleNamespace as SNS

import clematis.io.paths as paths
import clematis.engine.util.io_logging as io_log
from clematis.engine import orchestrator as orch
from clematis.engine.orchestrator import Orchestrator
from clematis.io.log import append_jsonl

os.environ["CI"] = "true"
_real_enable = io_log.enable_staging


def stub(self, ctx, state, text):
    agent = ctx.agent_id
    for s in ("t1.jsonl", "t2.jsonl", "t4.jsonl"):
        append_jsonl(s, {"turn": ctx.turn_id, "agent": agent})
    if getattr(ctx, "_dry_run_until_t4", False):
        ctx._dryrun_t4 = SNS(approved_deltas=[])
        ctx._dryrun_utter = f"say:{agent}"
        ctx._dryrun_t1 = {"graphs_touched": []}
        ctx._dryrun_t2 = {}
        return SNS(line=f"say:{agent}", events=[])
    res = orch.apply_changes(ctx, state, SNS(approved_deltas=[]))
    append_jsonl("apply.jsonl", {"turn": ctx.turn_id, "agent": agent, "applied": res.applied, "clamps": 0,
                                 "version_etag": res.version_etag, "snapshot": None, "cache_invalidations": 0, "ms": 0.0})
    return SNS(line=f"say:{agent}", events=[])


def run(parallel, limit, d):
    paths.logs_dir = lambda: d
    calls = []

    def flaky_apply(ctx, state, t4):
        calls.append(1)
        if len(calls) == 2:
            raise OSError("snapshot directory not writable")
        state["version_etag"] = str(len(calls))
        return SNS(applied=0, clamps=0, version_etag=str(len(calls)), snapshot_path=None, metrics={})

    orch.apply_changes = flaky_apply
    orch.enable_staging = (lambda: _real_enable(byte_limit=limit)) if limit else _real_enable
    cfg = {"perf": {"enabled": True, "parallel": {"enabled": parallel, "agents": parallel, "max_workers": 4 if parallel else 1}}}
    ctx = SNS(cfg=cfg, turn_id=3)
    state = {"graphs_by_agent": {"A": ["GA"], "B": ["GB"]}}
    try:
        orch._run_agents_parallel_batch(ctx, state, [("A", "x"), ("B", "y")])
    except OSError:
        pass
    out = {}
    for n in sorted(os.listdir(d)):
        with open(os.path.join(d, n), encoding="utf-8") as f:
            out[n] = len(f.read().splitlines())
    return state.get("version_etag"), out


Orchestrator.run_turn = stub
with tempfile.TemporaryDirectory() as a, tempfile.TemporaryDirectory() as b, tempfile.TemporaryDirectory() as c:
    seq = run(False, None, a)
    big = run(True, None, b)
    tiny = run(True, 1, c)
print("sequential        : state version", seq[0], "lines", seq[1])
print("batch, 32 MiB cap : state version", big[0], "lines", big[1])
print("batch, 1 byte cap : state version", tiny[0], "lines", tiny[1])
sys.exit(1 if (big != tiny or big != seq) else 0)
