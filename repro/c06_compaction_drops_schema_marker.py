"""
Side observation (unchanged code): the offline compaction writer (scripts/mem_compact.py, a sibling of
snapshot._write_lines) writes snapshots without the schema marker.

write_snapshot_auto puts the frozen marker into the .meta sidecar (the caller's payload is written as is);
mem_compact rewrites every full snapshot into the output directory but writes no sidecar and adds no
schema_version, so every compacted snapshot is marker-less: get_latest_snapshot_info reports "v1" for the source
directory and "unknown" for the compacted one (no sidecar, no schema_version in the body).

exit 1 = violation shows, 0 = not.
"""
import importlib.util, os, sys, tempfile

from clematis.engine.snapshot import write_snapshot_auto, get_latest_snapshot_info, SCHEMA_VERSION

root = "/repo"
spec = importlib.util.spec_from_file_location("mem_compact", os.path.join(root, "scripts", "mem_compact.py"))
mc = importlib.util.module_from_spec(spec)
spec.loader.exec_module(mc)

src = tempfile.mkdtemp(prefix="c06_obs_src_")
dst = os.path.join(tempfile.mkdtemp(prefix="c06_obs_dst_"), "out")
payload = {"version_etag": "7", "store": {}, "gel": {"nodes": {}, "edges": {}, "meta": {}}}
write_snapshot_auto(src, etag_from=None, etag_to="7", payload=payload)

rc = mc.run(src, dst, None, "none", 3, False, False)
assert rc == 0

i_src, i_dst = get_latest_snapshot_info(src), get_latest_snapshot_info(dst)
print("source   :", sorted(os.listdir(src)), "schema =", i_src["schema_version"])
print("compacted:", sorted(os.listdir(dst)), "schema =", i_dst["schema_version"])
bad = i_src["schema_version"] == SCHEMA_VERSION and i_dst["schema_version"] != SCHEMA_VERSION
sys.exit(1 if bad else 0)
