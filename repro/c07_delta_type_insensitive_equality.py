"""Unchanged code: compute_delta compares leaves with Python `!=`, so a change between values that
are ==-equal but different JSON values (0 -> false, 1 -> true, 1 -> 1.0, 0.0 -> -0.0, [1] -> [true])
produces an empty delta and the reconstructed payload is not `curr` as JSON.  Exit 1 if shown."""
import json
import sys
import tempfile

from clematis.engine.snapshot import read_snapshot, write_snapshot_auto
from clematis.engine.util.snapshot_delta import apply_delta, compute_delta

pairs = [(0, False), (1, True), (1, 1.0), (0.0, -0.0), ([1], [True]), ({"k": [0]}, {"k": [False]})]
shown = []
for old, new in pairs:
    base, curr = {"applied": old}, {"applied": new}
    rebuilt = apply_delta(base, compute_delta(base, curr))
    if json.dumps(rebuilt, sort_keys=True) != json.dumps(curr, sort_keys=True):
        shown.append(f"codec: base={json.dumps(base)} curr={json.dumps(curr)} rebuilt={json.dumps(rebuilt)}")

with tempfile.TemporaryDirectory() as d:
    base, curr = {"flags": {"dirty": 0}}, {"flags": {"dirty": False}}
    write_snapshot_auto(d, etag_from=None, etag_to="e1", payload=base)
    p, wrote_delta = write_snapshot_auto(d, etag_from="e1", etag_to="e2", payload=curr, delta_mode=True)
    got = read_snapshot(path=p)
    if wrote_delta and json.dumps(got, sort_keys=True) != json.dumps(curr, sort_keys=True):
        shown.append(f"disk: wrote {json.dumps(curr)} read back {json.dumps(got)}")

for s in shown:
    print(s)
sys.exit(1 if shown else 0)
