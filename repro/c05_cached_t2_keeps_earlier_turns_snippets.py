#!/usr/bin/env python
"""
Side observation (unchanged checkout): a fresh T2 computation has a side effect that a cache hit skips -
it stashes the top snippets in ctx.turn_artifacts["t2_snippets"], which the reflection step reads when the T2 result
itself carries no snippet text. On a T2 stage-cache / turn-level hit nothing is stashed, so with a ctx object that is
reused across turns (the orchestrator supports that: it re-derives now_iso and clears the reflection result per turn)
the reflection of a turn that retrieved NOTHING is fed the snippets of an earlier turn. With caches off the fresh
computation overwrites the stash with [] and the reflection gets no snippets.

History (one ctx reused, kill switch off so that every turn applies):
  turn 1 "zzz"   -> retrieves nothing
  turn 2 "hello" -> retrieves the episode "hello"
  turn 3 "zzz"   -> retrieves nothing; cached T2 result
Compared: the reflection summary (what the reflection stage returns and would write to memory) of turn 3.
Exit 1 when caches-on and caches-off disagree, 0 otherwise.
"""
import os
import sys
import tempfile
from types import SimpleNamespace

sys.path.insert(0, "/repo")
os.environ["CLEMATIS_LOG_DIR"] = tempfile.mkdtemp(prefix="c05_logs_")
os.environ["CLEMATIS_SNAPSHOT_DIR"] = tempfile.mkdtemp(prefix="c05_snaps_")

from clematis.adapters.embeddings import BGEAdapter
from clematis.engine.orchestrator import Orchestrator
from clematis.engine.types import Config
from clematis.memory.index import InMemoryIndex


def run(caches_on: bool):
    cfg = Config()
    cfg.t1["cache"] = {"enabled": caches_on, "max_entries": 512, "ttl_s": 300}
    cfg.t2["cache"] = {"enabled": caches_on, "max_entries": 512, "ttl_s": 300}
    cfg.t4["cache"] = {"enabled": caches_on, "max_entries": 512, "ttl_sec": 600}
    cfg.t4["snapshot_dir"] = os.environ["CLEMATIS_SNAPSHOT_DIR"]
    cfg.t2["sim_threshold"] = 0.9
    cfg.t3["allow_reflection"] = True
    cfg.t3["reflection"] = {"backend": "rulebased", "topk_snippets": 3, "embed": False}
    cfg.scheduler = dict(getattr(cfg, "scheduler", {}) or {})
    cfg.scheduler.setdefault("budgets", {})
    cfg.scheduler["budgets"] = dict(cfg.scheduler["budgets"], ops_reflection=5)

    index = InMemoryIndex()
    vec = BGEAdapter(dim=32).encode(["hello"])[0].tolist()
    index.add({"id": "ep1", "owner": "A", "text": "hello", "ts": "2025-01-25T00:00:00Z", "vec_full": vec, "aux": {}})
    state = {"mem_index": index, "active_graphs": [], "_planner_reflection_flag": True}

    ctx = SimpleNamespace(agent_id="A", now="2025-02-01T00:00:00Z", now_ms=1738368000000, cfg=cfg, config=cfg)
    orch = Orchestrator()
    summaries = []
    for turn, text in enumerate(["zzz", "hello", "zzz"], start=1):
        ctx.turn_id = turn
        orch.run_turn(ctx, state, text)
        res = getattr(ctx, "_reflection_result", None)
        summaries.append((text, getattr(res, "summary", None)))
    return summaries


def main() -> int:
    on, off = run(True), run(False)
    print("caches on :", on)
    print("caches off:", off)
    if on != off:
        print("MISMATCH: reflection of turn 3 differs")
        return 1
    return 0


if __name__ == "__main__":
    sys.exit(main())
