"""Side observation (unchanged code): an agent that declares no graphs is picked twice for the same batch.

The batch [("A","one"), ("B","x"), ("A","two")]: A is missing from state["graphs_by_agent"] (or listed with []), so
its graph set is empty and trivially disjoint from every other set - including its own.  _select_independent_batch
returns ["A", "B", "A"], the "one task per picked agent" bookkeeping then lets both A tasks through, and both are
computed on the same pre-batch snapshot.  A compute phase whose proposal depends on the agent's own node (read-only
use of the snapshot, follows the dry-run contract) gives a different second result and a different final weight
than running the three turns one after another.

Contradicts: "yields the same per-agent results, the same final state ... as running those turns one after another"
(the graph sets are pairwise disjoint), and the intent of "agents whose graphs overlap an already selected agent are
never computed in the same batch" (an agent overlaps itself).
Exit 1 when the violation shows, 0 otherwise.
"""
import os
import sys
import tempfile
from types import SimpleNamespace as SNS

os.environ["CI"] = "true"
import clematis.io.paths as paths  # noqa: E402
from clematis.engine.orchestrator import Orchestrator, _run_agents_parallel_batch  # noqa: E402
from clematis.engine.apply import apply_changes  # noqa: E402
from clematis.engine.types import ProposedDelta  # noqa: E402
from clematis.io.log import append_jsonl  # noqa: E402

TMP = tempfile.mkdtemp(prefix="obs_c10_twice_")


class Store:
    def __init__(self):
        self.w = {}

    def apply_deltas(self, graph_id, deltas):
        for d in deltas:
            self.w[d.target_id] = self.w.get(d.target_id, 0.0) + float(d.delta)
        return {"edits": len(deltas), "clamps": 0}


def stub(self, ctx, state, text):
    agent, turn = ctx.agent_id, ctx.turn_id
    cur = state.get("store").w.get(f"n:{agent}", 0.0)
    delta = round((1.0 - cur) / 2, 6)  # move the agent's own node halfway to 1.0
    append_jsonl("t1.jsonl", {"turn": turn, "agent": agent, "text": text, "cur": cur})
    t4 = SNS(approved_deltas=[ProposedDelta(target_kind="node", target_id=f"n:{agent}", attr="weight", delta=delta)])
    line = f"{agent}:{text}:saw {cur}"
    if getattr(ctx, "_dry_run_until_t4", False):
        ctx._dryrun_t4, ctx._dryrun_utter, ctx._dryrun_t1, ctx._dryrun_t2 = t4, line, {}, {}
        return SNS(line=line, events=[])
    apply_changes(ctx, state, t4)
    return SNS(line=line, events=[])


Orchestrator.run_turn = stub
TASKS = [("A", "one"), ("B", "x"), ("A", "two")]


def run(tag, parallel):
    logs = os.path.join(TMP, tag)
    os.makedirs(logs)
    paths.logs_dir = lambda: logs
    t4 = {"enabled": True, "snapshot_every_n_turns": 1, "snapshot_dir": os.path.join(TMP, "snaps")}
    par = {"enabled": parallel, "agents": parallel, "max_workers": 4 if parallel else 1}
    cfg = {"perf": {"enabled": True, "parallel": par}, "t4": t4}
    ctx = SNS(cfg=cfg, config=SNS(t4=t4), turn_id=3)
    state = {"store": Store(), "version_etag": "0", "graphs_by_agent": {"B": ["g:B"]}}  # A declares nothing
    res = _run_agents_parallel_batch(ctx, state, list(TASKS))
    return [r.line for r in res], dict(state["store"].w)


par = run("par", True)
print("parallel batch:", par)
# the batch may leave A's second task to a later batch (as it does for any overlapping agent); it must not compute both
# tasks of A on the same pre-batch snapshot (second line 'saw 0.0', n:A pushed to 1.0)
bad = par[0].count("A:two:saw 0.0") > 0 or par[1].get("n:A") == 1.0
if bad:
    print("VIOLATION: both tasks of A were computed in one batch on the same snapshot")
sys.exit(1 if bad else 0)
