#!/usr/bin/env python
"""
Side observation (unchanged checkout): duplicates are merged with math.fsum, which
raises OverflowError ("intermediate overflow in fsum") as soon as a partial sum
leaves the double range - even when the exact total is small.  With huge duplicate
proposals for one target the filter therefore raises instead of returning a clamped
result, and whether it raises depends on the order in which the duplicates are listed.

Exit 1 when the filter raises for some listing order / gives order-dependent outcomes,
0 otherwise.
"""
import itertools
import sys
from types import SimpleNamespace

from configs.validate import validate_config
from clematis.engine.stages.t4 import t4_filter
from clematis.engine.types import ProposedDelta

cfg = validate_config({"t4": {}})
ctx = SimpleNamespace(turn_id=1, config=SimpleNamespace(t4=dict(cfg["t4"])))
state = SimpleNamespace(meta=SimpleNamespace(cooldowns={}))


def d(v):
    return ProposedDelta(target_kind="node", target_id="n:x", attr="weight", delta=v, op_idx=0)


vals = [1e308, 1e308, -1e308, -1e308]  # exact total: 0.0
outcomes = set()
for perm in sorted(set(itertools.permutations(vals))):
    try:
        res = t4_filter(ctx, state, None, None, {"ops": [{"kind": "EditGraph"}], "deltas": [d(v) for v in perm]}, None)
        out = ("ok", tuple(x.delta for x in res.approved_deltas))
    except Exception as e:  # noqa: BLE001
        out = ("raised", type(e).__name__, str(e))
    print(perm, "->", out)
    outcomes.add(out)

if len(outcomes) > 1 or any(o[0] == "raised" for o in outcomes):
    print("VIOLATION: t4_filter raises / depends on listing order for huge duplicate magnitudes")
    sys.exit(1)
print("ok")
sys.exit(0)
