"""Side observation (unchanged code): a Speak op with max_tokens=0 is not honoured by
speak()/llm_speak(): `getattr(speak_op, "max_tokens", None)` is falsy for 0, so the
budget silently falls back to the agent's caps.tokens and a non-empty utterance is
produced although the op's budget is 0 (max_tokens=-1 correctly yields "").
Function-level only: in run_turn the rule-based planner derives the op budget and
caps.tokens from the same t3.tokens setting, so both are 0 together.
Exit 1 when the violation shows, 0 otherwise.
"""
import sys
from types import SimpleNamespace as NS

from clematis.engine.types import Plan, SpeakOp
from clematis.engine.stages.t3.dialogue import speak, llm_speak

db = {
    "agent": {"style_prefix": "calm", "caps": {"tokens": 256, "ops": 3}},
    "text": {"labels_from_t1": ["a", "b"]},
    "dialogue": {"template": "summary: {labels}. next: {intent}"},
    "retrieved": [],
}
plan = Plan(
    version="t3-plan-v1",
    reflection=False,
    ops=[SpeakOp(kind="Speak", intent="ack", topic_labels=["a"], max_tokens=0)],
    request_retrieve=None,
)


class _Adapter:
    def generate(self, prompt, max_tokens, temperature):
        return NS(text="one two three four", tokens=4, truncated=False)


bad = []
u, m = speak(db, plan)
if len(u.split()) > 0:
    bad.append(f"speak: budget 0 but utterance {u!r} ({m['tokens']} tokens, truncated={m['truncated']})")
u, m = llm_speak(db, plan, _Adapter())
if len(u.split()) > 0:
    bad.append(f"llm_speak: budget 0 but utterance {u!r} ({m['tokens']} tokens, truncated={m['truncated']})")

if bad:
    print("VIOLATION: utterance exceeds the Speak op's token budget")
    for b in bad:
        print("  -", b)
    sys.exit(1)
sys.exit(0)
