#!/usr/bin/env python
"""Side observation (unchanged code): a cooldown history whose last-turn entry is a float (9.0, e.g. after a
round trip through a numeric store) or a numeric string is ignored: `isinstance(last_t, int)` fails, the op is not
blocked and its delta is approved although turn - last = 1 < cooldown = 2. The same history with 9 blocks it.
Contradicts: 'none originating from an operation still in cooldown' (over 'cooldown histories'). Exit 1 when shown."""
import sys
from types import SimpleNamespace as NS
from clematis.engine.stages.t4 import t4_filter
from clematis.engine.types import ProposedDelta as PD


def run(last):
    ctx = NS(turn_id=10, config=NS(t4={"delta_norm_cap_l2": 1.5, "novelty_cap_per_node": 0.3,
                                       "churn_cap_edges": 64, "cooldowns": {"EditGraph": 2}}))
    state = NS(meta=NS(cooldowns={"EditGraph": last}))
    res = t4_filter(ctx, state, None, None,
                    {"ops": [{"kind": "EditGraph"}], "deltas": [PD("node", "n:a", "weight", 0.2, op_idx=0)]}, None)
    return len(res.approved_deltas), [(r.kind, r.idx) for r in res.rejected_ops]


shown = False
for last in (9, 9.0, "9"):
    n, rej = run(last)
    print(f"last_turn={last!r}: approved={n} rejected_ops={rej}")
    if last != 9 and n > 0:
        shown = True
assert run(9)[0] == 0
sys.exit(1 if shown else 0)
