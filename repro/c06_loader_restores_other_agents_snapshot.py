"""Side observation (unchanged code): load_latest_snapshot ignores ctx.agent_id.

write_snapshot names the body state_<agent>.json, but discovery takes the newest state_*.json in the
shared snapshot_dir. With two agents sharing the (default, global) t4.snapshot_dir, a fresh state for agent A
is restored from agent B's snapshot: version, store weights and graph are B's, not what A wrote.

Exit 1 when the violation shows, 0 otherwise.
"""
from __future__ import annotations

import os
import sys
import tempfile
import time
from types import SimpleNamespace

from clematis.engine.snapshot import load_latest_snapshot, write_snapshot


class Store:
    def __init__(self):
        self.w = {}


def ctx_for(agent, d):
    return SimpleNamespace(turn_id=0, agent_id=agent, cfg={"t4": {"snapshot_dir": d}})


def state_for(tag, version, weight):
    s = Store()
    s.w[("node", f"n:{tag}", "weight")] = weight
    g = {"nodes": {tag: {"id": tag}}, "edges": {f"{tag}→z": {"src": tag, "dst": "z", "rel": "coact", "weight": weight}}, "meta": {}}
    return SimpleNamespace(store=s, version_etag=version, graph=g)


def main() -> int:
    with tempfile.TemporaryDirectory() as d:
        pa = write_snapshot(ctx_for("Alice", d), state_for("a", "11", 0.25), "11")
        # make B's file strictly newer regardless of filesystem timestamp granularity
        pb = write_snapshot(ctx_for("Bob", d), state_for("b", "22", 0.75), "22")
        now = time.time()
        os.utime(pa, (now - 10, now - 10))
        os.utime(pb, (now, now))

        fresh = SimpleNamespace(store=Store(), version_etag=None)
        info = load_latest_snapshot(ctx_for("Alice", d), fresh)
        print("Alice wrote:", pa)
        print("loader used:", info["path"], "version", fresh.version_etag)
        print("store:", fresh.store.w)
        print("edges:", list(fresh.graph["edges"]))
        wrong = info["path"] != pa or fresh.version_etag != "11" or ("node", "n:a", "weight") not in fresh.store.w
        if wrong:
            print("VIOLATION: Alice's fresh state was restored from another agent's snapshot")
            return 1
    return 0


if __name__ == "__main__":
    sys.exit(main())
