#!/usr/bin/env python
"""Side observation (unchanged checkout): the slice budgets t1_pops / t1_iters are applied per active
graph inside t1_propagate, while the stage reports (and the orchestrator compares) the SUM over graphs.
With two active graphs the slice does 2x the budgeted pops/layers, and because _should_yield compares
with ==, the overshoot also suppresses the BUDGET_T1_* yield at the T1 boundary.

Exit 1 when the violation shows, 0 otherwise.
"""
from __future__ import annotations

import sys

from clematis.engine.types import Config
from clematis.graph.store import InMemoryGraphStore, Node, Edge
from clematis.engine.stages.t1 import t1_propagate
from clematis.engine.orchestrator.core import _should_yield


def build_state(n_graphs: int):
    store = InMemoryGraphStore()
    gids = []
    for i in range(n_graphs):
        gid = f"g:{i}"
        store.ensure(gid)
        store.upsert_nodes(
            gid,
            [
                Node(id=f"n{i}:hello", label="hello"),
                Node(id=f"n{i}:world", label="world"),
                Node(id=f"n{i}:reply", label="reply"),
                Node(id=f"n{i}:deep", label="deep"),
            ],
        )
        store.upsert_edges(
            gid,
            [
                Edge(id=f"e{i}:1", src=f"n{i}:hello", dst=f"n{i}:world", weight=0.9, rel="supports"),
                Edge(id=f"e{i}:2", src=f"n{i}:world", dst=f"n{i}:reply", weight=0.9, rel="supports"),
                Edge(id=f"e{i}:3", src=f"n{i}:reply", dst=f"n{i}:deep", weight=0.9, rel="supports"),
            ],
        )
        gids.append(gid)
    return {"store": store, "active_graphs": gids}


def main() -> int:
    bad = []
    for n_graphs in (1, 2, 3):
        for budgets in ({"t1_pops": 1}, {"t1_pops": 2}, {"t1_iters": 1}):
            cfg = Config()
            cfg.t1["cache"] = {"max_entries": 0, "ttl_s": 0}
            state = build_state(n_graphs)
            ctx = type("Ctx", (), {"cfg": cfg, "turn_id": "t", "agent_id": "A"})()
            ctx.slice_budgets = dict(budgets, quantum_ms=20)
            r = t1_propagate(ctx, state, "hello")
            for key, metric in (("t1_pops", "pops"), ("t1_iters", "iters")):
                if key not in budgets:
                    continue
                used = int(r.metrics[metric])
                consumed = {"ms": 0, "t1_pops": int(r.metrics["pops"]), "t1_iters": int(r.metrics["iters"])}
                reason = _should_yield(
                    {"slice_idx": 1, "started_ms": 0, "budgets": ctx.slice_budgets, "agent_id": "A"}, consumed
                )
                if used > budgets[key]:
                    bad.append(
                        f"graphs={n_graphs} budget {key}={budgets[key]}: stage consumed {metric}={used} "
                        f"(> budget); _should_yield -> {reason!r}"
                    )
    if bad:
        print("slice budget exceeded by T1 (budget applied per graph, consumption summed):")
        for b in bad:
            print("  -", b)
        return 1
    print("T1 stays within slice budgets")
    return 0


if __name__ == "__main__":
    sys.exit(main())
