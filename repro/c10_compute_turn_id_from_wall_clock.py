"""Side observation (unchanged code): a batch context without turn_id is stamped with the wall clock in the parallel path.

The driver's own sequential loop uses getattr(ctx, "turn_id", 0); _run_turn_compute instead falls back to
int(time.time() * 1000) % 10_000_000 - separately for every agent.  The turn id goes into every log line, into the
staging key (turn first), into the commit order (_sort_turn_buffers sorts by it) and into the snapshot cadence
(turn % snapshot_every_n_turns).  With the clock patched so that the fallback wraps around between two computes
(9_999_999 -> 0, which happens every 2h47m of wall time) the later agent is committed and logged FIRST.

Contradicts: "the same per-agent results ... and the same on-disk log lines in the same order as running those turns
one after another".  Exit 1 when the violation shows, 0 otherwise.
"""
import json
import os
import sys
import tempfile
from types import SimpleNamespace as SNS

os.environ["CI"] = "true"
import clematis.io.paths as paths  # noqa: E402
import clematis.engine.orchestrator.parallel as par_mod  # noqa: E402
from clematis.engine.orchestrator import Orchestrator, _run_agents_parallel_batch  # noqa: E402
from clematis.engine.apply import apply_changes  # noqa: E402
from clematis.engine.types import ProposedDelta  # noqa: E402
from clematis.io.log import append_jsonl  # noqa: E402

TMP = tempfile.mkdtemp(prefix="obs_c10_turnid_")


class Store:
    def __init__(self):
        self.history = []

    def apply_deltas(self, graph_id, deltas):
        self.history.extend(d.target_id for d in deltas)
        return {"edits": len(deltas), "clamps": 0}


def stub(self, ctx, state, text):
    agent, turn = ctx.agent_id, getattr(ctx, "turn_id", None)
    append_jsonl("t1.jsonl", {"turn": turn, "agent": agent})
    t4 = SNS(approved_deltas=[ProposedDelta(target_kind="node", target_id=f"n:{agent}", attr="weight", delta=0.25)])
    if getattr(ctx, "_dry_run_until_t4", False):
        ctx._dryrun_t4, ctx._dryrun_utter, ctx._dryrun_t1, ctx._dryrun_t2 = t4, agent, {}, {}
        return SNS(line=agent, events=[])
    apply_changes(ctx, state, t4)
    return SNS(line=agent, events=[])


Orchestrator.run_turn = stub


class _Clock:
    """time.time() replacement for the driver module only: 9999.999 s, then 10000.000 s, ..."""

    def __init__(self):
        self.n = 0

    def time(self):
        self.n += 1
        return 9999.999 + 0.001 * (self.n - 1)

    def __getattr__(self, name):
        import time as _t

        return getattr(_t, name)


def run(tag, parallel):
    logs = os.path.join(TMP, tag)
    os.makedirs(logs)
    paths.logs_dir = lambda: logs
    t4 = {"enabled": True, "snapshot_every_n_turns": 1, "snapshot_dir": os.path.join(TMP, "snaps")}
    par = {"enabled": parallel, "agents": parallel, "max_workers": 4 if parallel else 1}
    cfg = {"perf": {"enabled": True, "parallel": par}, "t4": t4}
    ctx = SNS(cfg=cfg, config=SNS(t4=t4))  # no turn_id
    state = {"store": Store(), "version_etag": "0", "graphs_by_agent": {"A": ["g:A"], "B": ["g:B"]}}
    par_mod.time = _Clock()
    res = _run_agents_parallel_batch(ctx, state, [("A", "x"), ("B", "y")])
    t1 = [json.loads(x) for x in open(os.path.join(logs, "t1.jsonl"))]
    return {"results": [r.line for r in res], "commit order": state["store"].history, "t1.jsonl": [(r["agent"], r["turn"]) for r in t1]}


seq = run("seq", False)
par = run("par", True)
print("sequential:", seq)
print("parallel  :", par)
if seq != par:
    print("VIOLATION: turn ids / order differ between the sequential loop and the parallel path")
    sys.exit(1)
sys.exit(0)
