"""Side observation (unchanged code): t1_frontier_evicted does not count the evictions done while seeding.

With perf caps on and caps.frontier=1, three seeds are pushed; the 2nd and the 3rd push each evict one
heap entry (2 evictions, only 1 of the 3 seeds is ever popped), but the seeding loop *assigns*
local_t1_frontier_evicted instead of accumulating it, so the reported counter is 1.
Exit 1 when the counter disagrees with the work done, 0 otherwise.
"""
import sys

from clematis.engine.types import Config
from clematis.graph.store import InMemoryGraphStore, Node
from clematis.engine.stages.t1 import t1_propagate

cfg = Config()
cfg.t1["cache"] = {"enabled": False}
cfg.perf = {
    "enabled": True,
    "metrics": {"report_memory": True},
    "t1": {"caps": {"frontier": 1}},
}
store = InMemoryGraphStore()
gid = "g:frontier"
store.ensure(gid)
store.upsert_nodes(
    gid,
    [Node(id="n:a", label="alpha"), Node(id="n:b", label="beta"), Node(id="n:c", label="gamma")],
)
state = {"store": store, "active_graphs": [gid]}
ctx = type("Ctx", (), {"cfg": cfg, "turn_id": "t", "agent_id": "A"})()

r = t1_propagate(ctx, state, "alpha beta gamma")
pushed = 3  # three seeds, no edges: nothing else is ever pushed
popped = r.metrics["pops"]
evicted_actual = pushed - popped  # every pushed entry is either popped or evicted (budget is loose)
reported = r.metrics["t1_frontier_evicted"]
print("pops:", popped, "evicted (actual):", evicted_actual, "t1_frontier_evicted (reported):", reported)
if reported != evicted_actual:
    print("VIOLATION: eviction counter does not match the work done")
    sys.exit(1)
sys.exit(0)
