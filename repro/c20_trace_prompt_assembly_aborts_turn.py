#!/usr/bin/env python
"""
Side observation (unchanged checkout): run_turn builds the LLM prompt (build_llm_prompt) on every turn, although
with the rule-based backend the prompt has exactly one consumer: it is the argument of the T3 trace
(emit_trace, an optional tracing layer, gated off here - and never emitted anyway, the dialog bundle carries no
"cfg"). The prompt construction sits outside every guard. A chat-history entry in a shape the rule-based speaker
never looks at (a plain "role: text" string instead of {"role","text"}) makes it raise, and the rule-based turn -
which needs neither the prompt nor the history - is aborted after t1/t2 were logged: no t4/apply/turn records.

Contradicts: "A failure inside ... rerank/quality/tracing layers ... never aborts a turn. The turn still returns
a result and emits its canonical T1/T2/T4/apply/turn records" (the failing code is the trace's input assembly).

Exit 1 when the violation shows, 0 otherwise.
"""
from __future__ import annotations

import sys
import tempfile
import traceback


# ---- world helpers (real stages, no stubs) ------------------------------------------------------------
import json
import os
from types import SimpleNamespace as SNS

import clematis.engine.orchestrator as orch
import clematis.engine.stages.t1 as _t1mod
import clematis.engine.stages.t2.cache as _t2cache
from clematis.adapters.embeddings import BGEAdapter
from clematis.engine.types import Edge, Node
from clematis.graph.store import InMemoryGraphStore
from clematis.memory.index import InMemoryIndex
from configs.validate import validate_config

CANON = ("t1.jsonl", "t2.jsonl", "t4.jsonl", "apply.jsonl", "turn.jsonl")


class AD(dict):
    def __getattr__(self, name):
        try:
            return self[name]
        except KeyError as exc:
            raise AttributeError(name) from exc

    def __setattr__(self, name, value):
        self[name] = value


def to_ad(obj):
    if isinstance(obj, dict):
        return AD({k: to_ad(v) for k, v in obj.items()})
    if isinstance(obj, list):
        return [to_ad(v) for v in obj]
    return obj


def make_cfg(workdir, **over):
    raw = validate_config({})
    raw["t4"]["snapshot_dir"] = os.path.join(workdir, "snaps")
    for dotted, val in over.items():
        cur = raw
        parts = dotted.split(".")
        for p in parts[:-1]:
            cur = cur.setdefault(p, {})
        cur[parts[-1]] = val
    return to_ad(raw)


def make_state(cfg, with_index=True):
    store = InMemoryGraphStore()
    store.upsert_nodes("g:surface", [Node(id="n:a", label="apple"), Node(id="n:b", label="banana")])
    store.upsert_edges("g:surface", [Edge(id="e1", src="n:a", dst="n:b", weight=0.5, rel="associates")])
    state = {"version_etag": "0", "store": store, "active_graphs": ["g:surface"]}
    if with_index:
        idx = InMemoryIndex()
        enc = BGEAdapter(dim=int(cfg.get("k_surface", 32)))
        texts = ["apple pie recipe", "banana split dessert", "apple banana smoothie", "green apple", "yellow banana"]
        for i, t in enumerate(texts):
            idx.add({"id": f"ep{i}", "owner": "A", "text": t, "ts": "1970-01-01T00:00:00Z",
                     "vec_full": enc.encode([t])[0].tolist()})
        state["mem_index"] = idx
    return state


def reset_process_caches():
    """T1 / T2 keep process-global stage caches: start every compared run from the same (empty) ones."""
    _t1mod._T1_CACHE = None
    _t1mod._T1_CACHE_CFG = None
    _t2cache._T2_CACHE = None
    _t2cache._T2_CACHE_CFG = None


def run_turns(cfg, state, texts, agent="A"):
    records = []

    def capture(name, payload):
        records.append((name, json.loads(json.dumps(payload, default=str))))

    orch.append_jsonl = capture
    results = []
    for i, text in enumerate(texts, start=1):
        ctx = SNS(turn_id=i, agent_id=agent, now=None, now_ms=1000 * i, cfg=cfg, config=cfg)
        results.append(orch.run_turn(ctx, state, text))
    return results, records


def canonical(records):
    out = []
    for name, rec in records:
        if name not in CANON:
            continue
        rec = dict(rec)
        rec.pop("ms", None)
        rec.pop("durations_ms", None)
        if isinstance(rec.get("snapshot"), str):
            rec["snapshot"] = os.path.basename(rec["snapshot"])
        out.append((name, rec))
    return out


def diff_fields(a, b):
    out = []
    for (na, ra), (nb, rb) in zip(a, b):
        if ra != rb:
            out.append((na, {k: (ra.get(k), rb.get(k)) for k in set(ra) | set(rb) if ra.get(k) != rb.get(k)}))
    return out


W = sys.modules[__name__]

# ---- the observation --------------------------------------------------------------------------------
def attempt(history):
    W.reset_process_caches()
    workdir = tempfile.mkdtemp(prefix="c20_hist_")
    cfg = W.make_cfg(workdir)  # defaults: t3.backend rulebased, perf/metrics off => T3 trace gated off
    state = W.make_state(cfg)
    if history is not None:
        state["_chat_history"] = history
    try:
        results, records = W.run_turns(cfg, state, ["apple pie"])
        return results[0].line, [n for n, _ in records], None
    except Exception:
        return None, None, traceback.format_exc()


def main() -> int:
    line_ref, names_ref, err_ref = attempt([{"role": "user", "text": "hello there"}])
    print("history of dicts   :", line_ref, names_ref, "ERR" if err_ref else "")
    line, names, err = attempt(["user: hello there"])
    if err:
        print("history of strings : ABORTED\n" + "\n".join(err.splitlines()[-6:]))
        if "build_llm_prompt" in err:
            print("\nVIOLATION: the trace layer's prompt assembly aborted a rule-based turn that does not use it.")
            return 1
        return 0
    print("history of strings :", line, names)
    return 0


if __name__ == "__main__":
    sys.exit(main())
