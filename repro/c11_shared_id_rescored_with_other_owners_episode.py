#!/usr/bin/env python
"""
Side observation (unchanged code): under owner_scope "any" two owners may each hold an episode with the same id
("ep1" of agent A, "ep1" of agent B).  The index returns ONE hit for that id - the better scoring row, here A's
(EpisodeRef.owner == "A") - but T2's rescoring looks the id up in a map built over all rows where the LAST row
wins, so A's hit is given the timestamp / importance of B's episode.  The final order then contradicts the
documented combined score (alpha*cos_norm + beta*recency + gamma*importance, id tie-break) of the episodes that
were actually returned.  (Fix b9dc95f closed this for owner_scope "agent" only.)  The same happens inside one
owner when an id was added twice: the text/score come from the best-scoring row, recency from the last row.

Exit 1 when the violation shows, 0 otherwise.
"""
import sys
import datetime as dt
from types import SimpleNamespace
import numpy as np
from clematis.engine.stages.t2 import t2_semantic
from clematis.memory.index import InMemoryIndex

NOW = "2025-09-01T00:00:00Z"
Q = np.array([1.0, 0.0, 0.0, 0.0], dtype=np.float32)


class Enc:
    dim = 4

    def encode(self, texts):
        return [Q.copy() for _ in texts]


def unit(x):
    return np.array([x, float(np.sqrt(1 - x * x)), 0.0, 0.0], dtype=np.float32)


ROWS = [
    # owner, id, cos, ts, importance
    ("A", "ep1", 1.00, "2025-08-31T00:00:00Z", 0.5),   # returned hit for id ep1 (best score)
    ("A", "ep2", 0.98, "2025-05-24T00:00:00Z", 0.5),   # 100 days old
    ("B", "ep1", 0.20, "2024-11-05T00:00:00Z", 0.5),   # other owner's episode with the same id, 300 days old
]


def main():
    idx = InMemoryIndex()
    for owner, eid, cos, ts, imp in ROWS:
        idx.add({"id": eid, "owner": owner, "text": f"{owner}/{eid}", "ts": ts, "vec_full": unit(cos),
                 "aux": {"importance": imp}})
    a, b, g = 0.75, 0.2, 0.05
    cfg = {"k_surface": 4, "t2": {"backend": "inmemory", "k_retrieval": 10, "sim_threshold": 0.5,
                                  "tiers": ["archive"], "owner_scope": "any", "cache": {"enabled": False},
                                  "ranking": {"alpha_sim": a, "beta_recency": b, "gamma_importance": g}}}
    ctx = SimpleNamespace(cfg=cfg, now=NOW, agent_id="A", enc=Enc())
    res = t2_semantic(ctx, {"mem_index": idx}, "q", SimpleNamespace(graph_deltas=[]))
    now = dt.datetime(2025, 9, 1, tzinfo=dt.timezone.utc)
    by_owner_id = {(r[0], r[1]): r for r in ROWS}

    def combined(h):
        _, _, _, ts, imp = by_owner_id[(h.owner, h.id)]       # the episode the hit stands for
        age = (now - dt.datetime.fromisoformat(ts.replace("Z", "+00:00"))).total_seconds() / 86400.0
        rec = max(0.0, min(1.0, 1.0 - age / 365.0))
        return a * ((h.score + 1.0) / 2.0) + b * rec + g * imp

    got = [(h.owner, h.id, round(h.score, 4), round(combined(h), 4)) for h in res.retrieved]
    print("returned (owner, id, cos, documented combined):", got)
    want = sorted(res.retrieved, key=lambda h: (-combined(h), h.id))
    if [h.id for h in want] != [h.id for h in res.retrieved]:
        print("VIOLATION: order", [h.id for h in res.retrieved], "but the documented combined score gives",
              [h.id for h in want])
        return 1
    return 0


if __name__ == "__main__":
    sys.exit(main())
