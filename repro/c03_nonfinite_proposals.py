#!/usr/bin/env python
"""Side observation (unchanged code): non-finite magnitudes (the limit of 'huge').
 a) +inf and -inf proposed for the same target: t4_filter raises (ValueError from fsum) instead of a result;
    1e308, 1e308, -inf raises OverflowError out of the Fraction fallback.
 b) one NaN proposal: every approved delta becomes NaN (scale = cap / NaN), so no magnitude/norm bound holds
    and the other targets' values are destroyed.
Contradicts: 'for every plan the meta-filter approves ... each with magnitude at most the novelty cap, with overall L2
norm at most the norm cap'. Exit 1 when shown."""
import sys
from math import inf, nan
from types import SimpleNamespace as NS
from clematis.engine.stages.t4 import t4_filter
from clematis.engine.types import ProposedDelta as PD


def run(ds):
    ctx = NS(turn_id=1, config=NS(t4={"delta_norm_cap_l2": 1.5, "novelty_cap_per_node": 0.3,
                                      "churn_cap_edges": 64, "cooldowns": {}}))
    return t4_filter(ctx, NS(meta=NS(cooldowns={})), None, None, {"ops": [], "deltas": ds}, None)


shown = False
for name, ds in [
    ("inf,-inf same target", [PD("node", "n:a", "weight", inf), PD("node", "n:a", "weight", -inf)]),
    ("1e308,1e308,-inf same target", [PD("node", "n:a", "weight", 1e308), PD("node", "n:a", "weight", 1e308),
                                      PD("node", "n:a", "weight", -inf)]),
    ("one NaN among finite", [PD("node", "n:a", "weight", nan), PD("node", "n:b", "weight", 0.1),
                              PD("node", "n:c", "weight", -0.2)]),
]:
    try:
        res = run(ds)
    except Exception as e:  # noqa: BLE001
        print(f"{name}: raised {type(e).__name__}: {e}")
        shown = True
        continue
    vals = [(d.target_id, d.delta) for d in res.approved_deltas]
    ok = all(abs(v) <= 0.3 for _, v in vals)
    print(f"{name}: approved={vals} within novelty cap={ok}")
    shown |= not ok
sys.exit(1 if shown else 0)
