#!/usr/bin/env python
"""Side observation (unchanged code): apply_changes guards the store's apply_deltas calls, but on a snapshot
turn it reads the store a second time (write_snapshot -> _export_store_for_snapshot) without any guard
around what comes back. A store fault on that read - the `w` weight view raising, a weight that is not a
number, or export_state() returning something json cannot encode - propagates out of apply_changes and out
of Orchestrator.run_turn: the turn is aborted AFTER the deltas were applied and the version was bumped, with
no apply/turn record and no snapshot. On non-cadence turns the very same store commits fine.

Contradicts: "errors inside the store never abort the turn" (needs: store fault + a turn on the snapshot cadence).

Exit 1 when the violation shows, 0 otherwise.
"""
from __future__ import annotations

import os
import sys
import tempfile
from types import SimpleNamespace

import clematis.engine.orchestrator as orch
from clematis.engine.orchestrator import core
from clematis.engine.types import ProposedDelta, T4Result


class WStore:
    def __init__(self):
        self._w = {}

    @property
    def w(self):
        return self._w

    def apply_deltas(self, gid, deltas):
        for d in deltas:
            k = (d.target_kind, d.target_id, d.attr)
            self._w[k] = self._w.get(k, 0.0) + float(d.delta)
        return {"edits": len(deltas), "clamps": 0}


class WeightViewRaises(WStore):
    """The weight view is served by a backend that is down."""

    @property
    def w(self):
        raise RuntimeError("store backend unavailable")


class ExportNotEncodable(WStore):
    def export_state(self):
        return {"touched": {k[1] for k in self._w}}  # a set


class WeightNotANumber(WStore):
    def apply_deltas(self, gid, deltas):
        r = super().apply_deltas(gid, deltas)
        self._w[("node", "n:tombstone", "weight")] = None
        return r


def main() -> int:
    os.environ.setdefault("CLEMATIS_LOG_DIR", tempfile.mkdtemp(prefix="c04_obs_logs_"))
    logs = []
    orch.append_jsonl = lambda name, payload: logs.append((name, payload))
    orch.t1_propagate = lambda ctx, state, text: SimpleNamespace(metrics={}, graph_deltas=[])
    orch.t2_semantic = lambda ctx, state, text, t1: SimpleNamespace(metrics={}, retrieved=[])
    orch.t3_deliberate = lambda ctx, state, bundle: SimpleNamespace(version="v", ops=[], deltas=[], reflection=False)
    orch.t3_dialogue = lambda b, p: "OK"
    saved = core.t4_filter
    core.t4_filter = lambda ctx, state, t1, t2, plan, utter: T4Result(
        approved_deltas=[ProposedDelta("node", "n:a", "weight", 0.1, 0)], rejected_ops=[], reasons=[], metrics={}
    )
    aborted = []
    try:
        for cls in (WeightViewRaises, ExportNotEncodable, WeightNotANumber):
            snap = tempfile.mkdtemp(prefix="c04_obs_exp_")
            state = {"version_etag": "0", "store": cls(), "_boot_loaded": True}
            for turn in (1, 2, 3, 4):  # cadence 2: turns 2 and 4 snapshot
                ctx = SimpleNamespace(
                    turn_id=turn,
                    agent_id="A",
                    config=SimpleNamespace(
                        t4={"enabled": True, "snapshot_every_n_turns": 2, "snapshot_dir": snap, "cache_bust_mode": "none"}
                    ),
                )
                logs.clear()
                before = state["version_etag"]
                try:
                    orch.run_turn(ctx, state, "hi")
                    outcome = "committed"
                except Exception as exc:  # noqa: BLE001
                    outcome = f"ABORTED by {type(exc).__name__}: {exc}"
                    aborted.append((cls.__name__, turn))
                recs = [n for n, _ in logs if n in ("apply.jsonl", "turn.jsonl")]
                print(f"{cls.__name__:20s} turn {turn}: {outcome}; version {before!r}->{state['version_etag']!r}; records {recs}")
    finally:
        core.t4_filter = saved

    if aborted:
        print(f"VIOLATION: store faults aborted {len(aborted)} turns: {aborted}")
        return 1
    print("no violation")
    return 0


if __name__ == "__main__":
    sys.exit(main())
