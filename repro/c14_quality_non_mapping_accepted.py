#!/usr/bin/env python3
"""C14 side observation (unchanged code): a non-mapping `perf` section is rejected since 1e37387, its sibling
`t2.quality` is not: `t2: {quality: "on"}` (also 5, [1], true) skips the whole quality normalisation and stays in the
normalised configuration verbatim, i.e. an accepted configuration whose t2.quality is not the documented mapping.
The plain CLI summary then calls .get on it: `clematis validate cfg.yaml` dies with AttributeError (exit 1, the code of
"invalid"), while validate_config / validate_config_api / `clematis validate --json` accept the same document (exit 0).
Exit 1 = violation shown; exit 0 otherwise."""
import os
import subprocess
import sys
import tempfile

ROOT = "/repo"
sys.path.insert(0, ROOT)
from configs.validate import validate_config_api

ok, errs, norm = validate_config_api({"t2": {"quality": "on"}})
print("API:", "accepted" if ok else f"rejected {errs}", "| normalised t2.quality =", repr(norm["t2"]["quality"]) if ok else None)
env = dict(os.environ, PYTHONPATH=ROOT)
rc = {}
with tempfile.TemporaryDirectory() as td:
    p = os.path.join(td, "cfg.yaml")
    with open(p, "w", encoding="utf-8") as f:
        f.write('t2:\n  quality: "on"\n')
    for mode in ([], ["--json"]):
        pr = subprocess.run(
            [sys.executable, "-m", "clematis", "validate", *mode, p], cwd=ROOT, env=env, capture_output=True, text=True
        )
        rc[" ".join(mode) or "plain"] = (pr.returncode, (pr.stderr.strip().splitlines() or [""])[-1][:90])
print("CLI:", rc)
sys.exit(1 if (ok and not isinstance(norm["t2"]["quality"], dict) and rc["plain"][0] != rc["--json"][0]) else 0)
