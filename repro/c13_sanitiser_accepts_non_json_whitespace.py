#!/usr/bin/env python
"""Side observation (unchanged code): parse_and_validate trims the planner text with str.strip(),
which removes every Unicode whitespace character, while JSON allows only space, \\t, \\n, \\r around
a value.  Text that is NOT a JSON document (json.loads rejects it as it stands) is therefore accepted
as a plan: e.g. a no-break space, an ideographic space U+3000, a form feed or \\x1c before/after the
object.

Clause: "Planner text from an LLM is accepted only if it is a single JSON object" (docstring of the
sanitiser: "Input must be either pure JSON or a single fenced JSON block. Reject any extra
prose/prefix/suffix").
Exit 1 when the violation shows, 0 otherwise.
"""
import json
import os
import sys

sys.path.insert(0, "/repo")

from clematis.engine.policy.sanitize import parse_and_validate  # noqa: E402
from clematis.engine.policy.json_schemas import PLANNER_V1  # noqa: E402

OBJ = '{"plan":["water the ferns"],"rationale":"ok"}'
bad = []
for name, pad in [("NBSP", "\u00a0"), ("U+3000", "\u3000"), ("form feed", "\x0c"), ("\\x1c", "\x1c"), ("U+2028", "\u2028"), ("NEL", "\x85")]:
    for text in (pad + OBJ, OBJ + pad, "```json\n" + pad + OBJ + pad + "\n```"):
        try:
            json.loads(text)
            is_json = True
        except ValueError:
            is_json = False
        ok, out = parse_and_validate(text, PLANNER_V1)
        if ok and not is_json:
            bad.append((name, text[:24]))
            print(f"accepted although not JSON: pad={name:9s} text={text[:30]!r}")
# control: ordinary prose prefix is rejected
assert parse_and_validate("x" + OBJ, PLANNER_V1)[0] is False
if bad:
    print(f"VIOLATION: {len(bad)} non-JSON texts were accepted as plans")
    sys.exit(1)
print("no violation")
sys.exit(0)
