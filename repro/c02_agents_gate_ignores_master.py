#!/usr/bin/env python
"""Side observation (UNCHANGED code): the agent-level parallel driver ignores the perf master switch.

perf.enabled = false, perf.parallel = {enabled: true, agents: true, max_workers: 2}: the validator warns
"agent-level driver remains disabled (identity path)", but _agents_parallel_enabled() never looks at
perf.enabled, so _run_agents_parallel_batch takes the compute-then-commit path.  Compared with the same
run whose configuration omits the perf subtree, logs / state differ.

exit 1 when the violation shows, 0 otherwise.
"""
from __future__ import annotations

import json
import os
import shutil
import sys
import tempfile
from types import SimpleNamespace

os.environ["CI"] = "true"
os.environ.setdefault("CLEMATIS_NETWORK_BAN", "1")

from configs.validate import validate_config
from clematis.adapters.embeddings import BGEAdapter
from clematis.engine.orchestrator import _run_agents_parallel_batch
from clematis.engine.stages import t1 as t1_mod
from clematis.engine.stages.t2 import cache as t2_cache_mod
from clematis.graph.store import InMemoryGraphStore, Node, Edge
from clematis.memory.index import InMemoryIndex


class AttrDict(dict):
    def __getattr__(self, name):
        try:
            return self[name]
        except KeyError as e:
            raise AttributeError(name) from e


def to_attr(o):
    if isinstance(o, dict):
        return AttrDict({k: to_attr(v) for k, v in o.items()})
    if isinstance(o, list):
        return [to_attr(v) for v in o]
    return o


def world():
    store = InMemoryGraphStore()
    for gid, a, b in (("g:a", "hello", "world"), ("g:b", "apple", "banana")):
        store.upsert_nodes(gid, [Node(id=f"n:{a}", label=a), Node(id=f"n:{b}", label=b)])
        store.upsert_edges(gid, [Edge(id=f"e:{a}->{b}", src=f"n:{a}", dst=f"n:{b}", weight=0.8, rel="supports")])
    enc = BGEAdapter(dim=32)
    idx = InMemoryIndex()
    for eid, text in (("ep1", "hello world"), ("ep2", "apple banana"), ("ep3", "cherry")):
        idx.add({"id": eid, "owner": "any", "text": text, "ts": "2026-01-09T00:00:00+00:00",
                 "vec_full": enc.encode([text])[0], "aux": {}})
    return {"store": store, "active_graphs": ["g:a", "g:b"], "mem_index": idx, "version_etag": "0",
            "graphs_by_agent": {"A": ["g:a"], "B": ["g:b"]}}


def norm_logs(log_dir):
    out = {}
    for name in sorted(os.listdir(log_dir)):
        rows = []
        for ln in open(os.path.join(log_dir, name), encoding="utf-8"):
            ln = ln.strip()
            if not ln:
                continue
            rec = json.loads(ln)

            def scrub(o):
                if isinstance(o, dict):
                    return {k: (0 if (k == "ms" or k.endswith("_ms") or k.startswith("ms_") or k == "durations_ms") else scrub(v))
                            for k, v in o.items() if k != "snapshot"}
                if isinstance(o, list):
                    return [scrub(x) for x in o]
                return o

            rows.append(scrub(rec))
        out[name] = rows
    return out


def run(raw, tmp, tag):
    log_dir = os.path.join(tmp, "logs" + tag)
    os.makedirs(log_dir)
    os.environ["CLEMATIS_LOG_DIR"] = log_dir
    t1_mod._T1_CACHE = None
    t2_cache_mod._T2_CACHE = None
    raw = dict(raw)
    raw["t4"] = {"snapshot_dir": os.path.join(tmp, "snap" + tag)}
    cfg = to_attr(validate_config(raw))
    state = world()
    lines = []
    for turn in (1, 2):
        ctx = SimpleNamespace(turn_id=turn, agent_id="driver", now="2026-01-10T00:00:00+00:00",
                              now_ms=1767996000000, cfg=cfg, config=cfg)
        try:
            res = _run_agents_parallel_batch(ctx, state, [("A", "hello world"), ("B", "apple banana")])
            lines.append([r.line for r in res])
        except Exception as exc:  # the compute-then-commit path cannot even run the real turn on a dict state
            lines.append(f"RAISED {type(exc).__name__}: {exc}")
    return {"lines": lines, "version_etag": state.get("version_etag"), "logs": norm_logs(log_dir)}


def main():
    tmp = tempfile.mkdtemp(prefix="obs_C02_agents_")
    try:
        base = {"t2": {"k_retrieval": 4, "sim_threshold": -1.0}}
        with_perf = dict(base)
        with_perf["perf"] = {"enabled": False, "parallel": {"enabled": True, "agents": True, "max_workers": 2}}
        a = run(with_perf, tmp, "A")
        b = run(base, tmp, "B")
        diffs = []
        if a["lines"] != b["lines"]:
            diffs.append(f"utterances: {a['lines']} vs {b['lines']}")
        if a["version_etag"] != b["version_etag"]:
            diffs.append(f"state.version_etag: {a['version_etag']} vs {b['version_etag']}")
        if sorted(a["logs"]) != sorted(b["logs"]):
            diffs.append(f"log files: {sorted(a['logs'])} vs {sorted(b['logs'])}")
        for name in sorted(set(a["logs"]) & set(b["logs"])):
            if a["logs"][name] != b["logs"][name]:
                diffs.append(f"{name}:\n    perf master off + parallel.agents on: {a['logs'][name][:2]}\n    perf omitted                        : {b['logs'][name][:2]}")
        if diffs:
            print("VIOLATION (perf.enabled=false, yet perf.parallel.* changed the run):")
            for d in diffs:
                print(" -", d)
            return 1
        print("no difference observed")
        return 0
    finally:
        shutil.rmtree(tmp, ignore_errors=True)


if __name__ == "__main__":
    sys.exit(main())
