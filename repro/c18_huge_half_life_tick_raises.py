"""Side observation (unchanged code): the validator coerces graph.decay.half_life_turns with int() and only asks
for >= 1, so an integer beyond the float range (10**400, e.g. meant as "never decay") is accepted. tick() then fails
in float(half_life) with OverflowError before it looks at any edge; the orchestrator swallows GEL exceptions, so in a
running engine no tick ever removes the edges that lie below the configured floor.
Clause contradicted: a tick "removes exactly the edges that fall below the floor" for a configuration the validator
accepts (an edge of weight 0.02 stays for ever under floor 0.05).
Exit 1 when the violation shows, 0 otherwise."""
import sys
from configs.validate import validate_config
from clematis.engine.gel import observe_retrieval, tick


class S:
    pass


try:
    cfg = validate_config({"graph": {"enabled": True, "update": {"alpha": 0.02},
                                     "decay": {"half_life_turns": 10 ** 400, "floor": 0.05}}})
except Exception as e:
    print("validator rejected:", e)
    sys.exit(0)
ctx = {"graph": cfg["graph"]}
s = S()
observe_retrieval(ctx, s, [("a", 0.9), ("b", 0.8)], turn=1)
try:
    tick(ctx, s, decay_dt=1, turn=1)
    raised = None
except Exception as e:  # what core.py does: swallow and go on
    raised = e
left = {k: r["weight"] for k, r in s.graph["edges"].items()}
print("tick raised:", repr(raised), "| edges left:", left, "| floor:", cfg["graph"]["decay"]["floor"])
if any(abs(w) < cfg["graph"]["decay"]["floor"] for w in left.values()):
    print("VIOLATION: an edge below the floor survives the tick")
    sys.exit(1)
sys.exit(0)
