"""Unchanged code: a baseline full file truncated after its header line (body lost) is still "found";
_read_header_payload then falls back to single-JSON parsing and hands the HEADER back as the payload,
so the reader applies the delta onto the header fields and returns a wrongly reconstructed state
(even though a full snapshot for the same etag sits next to it).  Exit 1 if shown."""
import os
import sys
import tempfile

from clematis.engine.snapshot import read_snapshot, write_snapshot_auto

with tempfile.TemporaryDirectory() as d:
    base, curr = {"a": 1, "b": {"c": 2}}, {"a": 2, "b": {"c": 2}}
    write_snapshot_auto(d, etag_from=None, etag_to="e1", payload=base)
    p, wrote_delta = write_snapshot_auto(d, etag_from="e1", etag_to="e2", payload=curr, delta_mode=True)
    assert wrote_delta
    write_snapshot_auto(d, etag_from=None, etag_to="e2", payload=curr)  # sibling full for the fallback
    bpath = os.path.join(d, "snapshot-e1.full.json")
    header_line = open(bpath, encoding="utf-8").read().split("\n", 1)[0]
    with open(bpath, "w", encoding="utf-8") as f:
        f.write(header_line + "\n")  # body lost
    shown = []
    for how, call in (
        ("read_snapshot(path=delta)", lambda: read_snapshot(path=p)),
        ("read_snapshot(root, etag_to)", lambda: read_snapshot(root=d, etag_to="e2")),
    ):
        try:
            got = call()
        except Exception as e:  # raising is not the silent wrong answer this script is about
            print(f"{how}: raised {type(e).__name__}")
            continue
        if got not in (curr, {}):
            shown.append(f"{how}: expected {curr!r} (or absence) got {got!r}")
for s in shown:
    print(s)
sys.exit(1 if shown else 0)
