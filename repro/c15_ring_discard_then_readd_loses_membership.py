#!/usr/bin/env python
"""
Side observation (unchanged code): DedupeRing.discard() drops one reference but leaves the
physical slot in the deque; when that dead slot is later evicted, add() decrements the
refcount a second time.  If the element was re-added in between, the ring then denies
membership of an element that is one of the last k adds and is still physically in the ring.
Exit 1 when the inconsistency shows, 0 otherwise.
"""
import sys
from collections import Counter
from clematis.engine.util.ring import DedupeRing

r = DedupeRing(3)
r.add("a")
r.discard("a")      # logical removal; slot stays in the deque
r.add("a")          # re-added: refcount 1, deque [a(dead), a]
r.add("b")
r.add("c")          # evicts the dead slot -> refcount of the live 'a' goes to 0

phys = r.tolist()
print("ring contents (tolist):", phys, " len:", len(r), " k:", r.k)
print("contains('a'):", r.contains("a"))
bad = ("a" in phys) and not r.contains("a")
# internal consistency: refcount map vs physical multiset
print("refcounts:", dict(r._ref), " physical:", dict(Counter(phys)))
if bad:
    print("VIOLATION: 'a' is among the last k=3 adds and sits in the ring, yet contains('a') is False")
    sys.exit(1)
print("ok")
sys.exit(0)
