"""Side observation (unchanged code): the validator accepts graph.update.clamp_max = inf (and clamp_min = -inf)
together with any finite alpha. An additive weight then overflows to inf (still "inside" [-inf, inf]); the next
tick whose decay factor underflows to 0.0 (decay_dt / half_life > ~1075) computes inf * 0.0 = NaN. The NaN weight
is outside every bound, `abs(nan) < floor` is False so no later tick removes it, and no later observation repairs it
only because _clamp maps NaN to 0 (the learned edge is silently reset).
Clause contradicted: "every GEL edge weight lies within the configured clamp bounds" for a configuration the
validator accepts.
Exit 1 when the violation shows, 0 otherwise."""
import math
import sys
from configs.validate import validate_config
from clematis.engine.gel import observe_retrieval, tick


class S:
    pass


raw = {"graph": {"enabled": True,
                 "update": {"mode": "additive", "alpha": 1e308, "clamp_min": float("-inf"), "clamp_max": float("inf")},
                 "decay": {"half_life_turns": 1, "floor": 0.0}}}
try:
    cfg = validate_config(raw)
except Exception as e:  # the validator refuses the configuration: nothing to observe
    print("validator rejected:", e)
    sys.exit(0)
ctx = {"graph": cfg["graph"]}
s = S()
for t in range(3):
    observe_retrieval(ctx, s, [("a", 0.9), ("b", 0.8)], turn=t)
print("after 3 observations:", s.graph["edges"]["a→b"]["weight"])
tick(ctx, s, decay_dt=2000)
w = s.graph["edges"].get("a→b", {}).get("weight")
print("after tick(2000):", w)
if w is not None and math.isnan(w):
    print("VIOLATION: NaN edge weight under a validator-accepted configuration")
    sys.exit(1)
sys.exit(0)
