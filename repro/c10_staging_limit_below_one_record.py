"""C10 (the outcome does not depend on the log-staging memory limit; all staging byte limits from 1 byte upward):
LogStager.stage refuses a record whenever `bytes_buffered + estimate > byte_limit` - also when the buffer is EMPTY.  The
batch driver answers back-pressure by draining and staging the same record again; for a record whose estimate alone exceeds
the limit that second attempt raises RuntimeError('LOG_STAGING_BACKPRESSURE') out of the driver, so small limits (1, 16, 64
bytes) crash the batch instead of giving the sequential loop's log lines.  Harness: the contract-following compute stub of
seeded/C10-r4-capture-no-copy/demo_C10.py (fresh record per append), real driver / stager / append_jsonl.
exit 1 = defect present, 0 = absent."""
from __future__ import annotations

import os
import sys
import tempfile
sys.path.insert(0, "/repo")
from types import SimpleNamespace as SNS

os.environ.pop("CI", None)  # plain (non-CI) run: no identity normalisation

import clematis.engine.orchestrator as orch  # noqa: E402
import clematis.engine.util.io_logging as iol  # noqa: E402
import clematis.io.paths as paths  # noqa: E402
from clematis.io.log import append_jsonl  # noqa: E402

STREAMS = ("t1.jsonl", "t2.jsonl", "t4.jsonl", "apply.jsonl", "trace.jsonl")


def _run_turn(self, ctx, state, text):  # contract-following compute phase
    agent = getattr(ctx, "agent_id", "?")
    turn = int(getattr(ctx, "turn_id", 0))
    for stage, stream in (("t1", "t1.jsonl"), ("t2", "t2.jsonl"), ("t4", "t4.jsonl")):
        rec = {"turn": turn, "agent": agent, "stage": stage, "n": len(text) + len(stage)}  # a fresh record per append
        append_jsonl(stream, rec)
        append_jsonl("trace.jsonl", dict(rec))
    if getattr(ctx, "_dry_run_until_t4", False):
        ctx._dryrun_t4 = SNS(approved_deltas=[{"op": "noop", "id": f"{agent}-1"}])
        ctx._dryrun_utter = f"u:{agent}:{text}"
        ctx._dryrun_t1 = {"graphs_touched": [f"G{agent}"]}
        ctx._dryrun_t2 = {"k_returned": 0, "k_used": 0}
        return SNS(line=ctx._dryrun_utter, events=[])
    # sequential turn: mirror the commit-phase apply record
    append_jsonl(
        "apply.jsonl",
        {
            "turn": turn,
            "agent": agent,
            "applied": 1,
            "clamps": 0,
            "version_etag": "v",
            "snapshot": "snap://x",
            "cache_invalidations": 0,
            "ms": 0.0,
        },
    )
    return SNS(line=f"u:{agent}:{text}", events=[])


def _apply(ctx, state, t4_like):
    return SNS(
        applied=len(t4_like.approved_deltas),
        clamps=0,
        version_etag="v",
        snapshot_path="snap://x",
        metrics={"cache_invalidations": 0},
    )


def _cfg(parallel: bool) -> dict:
    return {
        "perf": {
            "enabled": True,
            "parallel": {"enabled": parallel, "agents": parallel, "max_workers": 4 if parallel else 1},
        }
    }


def _state(n: int) -> dict:
    ids = "ABCDEF"[:n]
    return {"graphs_by_agent": {a: [f"G{a}"] for a in ids}, "agents": {a: {"graphs": [f"G{a}"]} for a in ids}}


def _run(parallel: bool, n: int, byte_limit: int | None):
    logs = tempfile.mkdtemp(prefix="c10-")
    paths.logs_dir = lambda: logs
    if byte_limit is None:
        orch.enable_staging = iol.enable_staging
    else:
        orch.enable_staging = lambda: iol.enable_staging(byte_limit=byte_limit)
    tasks = [(a, t) for a, t in zip("ABCDEF"[:n], ["hi", "hello", "yo", "ok then", "go", "x"])]
    res = orch._run_agents_parallel_batch(SNS(cfg=_cfg(parallel), turn_id=7), _state(n), tasks)
    out = {}
    for name in STREAMS:
        p = os.path.join(logs, name)
        out[name] = open(p, encoding="utf-8").read().splitlines() if os.path.exists(p) else []
    return [r.line for r in res], out


def main() -> int:
    orch.Orchestrator.run_turn = _run_turn
    orch.apply_changes = _apply
    bad = 0
    for n in (1, 2, 4):
        seq_lines, seq_logs = _run(False, n, None)
        for limit in (1, 16, 64, 200, None):
            try:
                par_lines, par_logs = _run(True, n, limit)
            except Exception as e:  # the driver must not depend on the limit
                bad += 1
                print(f"[n={n} limit={limit}] driver raised {type(e).__name__}: {e}")
                continue
            if par_lines != seq_lines:
                bad += 1
                print(f"[n={n} limit={limit}] results differ: {par_lines} vs {seq_lines}")
            for name in STREAMS:
                if par_logs[name] != seq_logs[name]:
                    bad += 1
                    print(f"[n={n} limit={limit}] {name} differs")
                    print("   sequential:", seq_logs[name][:2])
                    print("   parallel  :", par_logs[name][:2])
    if bad:
        print(f"FAIL: {bad} mismatches between sequential loop and parallel batch")
        return 1
    print("OK: parallel batch == sequential loop (results and log lines)")
    return 0


if __name__ == "__main__":
    sys.exit(main())
