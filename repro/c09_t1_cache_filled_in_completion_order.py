#!/usr/bin/env python
"""
Side observation for C09 (unchanged checkout): the T1 per-graph result cache is written by the
worker threads in COMPLETION order.  With a bounded cache (t1.cache.max_entries=1) the entry that
survives a parallel call depends on which graph finished last, so the counters of the NEXT call
(cache_hits / cache_misses / cache_used / max_delta) differ from the sequential path, which always
writes in active_graphs order.

Two identical two-call histories, one sequential (max_workers=1), one parallel (max_workers=2)
with graph A finishing after graph B on the first call.  Exit 1 when the second-call metrics
differ, 0 otherwise.
"""
import os
import sys
import time
from types import SimpleNamespace

sys.path.insert(0, os.path.dirname(os.path.abspath(__file__)))
from clematis.engine.stages import t1 as t1mod  # noqa: E402
from clematis.engine.types import Config  # noqa: E402
from clematis.graph.store import InMemoryGraphStore, Node, Edge  # noqa: E402


class SlowA(InMemoryGraphStore):
    """Adjacency of graph A takes longer to build than that of graph B."""

    def csr(self, gid):
        if gid == "A":
            time.sleep(0.2)
        return super().csr(gid)


def history(workers):
    t1mod._T1_CACHE = None
    t1mod._T1_CACHE_CFG = None
    store = SlowA()
    for gid in ("A", "B"):
        store.ensure(gid)
        store.upsert_nodes(
            gid, [Node(id=f"{gid}:s", label="seed"), Node(id=f"{gid}:n", label=f"{gid}-n")]
        )
        store.upsert_edges(
            gid, [Edge(id=f"{gid}:e", src=f"{gid}:s", dst=f"{gid}:n", weight=1.0, rel="supports")]
        )
    cfg = Config()
    cfg.t1["cache"] = {"enabled": True, "max_entries": 1, "ttl_s": 300}
    cfg.perf = {"parallel": {"enabled": True, "t1": True, "max_workers": workers}}
    state = {"store": store, "active_graphs": ["A", "B"]}
    out = []
    for _ in range(2):
        r = t1mod.t1_propagate(SimpleNamespace(cfg=cfg), state, "seed")
        out.append((list(r.graph_deltas), dict(r.metrics)))
    return out


seq = history(1)
par = history(2)
for turn in (0, 1):
    print(f"call {turn + 1} sequential metrics:", seq[turn][1])
    print(f"call {turn + 1} parallel   metrics:", par[turn][1])
bad = seq != par
sys.exit(1 if bad else 0)
