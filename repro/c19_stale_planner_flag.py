#!/usr/bin/env python3
"""Side observation (unchanged code): the 'requested by the plan' gate can be opened by an EARLIER turn's plan.

run_policy() stashes the LLM planner's reflection flag on state (state._planner_reflection_flag) and
_run_reflection_if_enabled() falls back to that flag when Plan.reflection is false.  Only the LLM branch of
run_policy() ever rewrites the flag; the rule-based branch leaves it alone.  So:
  turn 1: t3.backend=llm, planner output {"reflection": true}   -> flag True
  turn 2: t3.backend=rulebased (backend switched between turns), plan.reflection is False -> flag is still True
and reflection runs on turn 2 although that turn's plan did not request it.

exit 1 when the violation shows, 0 otherwise.
"""
import json, os, sys, tempfile
from pathlib import Path
from types import SimpleNamespace as SNS

ROOT = Path(__file__).resolve().parent
sys.path.insert(0, str(ROOT)); os.chdir(ROOT)
os.environ["CI"] = "true"; os.environ["CLEMATIS_NETWORK_BAN"] = "1"

from clematis.adapters.llm import _prompt_hash
from clematis.engine.stages.t3 import policy
from clematis.engine.orchestrator import core

tmp = Path(tempfile.mkdtemp(prefix="c19_obs_flag_"))
fx = tmp / "planner.jsonl"

def cfg(backend):
    return {
        "t3": {"backend": backend, "allow_reflection": True, "tokens": 128, "max_ops_per_turn": 3,
               "llm": {"provider": "fixture", "fixtures": {"enabled": True, "path": str(fx)}},
               "reflection": {"backend": "rulebased", "summary_tokens": 16, "embed": False, "topk_snippets": 0}},
        "t2": {"k_retrieval": 4, "sim_threshold": 0.3, "owner_scope": "any"},
        "scheduler": {"budgets": {"time_ms_reflection": 6000, "ops_reflection": 1}},
    }

def bundle(c):
    return {"cfg": c, "agent": {"caps": {"ops": 3}}, "slice_caps": {},
            "t2": {"metrics": {"sim_stats": {"max": 0.2}}, "retrieved": []},
            "t1": {"touched_nodes": []}, "text": {"input": "hi", "labels_from_t1": []}}

state = SNS(logs=[], cfg=None, memory_index=None)

# ---- turn 1: LLM planner, asks for reflection
c1 = cfg("llm")
ctx1 = SNS(turn_id=1, agent_id="AgentA", now_ms=1000, cfg=c1, _dry_run_until_t4=False)
prompt = policy.make_planner_prompt(ctx1)
fx.write_text(json.dumps({"prompt_hash": _prompt_hash(prompt),
                          "completion": json.dumps({"plan": ["think"], "rationale": "r", "reflection": True})}) + "\n")
out1 = policy.run_policy(policy.select_policy(c1, ctx1), bundle(c1), c1, ctx1, state=state)
print("turn 1 llm plan:", out1, "flag on state:", getattr(state, "_planner_reflection_flag", None))
assert getattr(state, "_planner_reflection_flag", None) is True, "setup: LLM planner should have requested reflection"

# ---- turn 2: backend switched to rulebased; this turn's plan does not request reflection
c2 = cfg("rulebased")
ctx2 = SNS(turn_id=2, agent_id="AgentA", now_ms=2000, cfg=c2, _dry_run_until_t4=False)
out2 = policy.run_policy(policy.select_policy(c2, ctx2), bundle(c2), c2, ctx2, state=state)
plan2 = policy.Plan(version="t3-plan-v1", reflection=False, ops=list(out2["plan"]), request_retrieve=None)
print("turn 2 rulebased plan.reflection:", plan2.reflection, "flag on state:", getattr(state, "_planner_reflection_flag", None))
res = core._run_reflection_if_enabled(ctx2, state, plan2, "an utterance", SNS(retrieved=[]))
print("turn 2 reflection result:", None if res is None else {"summary": res.summary, "entries": len(res.memory_entries)})
if res is not None:
    print("VIOLATION: reflection ran on turn 2 although turn 2's plan did not request it (stale flag from turn 1)")
    sys.exit(1)
print("ok: gate stayed closed")
sys.exit(0)
