#!/usr/bin/env python
"""Side observation (unchanged checkout): apply_changes has two early-return tails (state has
no store; store has no callable apply_deltas).  Both bump the version and honour the snapshot
cadence like a committed turn, but neither runs the on-apply cache invalidation, so with
cache_bust_mode=on-apply the configured namespace keeps its entries.

Exit 1 when the violation shows, 0 otherwise.
"""
import os
import sys
import tempfile
from types import SimpleNamespace

sys.path.insert(0, os.getcwd())

from clematis.engine.apply import apply_changes  # noqa: E402
from clematis.engine.cache import CacheManager  # noqa: E402
from clematis.engine.types import T4Result, ProposedDelta  # noqa: E402

NS = "t2:semantic"
TMP = tempfile.mkdtemp(prefix="observe_c04_tail_")


class StoreWithoutBatchApi:
    """A store object that exposes no apply_deltas."""


def run(label, store) -> bool:
    ctx = SimpleNamespace(
        turn_id=1,
        agent_id="obs",
        config=SimpleNamespace(
            t4={
                "enabled": True,
                "cache_bust_mode": "on-apply",
                "cache": {"enabled": True, "namespaces": [NS]},
                "snapshot_every_n_turns": 1000,
                "snapshot_dir": os.path.join(TMP, "snaps"),
            }
        ),
    )
    cm = CacheManager()
    cm.set(NS, ("k",), "cached t2 result")
    state = {"version_etag": "7", "store": store, "_cache_mgr": cm}
    t4 = T4Result(
        approved_deltas=[ProposedDelta(target_kind="node", target_id="n:a", attr="weight", delta=0.1)],
        rejected_ops=[],
        reasons=[],
        metrics={},
    )
    res = apply_changes(ctx, state, t4)
    left = cm.stats["size"]
    print(f"[{label}] version {res.version_etag!r} (was '7'), cache_invalidations="
          f"{res.metrics.get('cache_invalidations')}, entries left in {NS!r}: {left}")
    return left != 0


def main() -> int:
    bad = False
    bad |= run("store=None", None)
    bad |= run("store without apply_deltas", StoreWithoutBatchApi())
    if bad:
        print("VIOLATION: version bumped (committed turn) but configured namespace not invalidated "
              "with cache_bust_mode=on-apply")
    return 1 if bad else 0


if __name__ == "__main__":
    sys.exit(main())
