#!/usr/bin/env python
"""Side observation for C20 (unchanged checkout): a fault in the MMR step of the T2 quality layer is swallowed, but the
turn's T2 record then equals neither the record of a run with MMR switched off nor that of a run with the quality
layer switched off.

apply_quality() (clematis/engine/stages/t2/quality.py) first applies the lexical fusion reorder
(`retrieved = new_order; q_fusion_used = True`) and then calls MMR inside the same try block.  When MMR raises, the
handler resets `q_fusion_used = False; q_fusion_meta = {}` but keeps the fused ranking.  The result is a ranking
produced by fusion that is reported as if fusion had not run: the t2.jsonl record loses t2q.fusion_mode /
t2q.alpha_semantic / t2q.lex_hits (present in the MMR-off run) while the ranking differs from the quality-off run.

Run from the worktree root with PYTHONPATH set to it.  Exit 1 when the violation shows, 0 otherwise.
"""
import json
import os
import subprocess
import sys
import tempfile

ROOT = "/repo"
MODES = ("quality_off", "mmr_off", "mmr_raises")


def child(mode: str) -> None:
    tmp = tempfile.mkdtemp(prefix="c20_obs_mmr_")
    os.environ["CLEMATIS_LOG_DIR"] = os.path.join(tmp, "logs")
    os.environ["CI"] = "true"
    sys.path.insert(0, ROOT)
    from types import SimpleNamespace
    from configs.validate import validate_config
    from clematis.engine.orchestrator.core import run_turn
    from clematis.memory.index import InMemoryIndex
    from clematis.adapters.embeddings import BGEAdapter
    import clematis.engine.stages.t2.core as t2core

    class AD(dict):
        def __getattr__(self, n):
            try:
                return self[n]
            except KeyError as e:
                raise AttributeError(n) from e

    def ad(o):
        if isinstance(o, dict):
            return AD({k: ad(v) for k, v in o.items()})
        if isinstance(o, list):
            return [ad(v) for v in o]
        return o

    snaps = os.path.join(tmp, "snaps")
    os.makedirs(snaps)
    cfg = ad(validate_config({
        "t4": {"snapshot_dir": snaps},
        "perf": {"enabled": True, "metrics": {"report_memory": True}},  # gate for the t2q.* fields of the T2 record
        "t2": {"sim_threshold": -1.0,
               "quality": {"enabled": mode != "quality_off",
                           "mmr": {"enabled": mode == "mmr_raises", "lambda": 0.5}}},
    }))
    enc = BGEAdapter(dim=32)
    idx = InMemoryIndex()
    texts = ["apple pie recipe with cinnamon", "banana bread and apple jam", "the quick brown fox",
             "apple orchard harvest season", "zebra crossing rules", "apple apple apple"]
    for i, t in enumerate(texts):
        idx.add({"id": f"e{i}", "owner": "A", "ts": "2024-01-01T00:00:00Z", "text": t, "tags": [],
                 "vec_full": enc.encode([t])[0]})
    state = {"version_etag": "0", "mem_index": idx}

    if mode == "mmr_raises":
        import clematis.engine.stages.t2.quality_ops as qo

        def boom(*a, **k):
            raise RuntimeError("injected MMR fault")

        qo.maybe_apply_mmr = boom  # apply_quality imports it from the module at call time

    seen = {}
    orig = t2core._apply_quality

    def spy(*a, **k):
        out = orig(*a, **k)
        seen["order"] = [r.id for r in out[0]]
        return out

    t2core._apply_quality = spy

    ctx = SimpleNamespace(turn_id="1", agent_id="A", now="2024-01-02T00:00:00Z", now_ms=0, cfg=cfg, config=cfg)
    res = run_turn(ctx, state, "apple")
    rec = json.loads(open(os.path.join(os.environ["CLEMATIS_LOG_DIR"], "t2.jsonl"), encoding="utf-8").read().splitlines()[0])
    print("@@" + json.dumps({"mode": mode, "line": res.line, "order": seen.get("order"), "t2": rec}))


def run(mode: str) -> dict:
    env = dict(os.environ)
    env["PYTHONPATH"] = ROOT
    p = subprocess.run([sys.executable, os.path.abspath(__file__), "--child", mode], cwd=ROOT, env=env,
                       capture_output=True, text=True)
    for line in p.stdout.splitlines():
        if line.startswith("@@"):
            return json.loads(line[2:])
    raise SystemExit(f"child {mode} failed rc={p.returncode}:\n{p.stderr[-800:]}")


def main() -> int:
    out = {m: run(m) for m in MODES}
    fault, mmr_off, q_off = out["mmr_raises"], out["mmr_off"], out["quality_off"]

    def strip(rec):  # the MMR knobs themselves legitimately differ between the configurations
        return {k: v for k, v in rec.items() if not k.startswith("t2q.mmr.") and k != "t2q.diversity_avg_pairwise"}

    print("ranking  quality off :", q_off["order"])
    print("ranking  MMR off     :", mmr_off["order"])
    print("ranking  MMR raises  :", fault["order"])
    for m in MODES:
        print(f"t2q.* fields [{m:11s}]:", {k: v for k, v in out[m]["t2"].items() if k.startswith("t2q.")})

    same_as_mmr_off = strip(fault["t2"]) == strip(mmr_off["t2"]) and fault["order"] == mmr_off["order"]
    same_as_q_off = strip(fault["t2"]) == strip(q_off["t2"]) and fault["order"] == q_off["order"]
    if same_as_mmr_off or same_as_q_off:
        print("\nOK: the faulted run equals a switched-off run")
        return 0
    print("\nVIOLATION: with the MMR step raising, the T2 record / ranking equals neither the MMR-off run "
          "(fusion fields missing) nor the quality-off run (ranking is the fused one)")
    return 1


if __name__ == "__main__":
    if len(sys.argv) == 3 and sys.argv[1] == "--child":
        child(sys.argv[2])
    else:
        sys.exit(main())
