"""Unchanged code: with a baseline full file that exists but is not parseable JSON (or whose body is
not an object), neither side falls back: read_snapshot raises although a full snapshot for the same
etag is present, and write_snapshot_auto(delta_mode=True) raises instead of writing a full (for a
non-object body it even writes a delta that can never be read back).  Exit 1 if shown."""
import os
import sys
import tempfile

from clematis.engine.snapshot import read_snapshot, write_snapshot_auto

shown = []
for label, body in (("unparseable body", '{"a": 1'), ("non-object body", "[1, 2]")):
    with tempfile.TemporaryDirectory() as d:
        write_snapshot_auto(d, etag_from=None, etag_to="e1", payload={"a": 1})
        p, _ = write_snapshot_auto(d, etag_from="e1", etag_to="e2", payload={"a": 2}, delta_mode=True)
        write_snapshot_auto(d, etag_from=None, etag_to="e2", payload={"a": 2})
        bpath = os.path.join(d, "snapshot-e1.full.json")
        header_line = open(bpath, encoding="utf-8").read().split("\n", 1)[0]
        with open(bpath, "w", encoding="utf-8") as f:
            f.write(header_line + "\n" + body)
        try:
            got = read_snapshot(path=p)
            if got != {"a": 2}:
                shown.append(f"{label}: reader returned {got!r}")
        except Exception as e:
            shown.append(f"{label}: reader raised {type(e).__name__} instead of falling back to snapshot-e2.full")
        try:
            p3, wrote_delta = write_snapshot_auto(d, etag_from="e1", etag_to="e3", payload={"a": 3}, delta_mode=True)
            try:
                got3 = read_snapshot(path=p3)
                if got3 != {"a": 3}:
                    shown.append(f"{label}: writer wrote delta={wrote_delta}, read back {got3!r}")
            except Exception as e:
                shown.append(f"{label}: writer wrote delta={wrote_delta} that reads back as {type(e).__name__}")
        except Exception as e:
            shown.append(f"{label}: writer raised {type(e).__name__} instead of writing a full snapshot")
for s in shown:
    print(s)
sys.exit(1 if shown else 0)
