#!/usr/bin/env python
"""
Side observation (unchanged checkout): the T2 stage cache key does not cover the metrics gate
(perf.enabled && perf.metrics.report_memory) nor the perf.t2.* values that the gated metrics echo, although the cached
T2Result carries those metrics. After a configuration change that opens the gate (or changes perf.t2.precompute_norms /
embed_store_dtype while it is open), a hit returns the metrics of the old configuration: the gated block
(t2.embed_dtype, t2.embed_store_dtype, t2.precompute_norms, t2.reader_mode, ...) is missing or stale. These are not
hit/miss counters.

History: t2(query) with report_memory=False ; config change report_memory=True (+ precompute_norms=True) ; t2(query).
Exit 1 when caches-on and caches-off disagree on the second call, 0 otherwise.
"""
import os
import sys
from types import SimpleNamespace

sys.path.insert(0, "/repo")

from clematis.adapters.embeddings import BGEAdapter
from clematis.engine.types import Config
from clematis.engine.stages.t2.core import t2_semantic
from clematis.memory.index import InMemoryIndex

DIAG = {"cache_used", "cache_hits", "cache_misses", "cache_enabled", "t2.cache_evictions", "t2.cache_bytes"}


def run(cache_on: bool):
    cfg = Config()
    cfg.t2["cache"] = {"enabled": cache_on, "max_entries": 512, "ttl_s": 300}
    cfg.t2["sim_threshold"] = -1.0
    cfg.perf = {"enabled": True, "metrics": {"report_memory": False}, "t2": {"precompute_norms": False}}
    index = InMemoryIndex()
    vec = BGEAdapter(dim=32).encode(["hello"])[0].tolist()
    index.add({"id": "ep1", "owner": "A", "text": "hello", "ts": "2025-01-25T00:00:00Z", "vec_full": vec, "aux": {}})
    state = {"mem_index": index}
    t1 = SimpleNamespace(graph_deltas=[])
    ctx = SimpleNamespace(cfg=cfg, now="2025-02-01T00:00:00Z", agent_id="A")
    t2_semantic(ctx, state, "hello", t1)
    cfg.perf["metrics"]["report_memory"] = True  # configuration change: open the metrics gate
    cfg.perf["t2"]["precompute_norms"] = True
    second = t2_semantic(ctx, state, "hello", t1)
    return {k: v for k, v in second.metrics.items() if k not in DIAG}


def main() -> int:
    on, off = run(True), run(False)
    diff = {k: (on.get(k, "<absent>"), off.get(k, "<absent>")) for k in sorted(set(on) | set(off)) if on.get(k, "<absent>") != off.get(k, "<absent>")}
    print("caches on :", on)
    print("caches off:", off)
    if diff:
        print("MISMATCH (on, off):", diff)
        return 1
    return 0


if __name__ == "__main__":
    sys.exit(main())
