#!/usr/bin/env python
"""Side observation (unchanged code): an out-of-range edge weight that float() cannot convert (a Python int beyond
the float range, e.g. 10**400 - finite and JSON-serialisable) raises OverflowError inside the edge loop of
_sanitize_gel_for_write; the try/except wraps the whole loop, so that edge AND EVERY EDGE AFTER IT are silently left
out of the snapshot (no error, edges_count adjusted). Expected per the statement: the weight is clamped to
weight_max and the other edges are unaffected.
Exit 1 when the violation shows, 0 otherwise.
"""
import json
import sys
import tempfile
from types import SimpleNamespace

from clematis.engine.snapshot import load_latest_snapshot, write_snapshot


def E(s, d, w):
    return {"src": s, "dst": d, "rel": "coact", "weight": w, "updated_at": None, "attrs": {}}


def main():
    d = tempfile.mkdtemp(prefix="c06obs_")
    cfg = {"t4": {"snapshot_dir": d, "weight_min": -1.0, "weight_max": 1.0}, "graph": {"enabled": True}}
    ctx = SimpleNamespace(agent_id="Ag", turn_id=1, cfg=cfg, config=cfg)
    edges = [E("a", "b", 0.1), E("c", "d", 10 ** 400), E("e", "f", 0.3), E("g", "h", -0.2)]
    s1 = SimpleNamespace(store=None, graph={"nodes": {}, "edges": edges, "meta": {}})
    write_snapshot(ctx, s1, "1")
    s2 = SimpleNamespace(store=None)
    info = load_latest_snapshot(ctx, s2)
    got = {k: r["weight"] for k, r in s2.graph["edges"].items()}
    want = {"a→b": 0.1, "c→d": 1.0, "e→f": 0.3, "g→h": -0.2}
    print("loaded:", got)
    print("want  :", want)
    if got != want:
        print("VIOLATION: edges after the out-of-range weight are missing from the snapshot / loaded state")
        return 1
    print("no violation")
    return 0


if __name__ == "__main__":
    sys.exit(main())
