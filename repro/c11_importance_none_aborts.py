"""Side observation (weak): an episode whose aux carries "importance": None (JSON null) makes the
combined re-scoring raise, so retrieval returns nothing at all for any query that reaches the episode
(`aux.get("importance", 0.5)` only defaults when the key is absent).

Clause touched: "Retrieval returns at most k distinct episodes ... ordered by the documented combined
score" quantified over all memory contents incl. importance - no result is produced.

exit 1 when the violation shows, 0 otherwise.
"""
from __future__ import annotations

import sys

import numpy as np

from clematis.engine.types import Config, T1Result
from clematis.engine.stages.t2 import t2_semantic
from clematis.memory.index import InMemoryIndex


class _Enc:
    dim = 4

    def encode(self, texts):
        return [np.asarray([1.0, 0.0, 0.0, 0.0], dtype=np.float32) for _ in texts]


def main() -> int:
    v = np.asarray([1.0, 0.0, 0.0, 0.0], dtype=np.float32)
    idx = InMemoryIndex()
    idx.add({"id": "ok", "owner": "A", "text": "t", "ts": "2025-08-01T00:00:00Z", "vec_full": v,
             "aux": {"importance": 0.7}})
    idx.add({"id": "null_imp", "owner": "A", "text": "t", "ts": "2025-08-02T00:00:00Z", "vec_full": v,
             "aux": {"importance": None}})
    cfg = Config()
    cfg.t2.update({"tiers": ["exact_semantic"], "sim_threshold": 0.0, "cache": {"enabled": False}})
    ctx = type("Ctx", (), {})()
    ctx.cfg = cfg
    ctx.now = "2025-09-01T00:00:00Z"
    ctx.enc = _Enc()
    try:
        res = t2_semantic(ctx, {"mem_index": idx}, "q", T1Result(graph_deltas=[], metrics={}))
    except Exception as exc:  # noqa: BLE001
        print("VIOLATION: retrieval aborted:", type(exc).__name__, exc)
        return 1
    print("returned:", [h.id for h in res.retrieved])
    return 0


if __name__ == "__main__":
    sys.exit(main())
