"""
Side observation (UNCHANGED code): the content-derived graph etag hashes edges in sorted-id order, but
T1 walks `store.csr(gid)`, whose adjacency lists follow edge INSERTION order.  With a relaxation budget
(t1.relax_cap) the insertion order decides which edges are relaxed before the budget runs out.  Two
independent stores holding the same nodes and edges, inserted in a different order, therefore have equal
etags but different fresh T1 results, and the process-global T1 cache serves the first store's result
to the second.

Contradicts: "This also holds between independent engine states that live in the same process"
(T1 key = (gid, etag, ...) assumes equal etags mean equal T1 inputs).
Exit 1 when the violation shows, 0 otherwise.
"""
import sys

from clematis.engine.types import Config
from clematis.graph.store import InMemoryGraphStore, Node, Edge
from clematis.engine.stages.t1 import t1_propagate

GID = "g:surface"
DIAG = {"cache_hits", "cache_misses", "cache_used", "cache_enabled", "max_delta"}


def make_state(edge_order):
    store = InMemoryGraphStore()
    store.upsert_nodes(GID, [Node(id="n:s", label="seed"), Node(id="n:a", label="alpha"), Node(id="n:b", label="beta")])
    edges = {
        "e1": Edge(id="e1", src="n:s", dst="n:a", weight=0.9, rel="supports"),
        "e2": Edge(id="e2", src="n:s", dst="n:b", weight=0.9, rel="supports"),
    }
    for eid in edge_order:
        store.upsert_edges(GID, [edges[eid]])
    return {"store": store, "active_graphs": [GID]}


def replay(cache_on):
    cfg = Config()
    cfg.t1["cache"] = {"enabled": cache_on, "max_entries": 64, "ttl_s": 3600}
    cfg.t1["relax_cap"] = 1
    ctx = type("Ctx", (), {"cfg": cfg, "turn_id": "t", "agent_id": "A"})()
    sa = make_state(["e1", "e2"])
    sb = make_state(["e2", "e1"])
    if sa["store"].version_etag(GID) != sb["store"].version_etag(GID):
        print("etags differ for the two insertion orders: defect absent"); raise SystemExit(0)
    ra = t1_propagate(ctx, sa, "seed")
    rb = t1_propagate(ctx, sb, "seed")
    return [d["id"] for d in ra.graph_deltas], [d["id"] for d in rb.graph_deltas]


on = replay(True)
off = replay(False)
print("caches ON :", on)
print("caches OFF:", off)
if on != off:
    print("VIOLATION: second state's T1 result came from the first state's cache entry")
    sys.exit(1)
sys.exit(0)
