#!/usr/bin/env python
"""Side observation for C19 (unchanged checkout).

Clause: each reflection entry has "an id and timestamp that are pure functions of agent, turn,
slot and text".

run_turn derives ctx.now_iso from the turn clock ctx.now_ms only `if not hasattr(ctx, "now_iso")`,
and write_reflection_entries prefers ctx.now_iso.  A driver that reuses one ctx object across
turns and advances ctx.now_ms (turn_id, now_ms updated in place) therefore stamps every later
reflection entry with the FIRST turn's clock.  The same (agent, turn, slot, text) gets a different
timestamp depending on whether the ctx object had been through an earlier turn.

Exit 1 when the violation shows, 0 otherwise.
"""
from __future__ import annotations

import os
import sys
import tempfile
from types import SimpleNamespace as SNS

_TMP = tempfile.mkdtemp(prefix="observe_c19_")
os.environ["CLEMATIS_LOG_DIR"] = os.path.join(_TMP, "logs")

sys.path.insert(0, os.getcwd())

from clematis.engine.orchestrator import core  # noqa: E402
from clematis.memory.index import InMemoryIndex  # noqa: E402
from configs.validate import validate_config  # noqa: E402


class _AttrDict(dict):
    def __getattr__(self, name):
        try:
            return self[name]
        except KeyError as e:
            raise AttributeError(name) from e


def _to_attrdict(obj):
    if isinstance(obj, dict):
        return _AttrDict({k: _to_attrdict(v) for k, v in obj.items()})
    if isinstance(obj, list):
        return [_to_attrdict(v) for v in obj]
    return obj


def _cfg():
    return _to_attrdict(
        validate_config(
            {
                "t3": {
                    "allow_reflection": True,
                    "reflection": {"backend": "rulebased", "embed": False, "summary_tokens": 16},
                },
                "t4": {"snapshot_dir": os.path.join(_TMP, "snaps")},
                "scheduler": {"budgets": {"time_ms_reflection": 6000, "ops_reflection": 3}},
            }
        )
    )


def _state():
    return {"version_etag": "0", "memory_index": InMemoryIndex(), "_planner_reflection_flag": True}


def _rows(state):
    return [e for e in state["memory_index"]._eps if "reflection" in (e.get("tags") or [])]


def main() -> int:
    T1_MS, T2_MS = 1_000_000, 2_000_000

    # A) turn 2 on a fresh ctx
    st_a = _state()
    ctx_a = SNS(turn_id=2, agent_id="AgentA", now_ms=T2_MS, cfg=_cfg())
    core.Orchestrator().run_turn(ctx_a, st_a, "tell me about the garden")
    rows_a = _rows(st_a)

    # B) the same turn 2, but the ctx object already served turn 1 (driver updates it in place)
    st_b = _state()
    ctx_b = SNS(turn_id=1, agent_id="AgentA", now_ms=T1_MS, cfg=_cfg())
    core.Orchestrator().run_turn(ctx_b, st_b, "tell me about the garden")
    ctx_b.turn_id = 2
    ctx_b.now_ms = T2_MS
    core.Orchestrator().run_turn(ctx_b, st_b, "tell me about the garden")
    rows_b = [r for r in _rows(st_b) if r["id"].startswith("refl-2-")]

    if len(rows_a) != 1 or len(rows_b) != 1:
        print(f"set-up problem: rows_a={len(rows_a)} rows_b={len(rows_b)}")
        return 2
    a, b = rows_a[0], rows_b[0]
    print("fresh ctx :", a["id"], a["ts"], repr(a["text"]))
    print("reused ctx:", b["id"], b["ts"], repr(b["text"]))
    same_key = a["id"] == b["id"] and a["text"] == b["text"]
    if same_key and a["ts"] != b["ts"]:
        print(
            "VIOLATION: same agent/turn/slot/text, different timestamp "
            f"({a['ts']} vs {b['ts']}); the reused ctx kept turn 1's now_iso although now_ms={T2_MS}"
        )
        return 1
    print("no violation observed")
    return 0


if __name__ == "__main__":
    raise SystemExit(main())
