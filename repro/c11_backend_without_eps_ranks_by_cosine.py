#!/usr/bin/env python
"""
Side observation (unchanged code): T2's combined rescoring (alpha*cos_norm + beta*recency + gamma*importance)
takes timestamps and importance from `index._eps`, a private attribute of InMemoryIndex.  For any other index
that honours the documented contract (add / search_tiered / index_version) - LanceIndex, the `t2.backend:
lancedb` sibling, has no `_eps` - the lookup is empty, every hit gets recency 0 and importance 0.5, and the result
is ordered by cosine alone.  Clause: "ordered by the documented combined score with id tie-break".

Demonstrated with a thin index that delegates to InMemoryIndex but, like LanceIndex, exposes no `_eps`
(lancedb is not installed here, so LanceIndex itself cannot be constructed).

Exit 1 when the violation shows, 0 otherwise.
"""
import sys
from types import SimpleNamespace
import numpy as np
from clematis.engine.stages.t2 import t2_semantic
from clematis.memory.index import InMemoryIndex
import clematis.memory.lance_index as lance_mod

NOW = "2025-09-01T00:00:00Z"
Q = np.array([1.0, 0.0, 0.0, 0.0], dtype=np.float32)


class Enc:
    dim = 4

    def encode(self, texts):
        return [Q.copy() for _ in texts]


def unit(x):
    return np.array([x, float(np.sqrt(1 - x * x)), 0.0, 0.0], dtype=np.float32)


class ContractIndex:
    """The documented index surface only (what LanceIndex offers): no `_eps`."""

    def __init__(self):
        self.__inner = InMemoryIndex()

    def add(self, ep):
        self.__inner.add(ep)

    def index_version(self):
        return self.__inner.index_version()

    def search_tiered(self, owner, q_vec, k, tier, hints):
        return self.__inner.search_tiered(owner, q_vec, k, tier, hints)


def run(idx):
    for eid, cos, ts in (("e_old", 1.00, "2024-09-06T00:00:00Z"), ("e_new", 0.95, "2025-09-01T00:00:00Z")):
        idx.add({"id": eid, "owner": "A", "text": eid, "ts": ts, "vec_full": unit(cos), "aux": {"importance": 0.5}})
    cfg = {"k_surface": 4, "t2": {"backend": "inmemory", "k_retrieval": 10, "sim_threshold": 0.0,
                                  "tiers": ["archive"], "owner_scope": "agent", "cache": {"enabled": False},
                                  "ranking": {"alpha_sim": 0.75, "beta_recency": 0.2, "gamma_importance": 0.05}}}
    ctx = SimpleNamespace(cfg=cfg, now=NOW, agent_id="A", enc=Enc())
    res = t2_semantic(ctx, {"mem_index": idx, "mem_backend": "inmemory"}, "q", SimpleNamespace(graph_deltas=[]))
    return [h.id for h in res.retrieved], res.metrics.get("score_stats")


def main():
    assert "_eps" not in open(lance_mod.__file__).read(), "LanceIndex now carries _eps?"
    ref, ref_stats = run(InMemoryIndex())
    got, got_stats = run(ContractIndex())
    # documented: e_old = .75*1.0 + .2*(1-360/365) + .025 = .778 ; e_new = .75*.975 + .2*1.0 + .025 = .956
    print("InMemoryIndex          :", ref, ref_stats)
    print("index without _eps     :", got, got_stats)
    assert ref == ["e_new", "e_old"]
    if got != ref:
        print("VIOLATION: same memory, same query, ranking ignores recency/importance:", got)
        return 1
    return 0


if __name__ == "__main__":
    sys.exit(main())
