#!/usr/bin/env python
"""
Side observation (unchanged checkout): an IDLE boot loader is not the same as a switched-off one.
load_latest_snapshot starts with "ensure graph containers exist on state even if nothing loads" and does so by
overwriting state["graph"] / state["gel"] with empty containers. On the first turn of a world whose state already
carries GEL edges (seeded by the caller, or built by an earlier process and handed over) everything is wiped -
whether the snapshot directory is empty, or holds an unreadable file (the fail-soft case). With the hybrid rerank
on, the first turn's t2.jsonl then differs from the run in which the loader is switched off (_boot_loaded already
set): hybrid_used False instead of True. So for a failing boot load the two references the statement names
("switched off or idle") cannot both be met.

Contradicts: "snapshot boot loading incl. corrupt or foreign files ... records equal to those of a run in which
that subsystem is switched off".

Exit 1 when the violation shows, 0 otherwise.
"""
from __future__ import annotations

import sys
import tempfile


# ---- world helpers (real stages, no stubs) ------------------------------------------------------------
import json
import os
from types import SimpleNamespace as SNS

import clematis.engine.orchestrator as orch
import clematis.engine.stages.t1 as _t1mod
import clematis.engine.stages.t2.cache as _t2cache
from clematis.adapters.embeddings import BGEAdapter
from clematis.engine.types import Edge, Node
from clematis.graph.store import InMemoryGraphStore
from clematis.memory.index import InMemoryIndex
from configs.validate import validate_config

CANON = ("t1.jsonl", "t2.jsonl", "t4.jsonl", "apply.jsonl", "turn.jsonl")


class AD(dict):
    def __getattr__(self, name):
        try:
            return self[name]
        except KeyError as exc:
            raise AttributeError(name) from exc

    def __setattr__(self, name, value):
        self[name] = value


def to_ad(obj):
    if isinstance(obj, dict):
        return AD({k: to_ad(v) for k, v in obj.items()})
    if isinstance(obj, list):
        return [to_ad(v) for v in obj]
    return obj


def make_cfg(workdir, **over):
    raw = validate_config({})
    raw["t4"]["snapshot_dir"] = os.path.join(workdir, "snaps")
    for dotted, val in over.items():
        cur = raw
        parts = dotted.split(".")
        for p in parts[:-1]:
            cur = cur.setdefault(p, {})
        cur[parts[-1]] = val
    return to_ad(raw)


def make_state(cfg, with_index=True):
    store = InMemoryGraphStore()
    store.upsert_nodes("g:surface", [Node(id="n:a", label="apple"), Node(id="n:b", label="banana")])
    store.upsert_edges("g:surface", [Edge(id="e1", src="n:a", dst="n:b", weight=0.5, rel="associates")])
    state = {"version_etag": "0", "store": store, "active_graphs": ["g:surface"]}
    if with_index:
        idx = InMemoryIndex()
        enc = BGEAdapter(dim=int(cfg.get("k_surface", 32)))
        texts = ["apple pie recipe", "banana split dessert", "apple banana smoothie", "green apple", "yellow banana"]
        for i, t in enumerate(texts):
            idx.add({"id": f"ep{i}", "owner": "A", "text": t, "ts": "1970-01-01T00:00:00Z",
                     "vec_full": enc.encode([t])[0].tolist()})
        state["mem_index"] = idx
    return state


def reset_process_caches():
    """T1 / T2 keep process-global stage caches: start every compared run from the same (empty) ones."""
    _t1mod._T1_CACHE = None
    _t1mod._T1_CACHE_CFG = None
    _t2cache._T2_CACHE = None
    _t2cache._T2_CACHE_CFG = None


def run_turns(cfg, state, texts, agent="A"):
    records = []

    def capture(name, payload):
        records.append((name, json.loads(json.dumps(payload, default=str))))

    orch.append_jsonl = capture
    results = []
    for i, text in enumerate(texts, start=1):
        ctx = SNS(turn_id=i, agent_id=agent, now=None, now_ms=1000 * i, cfg=cfg, config=cfg)
        results.append(orch.run_turn(ctx, state, text))
    return results, records


def canonical(records):
    out = []
    for name, rec in records:
        if name not in CANON:
            continue
        rec = dict(rec)
        rec.pop("ms", None)
        rec.pop("durations_ms", None)
        if isinstance(rec.get("snapshot"), str):
            rec["snapshot"] = os.path.basename(rec["snapshot"])
        out.append((name, rec))
    return out


def diff_fields(a, b):
    out = []
    for (na, ra), (nb, rb) in zip(a, b):
        if ra != rb:
            out.append((na, {k: (ra.get(k), rb.get(k)) for k in set(ra) | set(rb) if ra.get(k) != rb.get(k)}))
    return out


W = sys.modules[__name__]

# ---- the observation --------------------------------------------------------------------------------
OVER = {"graph.enabled": True, "t2.hybrid.enabled": True, "t2.sim_threshold": -1.0}


def first_turn(mode):
    W.reset_process_caches()
    workdir = tempfile.mkdtemp(prefix="c20_wipe_")
    cfg = W.make_cfg(workdir, **OVER)
    snaps = os.path.join(workdir, "snaps")
    os.makedirs(snaps, exist_ok=True)
    state = W.make_state(cfg)
    state["graph"] = {
        "nodes": {},
        "edges": {"ep0→ep2": {"id": "ep0→ep2", "src": "ep0", "dst": "ep2", "weight": 0.9, "rel": "coact", "attrs": {}}},
        "meta": {},
    }
    if mode == "off":
        state["_boot_loaded"] = True
    elif mode == "corrupt":
        with open(os.path.join(snaps, "state_A.json"), "w", encoding="utf-8") as fh:
            fh.write("{{{ not a snapshot")
    results, records = W.run_turns(cfg, state, ["apple pie"])
    return results[0].line, W.canonical(records)


def main() -> int:
    off = first_turn("off")
    rc = 0
    for mode in ("idle", "corrupt"):
        got = first_turn(mode)
        d = W.diff_fields(got[1], off[1])
        print(f"loader {mode:8s} vs loader switched off:", "equal" if not d else f"DIFFERS {d}")
        if d:
            rc = 1
    if rc:
        print("\nVIOLATION: a boot load that loads nothing (idle or failing) still wiped the GEL state the turn runs on.")
    return rc


if __name__ == "__main__":
    sys.exit(main())
