"""apply_changes with ctx.config given as the plain dict configs.validate returns: the t4 section (snapshot cadence, cache
busting) was read by attribute only, so the commit used the built-in defaults - a snapshot on every turn.
Run: cd /repo && PYTHONPATH=/repo /venv/bin/python /verif/repro/c04_apply_dict_config_ignores_cadence.py   (exit 1 = defect shows)"""
import os, sys, tempfile
from types import SimpleNamespace as NS
from configs.validate import validate_config
from clematis.engine.apply import apply_changes
from clematis.engine.types import T4Result
from clematis.graph.store import InMemoryGraphStore

d = tempfile.mkdtemp(prefix="c04_dictcfg_")
cfg = validate_config({"t4": {"snapshot_every_n_turns": 5, "snapshot_dir": d}})
state = {"store": InMemoryGraphStore(), "version_etag": "0"}
wrote = []
for turn in range(1, 6):
    ctx = NS(turn_id=turn, agent_id="A", config=cfg)
    before = set(os.listdir(d))
    apply_changes(ctx, state, T4Result(approved_deltas=[], rejected_ops=[], reasons=[], metrics={}))
    if set(os.listdir(d)) != before or any(os.path.getmtime(os.path.join(d, f)) for f in []):
        wrote.append(turn)
    for f in os.listdir(d):
        os.remove(os.path.join(d, f))
print("cadence 5, dict-shaped ctx.config: snapshots written on turns", wrote, "(expected [5])")
sys.exit(1 if wrote != [5] else 0)
