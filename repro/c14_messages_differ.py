#!/usr/bin/env python
"""Side observation (unchanged code): the API variants do not give the same messages for unusual (string) keys.

validate_config raises ConfigError("\\n".join(errors)); validate_config_api and the compat form
validate_config(cfg, strict=True) rebuild the list with str(e).strip().split("\\n"). A key that starts/ends with
whitespace loses it, and a key containing a newline turns one message into two.

Clause contradicted: "gives the same verdict and messages through all of its API variants"
(quantifier: unknown keys at any level - keys are arbitrary strings). Exit 1 when it shows, 0 otherwise.
"""
import os, sys
sys.path.insert(0, os.getcwd())
from clematis.errors import ConfigError
from configs.validate import validate_config, validate_config_api
from configs import validate as V

bad = 0
for cfg in ({" t5": 1}, {"t4": {"cooldowns": {"x\n": -1}}}, {"a\nb": 1}, {"t1": {"cache": {"ttl\n": 1}}}):
    # ground truth: the list the validator accumulated (count the _err calls)
    truth = []
    orig = V._err
    V._err = lambda errors, path, msg: (truth.append(f"{path} {msg}"), orig(errors, path, msg))[1]
    try:
        validate_config(cfg)
        raised = None
    except ConfigError as e:
        raised = str(e)
    finally:
        V._err = orig
    ok, api_msgs, _ = validate_config_api(cfg)
    compat_msgs, _w = validate_config(cfg, strict=True)
    same = (api_msgs == truth) and (compat_msgs == truth) and (raised == "\n".join(truth))
    print(f"{cfg!r}\n   accumulated: {truth!r}\n   api:         {api_msgs!r}\n   compat:      {compat_msgs!r}\n   same={same}")
    if not same:
        bad += 1
sys.exit(1 if bad else 0)
