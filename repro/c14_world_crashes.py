#!/usr/bin/env python
"""Side observations (unchanged code): two accepted configs under which a turn on a small world raises.

 (a) t1.decay = {mode: attn_quad, alpha: -1}: alpha is coerced to float but has no range check; the stage computes
     1 / (1 + alpha * distance**2) -> ZeroDivisionError at distance 1 (any seeded node with one out-edge).
 (b) t2.exact_recent_days = 1000000 ("huge numbers"): only `>= 0` is checked; InMemoryIndex._filter_recent does
     now - timedelta(days=N) -> OverflowError as soon as the index holds one episode (10**10 overflows timedelta itself).

Clause contradicted: "Every accepted configuration ... the engine can execute turns under it without raising"
(for accepted configs, for all small worlds). Exit 1 when a violation shows, 0 otherwise.
"""
import copy, os, sys, tempfile
sys.path.insert(0, os.getcwd())
from types import SimpleNamespace
from clematis.errors import ConfigError
from configs.validate import validate_config
from clematis.engine.orchestrator.core import Orchestrator
from clematis.graph.store import InMemoryGraphStore, Node, Edge
from clematis.memory.index import InMemoryIndex
from clematis.adapters.embeddings import BGEAdapter


class AD(dict):
    def __getattr__(self, n):
        try:
            return self[n]
        except KeyError as e:
            raise AttributeError(n) from e

    def __setattr__(self, n, v):
        self[n] = v


def to_ad(o):
    if isinstance(o, dict):
        return AD({k: to_ad(v) for k, v in o.items()})
    if isinstance(o, list):
        return [to_ad(v) for v in o]
    return o


def world(with_memories):
    store = InMemoryGraphStore()
    store.ensure("g:surface")
    store.upsert_nodes("g:surface", [Node(id="n:hello", label="hello"), Node(id="n:world", label="world")])
    store.upsert_edges("g:surface", [Edge(id="e:h->w", src="n:hello", dst="n:world", weight=0.8, rel="supports")])
    state = {"store": store, "active_graphs": ["g:surface"], "version_etag": "0"}
    if with_memories:
        idx, enc = InMemoryIndex(), BGEAdapter(dim=32)
        idx.add({"id": "ep1", "owner": "A", "text": "hello there", "ts": "2026-01-01T00:00:00Z",
                 "vec_full": enc.encode(["hello there"])[0], "tags": [], "aux": {}})
        state["mem_index"] = idx
    return state


def run(cfg, with_memories):
    d = tempfile.mkdtemp()
    os.environ["CLEMATIS_LOG_DIR"] = os.path.join(d, "logs")
    c = copy.deepcopy(cfg)
    c.setdefault("t4", {})["snapshot_dir"] = os.path.join(d, "snap")
    norm = validate_config(c)  # ConfigError here would be the correct outcome
    ctx = SimpleNamespace(turn_id="1", agent_id="A", now=None, now_ms=0, cfg=to_ad(norm))
    return Orchestrator().run_turn(ctx, world(with_memories), "hello")


bad = 0
cases = [
    ("control: defaults", {}, True),
    ("t1.decay attn_quad alpha=-1", {"t1": {"decay": {"mode": "attn_quad", "alpha": -1}}}, False),
    ("t2.exact_recent_days=1000000", {"t2": {"exact_recent_days": 1000000}}, True),
    ("t2.exact_recent_days=10**10", {"t2": {"exact_recent_days": 10**10}}, True),
]
for name, cfg, mem in cases:
    try:
        run(cfg, mem)
        print(f"{name}: accepted, turn ran")
    except ConfigError as e:
        print(f"{name}: rejected ({str(e)[:80]}) - fine")
    except Exception as e:  # noqa: BLE001
        print(f"{name}: ACCEPTED, TURN RAISED {type(e).__name__}: {e}")
        bad += 1
sys.exit(1 if bad else 0)
