"""t4_filter with an integer magnitude beyond the double range: float(d.delta) raised OverflowError out of the filter.
Run: cd /repo && PYTHONPATH=/repo /venv/bin/python /verif/repro/c03_huge_int_delta_overflow.py  (exit 1 = defect shows)"""
import sys
from types import SimpleNamespace as NS
from clematis.engine.stages.t4 import t4_filter
from clematis.engine.types import ProposedDelta
ctx = NS(turn_id=10, config=NS(t4={"delta_norm_cap_l2": 1.5, "novelty_cap_per_node": 0.3, "churn_cap_edges": 64}))
try:
    r = t4_filter(ctx, NS(), None, None, {"ops": [], "deltas": [ProposedDelta("node", "n:a", "weight", 10**400), ProposedDelta("node", "n:b", "weight", -(10**400))]}, None)
    print("approved:", [(d.target_id, d.delta) for d in r.approved_deltas])
    sys.exit(0 if [abs(d.delta) for d in r.approved_deltas] == [0.3, 0.3] else 1)
except OverflowError as e:
    print("OverflowError:", e)
    sys.exit(1)
