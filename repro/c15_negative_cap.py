"""A negative capacity makes LRUBytes / LRUCache / CacheManager raise on the first insert (they keep evicting
from an empty container), whereas DedupeRing / DeterministicLRU / DeterministicLRUSet clamp it to 0 = disabled.
Contradicts: 'stay within capacities after every operation ... all capacity settings' / 'act as disabled'."""
import sys
from clematis.engine.cache import LRUCache, CacheManager
from clematis.engine.util.lru_bytes import LRUBytes
from clematis.engine.util.lru_det import DeterministicLRU, DeterministicLRUSet
from clematis.engine.util.ring import DedupeRing

bad = []
for name, fn in [
    ("LRUBytes(max_entries=-1, max_bytes=0).put", lambda: LRUBytes(-1, 0).put("a", 1, 1)),
    ("LRUBytes(max_entries=-1, max_bytes=8).put", lambda: LRUBytes(-1, 8).put("a", 1, 1)),
    ("LRUCache(max_entries=-1).set", lambda: LRUCache(max_entries=-1).set("a", 1)),
    ("CacheManager(max_entries=-1).set", lambda: CacheManager(max_entries=-1).set("ns", ("a",), 1)),
    ("DeterministicLRU(-1).put", lambda: DeterministicLRU(-1).put("a", 1)),
    ("DeterministicLRUSet(-1).add", lambda: DeterministicLRUSet(-1).add("a")),
    ("DedupeRing(-1).add", lambda: DedupeRing(-1).add("a")),
]:
    try:
        fn()
        print("ok       :", name)
    except Exception as e:  # noqa: BLE001
        print("VIOLATION:", name, "raised", type(e).__name__, e)
        bad.append(name)
sys.exit(1 if bad else 0)
