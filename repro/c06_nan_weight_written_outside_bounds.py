"""
Side observation (unchanged code): a NaN edge weight under validator-accepted bounds that exclude 0
(t4.weight_min = 0.2, t4.weight_max = 0.8).

snapshot._clamp lets NaN through (both comparisons are false) and _round6 then turns it into 0.0 - AFTER the clamp.
The body therefore carries weight 0.0, outside [0.2, 0.8]. On load the same pipeline clamps 0.0 to 0.2, so the loaded
graph differs from the written one and the second snapshot differs from the first.
(The GEL's own _clamp got a NaN fix in 93710d3; this sibling in snapshot.py did not.)

exit 1 = violation shows, 0 = not.
"""
import json, os, sys, tempfile
from types import SimpleNamespace

from configs.validate import validate_config_api
from clematis.engine.snapshot import write_snapshot, load_latest_snapshot

d = tempfile.mkdtemp(prefix="c06_obs_nan_")
ok, errs, norm = validate_config_api({"t4": {"weight_min": 0.2, "weight_max": 0.8, "snapshot_dir": d}})
assert ok, errs  # the validator accepts bounds that exclude 0
cfg = {"t4": norm["t4"], "graph": norm.get("graph", {})}
ctx = SimpleNamespace(turn_id=1, agent_id="A", cfg=cfg, config=cfg)

st1 = {"graph": {"nodes": {}, "edges": {"a→b": {"id": "a→b", "src": "a", "dst": "b", "rel": "coact",
                                                  "weight": float("nan"), "updated_at": None, "attrs": {}}},
                 "meta": {}}}
p1 = write_snapshot(ctx, st1, "1")
b1 = open(p1, "rb").read()
w_written = json.loads(b1)["gel"]["edges"]["a→b"]["weight"]

st2 = {}
load_latest_snapshot(ctx, st2)
w_loaded = st2["graph"]["edges"]["a→b"]["weight"]
os.replace(p1, p1 + ".first")
b2 = open(write_snapshot(ctx, st2, st2["version_etag"]), "rb").read()

print("bounds [0.2, 0.8]; written weight:", w_written, "loaded weight:", w_loaded, "bodies equal:", b1 == b2)
bad = (not 0.2 <= w_written <= 0.8) or w_loaded != w_written or b1 != b2
sys.exit(1 if bad else 0)
