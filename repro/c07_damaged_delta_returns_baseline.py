#!/usr/bin/env python
"""
Side observation for C07 against the UNCHANGED checkout (weaker than the other two: the damaged file is the DELTA,
the statement's quantifier names the baseline).

The directory holds a good baseline full "A", a good full "B" and a damaged delta "B" (of "A").

 (i)  delta cut off after its header line: read_snapshot(path=delta) reports absence ({}), the sibling entry point
      read_snapshot(root, etag_to="B") raises ValueError although the full "B" it normally falls back to is there.
 (ii) delta whose body is JSON `null` (or any falsy body): both entry points apply "no delta" to the baseline and
      return the payload of A as the snapshot of B - a state B never had - instead of the full "B" / absence.

Exit 1 when (i) raises or (ii) returns A's payload, 0 otherwise.
"""
import json
import sys
import tempfile

from clematis.engine.snapshot import write_snapshot_auto, read_snapshot

A = {"version_etag": "A", "w": {"x": 1}}
B = {"version_etag": "B", "w": {"x": 2}}
bad = 0
with tempfile.TemporaryDirectory() as d:
    write_snapshot_auto(d, etag_from=None, etag_to="A", payload=A)
    p_delta, was_delta = write_snapshot_auto(d, etag_from="A", etag_to="B", payload=B, delta_mode=True)
    assert was_delta
    write_snapshot_auto(d, etag_from=None, etag_to="B", payload=B)  # a good full B next to it
    header_line = open(p_delta, encoding="utf-8").read().split("\n")[0]

    # (i) torn delta
    with open(p_delta, "w", encoding="utf-8") as f:
        f.write(header_line)
    assert read_snapshot(path=p_delta) == {}
    try:
        got = read_snapshot(root=d, etag_to="B")
        print("(i) etag entry point returned", json.dumps(got, sort_keys=True))
        if got not in ({}, B):
            bad += 1
    except Exception as e:  # noqa: BLE001
        bad += 1
        print(f"(i) read_snapshot(root, etag_to) raises {type(e).__name__}: {e}  (path= entry point returns {{}})")

    # (ii) delta body `null`
    with open(p_delta, "w", encoding="utf-8") as f:
        f.write(header_line + "\nnull")
    for label, kw in (("root/etag_to", dict(root=d, etag_to="B")), ("path", dict(path=p_delta))):
        got = read_snapshot(**kw)
        if got == A:
            bad += 1
            print(f"(ii) read_snapshot({label}) returned the BASELINE payload as snapshot B:", json.dumps(got, sort_keys=True))

sys.exit(1 if bad else 0)
