#!/usr/bin/env python3
"""Side observation (unchanged code): top-level `k_surface` is an allowed key that the validator never
type-checks, but the T2 stage does int(cfg["k_surface"]). An ACCEPTED config therefore crashes a turn.
Exit 1 when the violation shows, 0 otherwise."""
import os, sys, tempfile
ROOT = os.path.dirname(os.path.abspath(__file__))
os.chdir(ROOT); sys.path.insert(0, ROOT)
from clematis.errors import ConfigError
from configs.validate import validate_config
from clematis.engine.orchestrator.core import run_smoke_turn

shown = 0
for ks in ("abc", None, [1], -3):
    with tempfile.TemporaryDirectory() as d:
        cfg = {"k_surface": ks, "t4": {"snapshot_dir": os.path.join(d, "snap")}}
        try:
            validate_config(cfg)
        except ConfigError:
            print(f"k_surface={ks!r}: rejected by validator (fine)")
            continue
        try:
            run_smoke_turn(cfg, log_dir=os.path.join(d, "logs"), input_text="hello world")
            print(f"k_surface={ks!r}: accepted and turn ran (fine)")
        except BaseException as e:  # noqa: BLE001
            shown += 1
            print(f"k_surface={ks!r}: ACCEPTED by validate_config but the turn raised {type(e).__name__}: {e}")
sys.exit(1 if shown else 0)
