"""Side observation: the embed-store reader path (perf.enabled + perf.t2.reader.partitions.enabled
with a store on disk) ranks every stored vector and never applies t2.sim_threshold (nor any tier rule).

Clause contradicted: "every one ... meeting the similarity threshold".

exit 1 when the violation shows, 0 otherwise.
"""
from __future__ import annotations

import sys
import tempfile
from pathlib import Path

import numpy as np

from clematis.engine.stages.t2 import t2_semantic
from clematis.engine.util.embed_store import write_shard

THRESH = 0.9


class _Enc:
    dim = 4

    def encode(self, texts):
        return [np.asarray([1.0, 0.0, 0.0, 0.0], dtype=np.float32) for _ in texts]


def main() -> int:
    with tempfile.TemporaryDirectory() as td:
        root = Path(td) / "t2"
        ids = ["hit", "orthogonal", "opposite"]
        vecs = np.asarray([[1, 0, 0, 0], [0, 1, 0, 0], [-1, 0, 0, 0]], dtype=np.float32)
        write_shard(root / "A" / "2025Q3", ids, vecs, dtype="fp32", precompute_norms=True)
        eps = [
            {"id": i, "owner": "A", "text": f"text {i}", "ts": "2025-08-20T00:00:00Z", "vec_full": v}
            for i, v in zip(ids, vecs)
        ]
        index = type("Idx", (), {})()
        index._eps = eps
        index.index_version = lambda: 1
        parts = {"enabled": True, "layout": "owner_quarter", "path": str(root)}
        cfg = {
            "perf": {"enabled": True, "metrics": {}, "t2": {"reader": {"partitions": parts}}},
            "t2": {
                "embed_root": str(root),
                "k_retrieval": 10,
                "sim_threshold": THRESH,
                "owner_scope": "any",
                "cache": {"enabled": False},
            },
        }
        ctx = type("Ctx", (), {})()
        ctx.cfg = cfg
        ctx.now = "2025-09-01T00:00:00Z"
        ctx.enc = _Enc()
        state = {"mem_index": index, "mem_backend": "inmemory"}
        res = t2_semantic(ctx, state, "q", None)
        got = [(h.id, round(float(h.score), 3)) for h in res.retrieved]
        print("tier_sequence:", res.metrics.get("tier_sequence"))
        print("sim_threshold:", THRESH, "returned:", got)
        if res.metrics.get("tier_sequence") != ["embed_store"]:
            print("reader path not taken; nothing observed")
            return 0
        below = [g for g in got if g[1] < THRESH]
        if below:
            print("VIOLATION: hits below the similarity threshold:", below)
            return 1
    return 0


if __name__ == "__main__":
    sys.exit(main())
