"""Side observation (unchanged code): with the real stage pipeline the batch driver cannot run a turn
that has an active graph.

run_turn's dry-run stash records t1.metrics["graphs_touched"], which the real T1 reports as a COUNT (int);
_run_turn_compute does set(t1_info.get("graphs_touched", []) or []), i.e. set(1) -> TypeError, whenever
state.active_graphs is non-empty.  The same turns run one after another complete normally.
(The state is prepared the way the read-only snapshot needs it: attribute access, boot hook done,
cache manager and memory index present, T3 off.)

Exit 1 when the sequential loop completes and the batch driver raises.
"""
import os
import sys
import tempfile
from dataclasses import asdict
from types import SimpleNamespace as SNS

import clematis.io.paths as paths
from clematis.engine import orchestrator as orch
from clematis.engine.cache import CacheManager
from clematis.engine.types import Config
from clematis.graph.store import InMemoryGraphStore, Node, Edge
from clematis.memory.index import InMemoryIndex

os.environ["CI"] = "true"


class St(dict):
    def __getattr__(self, k):
        try:
            return self[k]
        except KeyError:
            raise AttributeError(k)

    def __setattr__(self, k, v):
        self[k] = v


def make_state():
    store = InMemoryGraphStore()
    store.ensure("g:surface")
    store.upsert_nodes("g:surface", [Node(id="n:hello", label="hello"), Node(id="n:world", label="world")])
    store.upsert_edges("g:surface", [Edge(id="e1", src="n:hello", dst="n:world", weight=0.8, rel="supports")])
    return St(store=store, active_graphs=["g:surface"], graphs_by_agent={"A": ["gA"], "B": ["gB"]},
              _boot_loaded=True, _cache_mgr=CacheManager(max_entries=64, ttl_sec=600),
              mem_index=InMemoryIndex(), mem_backend="inmemory")


def run(parallel, d):
    paths.logs_dir = lambda: d
    cfg = SNS(**asdict(Config()))
    cfg.perf = {"enabled": True, "parallel": {"enabled": parallel, "agents": parallel, "max_workers": 4 if parallel else 1}}
    cfg.t3 = dict(cfg.t3, enabled=False)
    cfg.t4 = dict(cfg.t4, snapshot_dir=os.path.join(d, "snaps"))
    ctx = SNS(cfg=cfg, config=cfg, turn_id=5, now="2026-01-01T00:00:00+00:00", now_ms=1767225600000)
    try:
        res = orch._run_agents_parallel_batch(ctx, make_state(), [("A", "hello"), ("B", "nothing matches")])
        return "ok: %d results" % len(res)
    except Exception as exc:  # noqa: BLE001
        return "%s: %s" % (type(exc).__name__, exc)


with tempfile.TemporaryDirectory() as a, tempfile.TemporaryDirectory() as b:
    seq = run(False, a)
    par = run(True, b)
print("sequential:", seq)
print("batch     :", par)
sys.exit(1 if (seq.startswith("ok") and not par.startswith("ok")) else 0)
