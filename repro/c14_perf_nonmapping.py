#!/usr/bin/env python
"""Side observation (unchanged code): a non-mapping `perf` section is accepted verbatim, and the first turn raises.

Clause contradicted: "Every accepted configuration ... the engine can execute turns under it without raising"
(quantifier: arbitrary leaf values / wrong types at any level of the v1 key tree).
`raw_perf = _ensure_dict(cfg.get("perf"))` is {} for a non-mapping, so the whole `if raw_perf:` normalisation is
skipped and merged["perf"] keeps the user's scalar/list; util.metrics.gate_on then does perf.get(...).
Exit 1 when the violation shows, 0 otherwise.
"""
import os, sys, tempfile
sys.path.insert(0, os.getcwd())
from clematis.errors import ConfigError
from configs.validate import validate_config
from clematis.engine.orchestrator.core import run_smoke_turn

bad = 0
for perf in (5, "on", [1], True):
    cfg = {"perf": perf}
    try:
        norm = validate_config(cfg)
    except ConfigError as e:
        print(f"perf={perf!r}: rejected ({e}) - fine")
        continue
    print(f"perf={perf!r}: ACCEPTED, normalised perf={norm.get('perf')!r}")
    d = tempfile.mkdtemp()
    try:
        run_smoke_turn({"perf": perf, "t4": {"snapshot_dir": os.path.join(d, "snap")}}, log_dir=os.path.join(d, "logs"), input_text="hello")
        print("   turn ran")
    except Exception as e:  # noqa: BLE001
        print(f"   TURN RAISED {type(e).__name__}: {e}")
        bad += 1
sys.exit(1 if bad else 0)
