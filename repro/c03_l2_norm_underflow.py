#!/usr/bin/env python
"""
Side observation (unchanged checkout): the L2 norm is computed as sqrt(sum(d*d)).
For deltas below ~1.5e-162 every square underflows to 0.0, the norm comes out as
0.0 and the "norm <= cap" early return skips the scaling although the true norm
is far above a (validator-accepted) tiny delta_norm_cap_l2.

Exit 1 when the approved vector is longer than the cap, 0 otherwise.
"""
import sys
from types import SimpleNamespace

from configs.validate import validate_config
from clematis.engine.stages.t4 import t4_filter
from clematis.engine.types import ProposedDelta

CAP = 1e-200
cfg = validate_config({"t4": {"delta_norm_cap_l2": CAP, "novelty_cap_per_node": 0.3}})
assert cfg["t4"]["delta_norm_cap_l2"] == CAP  # accepted by the validator
ctx = SimpleNamespace(turn_id=1, config=SimpleNamespace(t4=dict(cfg["t4"])))
state = SimpleNamespace(meta=SimpleNamespace(cooldowns={}))

deltas = [
    ProposedDelta(target_kind="node", target_id=f"n:{i}", attr="weight", delta=1e-170, op_idx=0)
    for i in range(4)
]
res = t4_filter(ctx, state, None, None, {"ops": [{"kind": "EditGraph"}], "deltas": deltas}, None)
mags = [abs(d.delta) for d in res.approved_deltas]
print("cap_l2 =", CAP, " approved magnitudes =", mags, " l2_scale =", res.metrics["clamps"]["l2_scale"])
# every single component is already 1e30 times the cap, so the vector norm certainly is
if mags and max(mags) > CAP:
    print("VIOLATION: approved delta vector exceeds delta_norm_cap_l2 (squares underflowed to 0)")
    sys.exit(1)
print("ok")
sys.exit(0)
