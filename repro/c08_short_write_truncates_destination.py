"""Side observation (unchanged checkout): atomic_write_bytes ignores short writes.

The temp file is opened with buffering=0 (raw FileIO) and the return value of
f.write(data) is dropped.  A raw write may legitimately store fewer bytes than
asked without raising (disk nearly full, file-size limit, >2 GiB payloads, a
signal).  The truncated temp file is then fsynced and os.replace()d over the
destination, which ends up holding neither the old nor the new content while
the writer reports success.

The short write is produced here by the kernel itself (RLIMIT_FSIZE; CPython
ignores SIGXFSZ, so write(2) returns the partial count exactly as it does for
the last write that fits on a full disk).  No clematis code is patched.

Exit 1 when the violation shows, 0 otherwise.
"""
import os
import resource
import sys
import tempfile
from pathlib import Path

sys.path.insert(0, os.getcwd())
from clematis.io.atomic import atomic_write_bytes  # noqa: E402

LIMIT = 4096


def main() -> int:
    d = Path(tempfile.mkdtemp(prefix="c08_short_"))
    dest = d / "snap_000001.json"
    old = b'{"old":true}\n'
    dest.write_bytes(old)
    new = b'{"k":"' + b"x" * 20000 + b'"}\n'

    soft, hard = resource.getrlimit(resource.RLIMIT_FSIZE)
    resource.setrlimit(resource.RLIMIT_FSIZE, (LIMIT, hard))
    err = None
    try:
        atomic_write_bytes(dest, new)
    except BaseException as e:  # a raising writer would be acceptable
        err = e
    finally:
        resource.setrlimit(resource.RLIMIT_FSIZE, (soft, hard))

    got = dest.read_bytes()
    leftovers = [p.name for p in d.iterdir() if p.name != dest.name and not p.name.endswith(".meta")]
    print(f"writer raised: {err!r}")
    print(f"destination size: {len(got)} (old={len(old)}, new={len(new)})")
    print(f"leftover temp files: {leftovers}")
    if got in (old, new) and not leftovers:
        print("OK: destination holds complete old or complete new content")
        return 0
    print("VIOLATION: destination holds a truncated file that is neither old nor new")
    return 1


if __name__ == "__main__":
    sys.exit(main())
