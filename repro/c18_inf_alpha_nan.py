"""Side observation (unchanged code): graph.update.alpha = inf is accepted by the validator
("must be > 0" only). In proportional mode the increment is alpha * (1 - min(|w|, 1)); once the
edge sits at |w| >= 1 that is inf * 0 = NaN, _clamp lets NaN through, and the weight becomes NaN:
outside [clamp_min, clamp_max]. tick then multiplies NaN and `abs(NaN) < floor` is False, so the
edge is never dropped either, whatever the floor.
Exit 1 when a weight leaves the clamp bounds.
"""
import math, sys
from configs.validate import validate_config_verbose
from clematis.engine import gel


class S:
    pass


raw = {"graph": {"enabled": True,
                 "update": {"mode": "proportional", "alpha": float("inf"), "clamp_min": -1.0, "clamp_max": 1.0},
                 "decay": {"half_life_turns": 1, "floor": 0.05}}}
cfg, _warnings = validate_config_verbose(raw)   # raises if the validator rejects the config
print("validator accepted update =", cfg["graph"]["update"])
ctx = {"graph": cfg["graph"]}
s = S()
ws = []
for _ in range(2):
    gel.observe_retrieval(ctx, s, [("a", .9), ("b", .8)])
    ws.append(s.graph["edges"]["a→b"]["weight"])
m = gel.tick(ctx, s, decay_dt=50)
w = s.graph["edges"].get("a→b", {}).get("weight")
print("weights after observe 1, 2:", ws, "| after tick(50):", w, "| dropped:", m["dropped_edges"])
lo, hi = cfg["graph"]["update"]["clamp_min"], cfg["graph"]["update"]["clamp_max"]
bad = [x for x in ws + ([w] if w is not None else []) if not (lo <= x <= hi)]
sys.exit(1 if bad else 0)
