#!/usr/bin/env python
"""Side observation (UNCHANGED code): a logical clock that Python's datetime.fromisoformat does not read - RFC 3339
allows lower-case "t"/"z" ("2024-06-01t00:00:00z"); a trailing newline or blank has the same effect - is not
rejected: T2 (clematis/engine/stages/t2/helpers.py:parse_iso with no default, clematis/memory/index.py:
_search_with_episodes -> _parse_iso(now)) silently falls back to datetime.now().  The recent-window filter and the
recency term of the combined score are then computed against the WALL clock, so two replays of the same turn (same
world, same ctx.now / now_ms, same validated config with t2.ranking.beta_recency > 0) a moment apart give different
score_stats in t2.jsonl (and, across a day boundary, a different exact_semantic window).  With the same
instant written as "2024-06-01T00:00:00Z" the replays are byte-identical.

exit 1 = violation shown, 0 = not shown.
"""
from __future__ import annotations

import datetime as dt
import json
import os
import subprocess
import sys
import tempfile
import time

ROOT = "/repo"


def child(now_str: str, ep_ts: str, wd: str) -> None:
    os.environ["CI"] = "true"
    sys.path.insert(0, ROOT)
    logs, snaps = os.path.join(wd, "logs"), os.path.join(wd, "snaps")
    os.makedirs(logs)
    os.makedirs(snaps)
    os.environ["CLEMATIS_LOG_DIR"] = logs
    os.environ["CLEMATIS_SNAPSHOT_DIR"] = snaps

    from types import SimpleNamespace as SNS
    from configs.validate import validate_config
    from clematis.adapters.embeddings import BGEAdapter
    from clematis.engine.orchestrator import Orchestrator
    from clematis.graph.store import InMemoryGraphStore, Node
    from clematis.memory.index import InMemoryIndex

    class AttrDict(dict):
        __getattr__ = dict.__getitem__

    def attr(o):
        return AttrDict({k: attr(v) for k, v in o.items()}) if isinstance(o, dict) else o

    cfg = attr(validate_config({"t4": {"snapshot_dir": snaps},
                                "t2": {"sim_threshold": -1.0,
                                       "ranking": {"alpha_sim": 0.75, "beta_recency": 0.2, "gamma_importance": 0.05}}}))
    enc = BGEAdapter(dim=32)
    store = InMemoryGraphStore()
    store.upsert_nodes("g:surface", [Node(id="n:hello", label="hello")])
    idx = InMemoryIndex()
    for i, t in enumerate(["hello there", "a note about tea", "the world is wide"]):
        idx.add({"id": f"ep{i}", "owner": "world", "text": t, "ts": ep_ts, "vec_full": enc.encode([t])[0]})
    state = {"store": store, "active_graphs": ["g:surface"], "mem_index": idx, "mem_backend": "inmemory",
             "version_etag": "0"}
    ctx = SNS(turn_id=1, agent_id="A", now=now_str, now_ms=1_717_200_000_000, cfg=cfg, config=cfg)
    line = Orchestrator().run_turn(ctx, state, "hello").line
    t2 = open(os.path.join(logs, "t2.jsonl"), encoding="utf-8").read()
    print("RESULT " + json.dumps({"utter": line, "t2": t2}))


def run(now_str: str, ep_ts: str) -> dict:
    with tempfile.TemporaryDirectory() as wd:
        p = subprocess.run([sys.executable, os.path.abspath(__file__), "--child", now_str, ep_ts, wd], cwd=ROOT,
                           env=dict(os.environ, PYTHONPATH=ROOT, PYTHONHASHSEED="0"), capture_output=True, text=True)
        if p.returncode:
            print(p.stdout, p.stderr)
            raise SystemExit(2)
        return json.loads([l for l in p.stdout.splitlines() if l.startswith("RESULT ")][-1][7:])


if __name__ == "__main__":
    if len(sys.argv) > 1 and sys.argv[1] == "--child":
        child(sys.argv[2], sys.argv[3], sys.argv[4])
        sys.exit(0)
    # the world is fixed before the replays start; its episodes are a few days old on the machine's calendar so that
    # the wall clock, once it leaks in, lands inside the 365-day recency horizon
    ep_ts = (dt.datetime.now(dt.timezone.utc) - dt.timedelta(days=3)).strftime("%Y-%m-%dT%H:%M:%SZ")
    shown = False
    for label, now_str in (("upper-case ISO", "2024-06-01T00:00:00Z"), ("RFC 3339 lower-case", "2024-06-01t00:00:00z")):
        a = run(now_str, ep_ts)
        time.sleep(0.3)
        b = run(now_str, ep_ts)
        same = a == b
        print(f"{label:20s} now={now_str!r}: replays identical: {same}")
        if not same:
            sa = json.loads(a["t2"].splitlines()[0])["score_stats"]
            sb = json.loads(b["t2"].splitlines()[0])["score_stats"]
            print("    t2.jsonl score_stats:", sa, "vs", sb)
            if now_str.endswith("z"):
                shown = True
    if shown:
        print("VIOLATION: with a lower-case RFC 3339 logical clock the T2 scores follow the wall clock")
        sys.exit(1)
    print("not shown")
    sys.exit(0)
