"""The hybrid reranker filled its defaults into the caller's t2.hybrid section in place: after a fresh T2 computation the
configuration had 10 keys in that section, after a cache hit (the reranker is skipped) still 1.
Run: cd /repo && PYTHONPATH=/repo /venv/bin/python /verif/repro/c05_hybrid_cfg_completed_in_place.py  (exit 1 = defect shows)"""
import sys
from types import SimpleNamespace as NS
from clematis.engine.stages.hybrid import rerank_with_gel
cfg = {"t2": {"hybrid": {"enabled": True}}}
ctx = NS(cfg=cfg, config=cfg)
state = NS(graph={"nodes": {}, "edges": {"a→c": {"src": "a", "dst": "c", "weight": 0.9}}})
rerank_with_gel(ctx, state, [("a", 0.9), ("b", 0.8), ("c", 0.79)])
print("t2.hybrid after a fresh rerank:", cfg["t2"]["hybrid"])
sys.exit(1 if cfg["t2"]["hybrid"] != {"enabled": True} else 0)
