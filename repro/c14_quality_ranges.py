#!/usr/bin/env python
"""Side observation (unchanged code): t2.quality numeric knobs are accepted outside the ranges the validator itself
documents. The range checks in the quality block run against a freshly created dict holding only the defaults
(`lex = q.setdefault("lexical", {})`, `fus = q.setdefault("fusion", {})`), never against the user's values, which are
then copied in with a bare _coerce_float:
  fusion.alpha_semantic  ("must be a number in [0,1]")           -> 9 accepted (verbose only *warns* "expected in [0,1]")
  lexical.bm25.b / k1    ("number in [0,1]" / ">= 0")            -> 7 / -5 accepted
  lexical.bm25_k1 / bm25_b (flat keys, allowed)                  -> silently dropped from the normalised config

Clause contradicted: "Every accepted configuration satisfies the documented ranges and enumerations".
Exit 1 when it shows, 0 otherwise.
"""
import os, sys
sys.path.insert(0, os.getcwd())
from clematis.errors import ConfigError
from configs.validate import validate_config_verbose

cfg = {"perf": {"enabled": True, "metrics": {"report_memory": True}},
       "t2": {"quality": {"enabled": True, "fusion": {"alpha_semantic": 9},
                          "lexical": {"bm25": {"k1": -5, "b": 7}, "bm25_k1": -1, "bm25_b": 3}}}}
try:
    norm, warns = validate_config_verbose(cfg)
except ConfigError as e:
    print("rejected:", e)
    sys.exit(0)
q = norm["t2"]["quality"]
print("ACCEPTED; normalised fusion =", q.get("fusion"), " lexical =", q.get("lexical"))
print("warnings:", [w for w in warns if "alpha" in w])
bad = not (0.0 <= q["fusion"]["alpha_semantic"] <= 1.0) or not (0.0 <= q["lexical"]["bm25"]["b"] <= 1.0) or q["lexical"]["bm25"]["k1"] < 0
sys.exit(1 if bad else 0)
