#!/usr/bin/env python3
"""Side observation (UNCHANGED code): the sibling JSONL writers did not get the lone-surrogate treatment of
clematis/io/log.py (fix 972f47d) and lose records.

* observability_perf.write_perf_jsonl_many(): a record with a lone surrogate in the middle of a batch raises
  UnicodeEncodeError when the text file is flushed; the records BEFORE it are on disk, the healthy records AFTER
  it are lost (the main append path writes such a record as its JSON escape and goes on).
* observability_perf.write_perf_jsonl(): the record is not written, the call raises.
* stages/t2/quality_trace.emit_trace() (redact off): the trace record is silently dropped (the writer swallows
  the error after a one-time warning) - rq_traces.jsonl stays empty.

Clause contradicted: "Every record appended to a JSONL stream appears as exactly one complete LF-terminated JSON
line ... for all record shapes (unicode ...)" - for the perf/*.jsonl and rq_traces.jsonl streams.
Exit 1 = violation shown, 0 = not shown.
"""
import json
import logging
import os
import sys
import tempfile
from pathlib import Path

sys.path.insert(0, "/repo")
logging.disable(logging.CRITICAL)

from clematis.engine.observability_perf import write_perf_jsonl, write_perf_jsonl_many  # noqa: E402
from clematis.engine.stages.t2.quality_trace import emit_trace  # noqa: E402
from clematis.io.log import append_jsonl  # noqa: E402

d = Path(tempfile.mkdtemp(prefix="obs_c16_"))
os.environ["CLEMATIS_LOG_DIR"] = str(d / "main")
recs = [{"i": 0, "s": "ok"}, {"i": 1, "s": "undecodable byte \udc80"}, {"i": 2, "s": "ok"}]


def ids(p: Path):
    return [json.loads(x)["i"] for x in p.read_text(encoding="utf-8").splitlines()] if p.exists() else []


# reference: the main append path keeps all three
for r in recs:
    append_jsonl("ref.jsonl", r)
ref = ids(d / "main" / "ref.jsonl")
print("io.log.append_jsonl           ->", ref)

bad = False
try:
    write_perf_jsonl_many(d, "many", recs)
    err = None
except Exception as ex:  # noqa: BLE001
    err = type(ex).__name__
got = ids(d / "perf" / "many.jsonl")
print("write_perf_jsonl_many         ->", got, "raised:", err)
if 2 not in got:
    print("VIOLATION: the healthy record after the surrogate one is lost")
    bad = True

got1 = []
for r in recs:
    try:
        write_perf_jsonl(d, "single", r)
    except Exception:  # noqa: BLE001
        pass
got1 = ids(d / "perf" / "single.jsonl")
print("write_perf_jsonl (one by one) ->", got1)
if 1 not in got1:
    print("VIOLATION: the surrogate record cannot be written to a perf stream")
    bad = True

cfg = {"perf": {"enabled": True}, "t2": {"quality": {"enabled": True, "redact": False, "trace_dir": str(d / "q")}}}
emit_trace(cfg, "hello", [{"id": "e1", "text": "undecodable byte \udc80"}], {})
q = d / "q" / "rq_traces.jsonl"
n = len(q.read_text(encoding="utf-8").splitlines()) if q.exists() else 0
print("emit_trace lines written      ->", n)
if n != 1:
    print("VIOLATION: the trace record was dropped silently")
    bad = True
sys.exit(1 if (bad and ref == [0, 1, 2]) else 0)
