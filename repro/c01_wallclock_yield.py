"""Reproduction (documentation only): with the scheduler enabled the turn yields when elapsed *wall* time reaches
quantum_ms (default 20 ms) / wall_ms, so the same turn on the same world and logical clock produces a different
turn.jsonl record (yielded / yield_reason) and a different utterance on a slower machine.
Usage: cd /repo && CI=true PYTHONPATH=/repo /venv/bin/python <this> [--reflection]"""
import json, os, sys, tempfile, time
os.environ["CI"] = "true"
work = tempfile.mkdtemp(prefix="c01yield_")
os.environ["CLEMATIS_LOG_DIR"] = os.path.join(work, "logs")
from clematis.engine.types import TurnCtx, Config, Node, Edge
from clematis.engine.orchestrator import Orchestrator
import clematis.engine.orchestrator.core as core
from clematis.graph.store import InMemoryGraphStore
from clematis.memory.index import InMemoryIndex

NOW = "2025-03-01T12:00:00+00:00"
real_pc = time.perf_counter


def replay(tag, speed):
    """speed: multiplier applied to the perf counter (a 'slower machine')"""
    class T:
        perf_counter = staticmethod(lambda: real_pc() * speed)
        time = staticmethod(time.time)
    core.time = T
    try:
        cfg = Config()
        cfg.t4["snapshot_dir"] = os.path.join(work, "snap_" + tag)
        cfg.scheduler = {"enabled": True, "policy": "round_robin", "quantum_ms": 20, "budgets": {}, "fairness": {}}
        store = InMemoryGraphStore()
        store.upsert_nodes("g", [Node(id="n:a", label="garden"), Node(id="n:b", label="rose")])
        store.upsert_edges("g", [Edge(id="e1", src="n:a", dst="n:b", weight=0.9, rel="supports")])
        state = {"store": store, "active_graphs": ["g"], "mem_index": InMemoryIndex(), "mem_backend": "inmemory", "_boot_loaded": True}
        p = os.path.join(os.environ["CLEMATIS_LOG_DIR"], "turn.jsonl")
        before = len(open(p).read().splitlines()) if os.path.exists(p) else 0
        res = Orchestrator().run_turn(TurnCtx(turn_id=1, agent_id="A", scene_tags=[], now=NOW, cfg=cfg), state, "tell me about the garden")
        return res.line, open(p).read().splitlines()[before:]
    finally:
        core.time = time


(la, a), (lb, b) = replay("fast", 1.0), replay("slow", 100000.0)
print("fast:", repr(la), [json.loads(x).get("yield_reason") for x in a])
print("slow:", repr(lb), [json.loads(x).get("yield_reason") for x in b])
same = (la, a) == (lb, b)
print("IDENTICAL" if same else "DIFFERENT")
sys.exit(0 if same else 1)
