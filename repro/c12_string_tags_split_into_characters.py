"""A node whose attrs["tags"] is a plain string is seeded by every single character of that string.

Clause: "seeds exactly the nodes whose label or tag occurs in the input text".
_t1_one_graph does list(attrs.get("tags", [])); list("zebra") is ['z','e','b','r','a'], so the text "a" seeds the
node although neither its label nor its tag "zebra" occurs in the text.
"""
import copy, sys
from clematis.engine.types import Config
from clematis.graph.store import InMemoryGraphStore, Node
from clematis.engine.stages.t1 import t1_propagate

cfg = Config()
cfg.t1 = copy.deepcopy(cfg.t1)
cfg.t1["cache"] = {"enabled": False}
s = InMemoryGraphStore()
s.upsert_nodes("g", [Node(id="n1", label="stripes", attrs={"tags": "zebra"})])
ctx = type("Ctx", (), {"cfg": cfg})()
r = t1_propagate(ctx, {"store": s, "active_graphs": ["g"]}, "a")
ids = [d["id"] for d in r.graph_deltas]
print("text 'a' ->", ids)
if ids == ["n1"]:
    print("VIOLATION: node seeded although neither 'stripes' nor 'zebra' occurs in the text 'a'")
    sys.exit(1)
sys.exit(0)
