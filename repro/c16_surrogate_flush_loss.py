#!/usr/bin/env python3
"""Side observation (unchanged code): one record whose text holds a lone surrogate (what Python
produces for undecodable bytes read with errors="surrogateescape", e.g. argv / stdin) makes the
single binary append raise UnicodeEncodeError at `.encode("utf-8")`. On the agent-parallel path
that happens inside the final `for rec in stager.drain_sorted(): _append_unbuffered(...)` loop of
clematis/engine/orchestrator/parallel.py: drain_sorted() has already emptied the stager, so every
record sorted after the bad one - including the complete, well-formed records of OTHER agents and
the apply.jsonl records of changes that were already applied - is lost.

Clause contradicted: "Every record appended to a JSONL stream appears as exactly one complete
LF-terminated JSON line" (quantified over "all record shapes and sizes (unicode, ...)"), and the
staged-flush clause (the staged records are not flushed at all).

Uses the real _run_agents_parallel_batch, LogStager and _append_jsonl_unbuffered; only the compute
phase and apply_changes are stubbed (same scaffolding as tests/engine/test_orchestrator_backpressure.py).

Exit 1 when the violation shows, 0 otherwise.
"""
from __future__ import annotations

import json
import os
import sys
import tempfile
from types import SimpleNamespace as SNS

d = tempfile.mkdtemp(prefix="c16_obs_surr_")
os.environ["CLEMATIS_LOG_DIR"] = d
os.environ.pop("CI", None)

from clematis.engine import orchestrator as orch  # noqa: E402
from tests.helpers.configs import make_cfg_par  # noqa: E402
from tests.helpers.world import make_state_disjoint  # noqa: E402

BAD = os.fsdecode(b"caf\xe9")  # 'caf\udce9' - an ordinary str as far as Python is concerned


def fake_compute(ctx, base, agent_id, text):
    said = BAD if agent_id == "A" else "hello"
    return {
        "turn_id": 7,
        "slice_idx": 0,
        "agent_id": agent_id,
        "logs": [
            ("t1.jsonl", {"turn": 7, "agent": agent_id, "pops": 1}),
            ("t3_dialogue.jsonl", {"turn": 7, "agent": agent_id, "utter": said}),
            ("t4.jsonl", {"turn": 7, "agent": agent_id, "approved": 0}),
            ("turn.jsonl", {"turn": 7, "agent": agent_id}),
        ],
        "deltas": [],
        "dialogue": "ok",
        "graphs_touched": set(),
        "graph_versions": {},
    }


def fake_apply(ctx, state, t4_like):
    return SNS(applied=0, clamps=0, version_etag="e", snapshot_path="s", metrics={"cache_invalidations": 0})


orch._run_turn_compute = fake_compute
orch.apply_changes = fake_apply
orch._make_readonly_snapshot = lambda state: state

ctx = SNS(cfg=make_cfg_par(2), turn_id=7)
state = make_state_disjoint(2)
A, B = list(state["agents"].keys())[:2]
assert A == "A", A

err = None
try:
    orch._run_agents_parallel_batch(ctx, state, [(A, "x"), (B, "y")])
except Exception as e:  # noqa: BLE001
    err = e


def count(name):
    p = os.path.join(d, name)
    if not os.path.exists(p):
        return 0
    return sum(1 for ln in open(p, "rb").read().split(b"\n") if ln and json.loads(ln) is not None)


appended = {"t1.jsonl": 2, "t3_dialogue.jsonl": 2, "t4.jsonl": 2, "apply.jsonl": 2, "turn.jsonl": 2}
on_disk = {k: count(k) for k in appended}
print("batch raised:", repr(err))
print("records staged per stream:", appended)
print("records on disk per stream:", on_disk)
lost_other = {k: appended[k] - on_disk[k] for k in appended if k != "t3_dialogue.jsonl" and on_disk[k] < appended[k]}
if lost_other:
    print("VIOLATION: well-formed records of other streams/agents were dropped:", lost_other)
    sys.exit(1)
sys.exit(0)
