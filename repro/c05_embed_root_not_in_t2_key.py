"""
Side observation (UNCHANGED code): on the embed-store reader path (perf.enabled + perf.t2.reader.partitions.enabled)
the T2 stage cache key records only {dtype, layout, shard count} of the store, not WHICH store is read
(t2.embed_root / partitions.path).  History: turn(cfg with embed_root=A) ; turn(cfg with embed_root=B), same
state and text, the two stores having the same shape but different vectors.  With the stage cache on, the
second turn is served the scores and ranking computed from store A.

Contradicts: "for every history of turns interleaved with ... configuration changes, stage results with
caches on equal the results with caches off".
Exit 1 when the violation shows, 0 otherwise.
"""
import sys
import tempfile
from pathlib import Path

import numpy as np

from clematis.engine.types import Config
from clematis.graph.store import InMemoryGraphStore, Node
from clematis.memory.index import InMemoryIndex
from clematis.engine.stages.t2.core import t2_semantic
from clematis.engine.util.embed_store import write_shard
from clematis.adapters.embeddings import BGEAdapter

NOW = "2025-06-01T00:00:00Z"
TEXT = "tell me"
enc = BGEAdapter(dim=32)
q = enc.encode([TEXT])[0].astype(np.float64)
q /= np.linalg.norm(q)
r = np.random.default_rng(1).normal(size=q.shape)
r -= r.dot(q) * q
r /= np.linalg.norm(r)


def vec(c):
    return (c * q + np.sqrt(1 - c * c) * r).astype(np.float32)


class T1:
    graph_deltas: list = []


def replay(cache_on, roots):
    store = InMemoryGraphStore()
    store.upsert_nodes("g", [Node(id="n:x", label="zzz")])
    idx = InMemoryIndex()
    for eid in ("ep0", "ep1"):
        idx.add({"id": eid, "owner": "A", "text": eid, "ts": "2025-05-30T00:00:00Z", "vec_full": vec(0.5), "aux": {}})
    state = {"store": store, "active_graphs": ["g"], "mem_index": idx}
    out = []
    for root in roots:
        cfg = Config()
        cfg.t2["cache"] = {"enabled": cache_on, "max_entries": 64, "ttl_s": 3600}
        cfg.t2["embed_root"] = str(root)
        cfg.perf = {"enabled": True, "t2": {"reader": {"partitions": {"enabled": True, "layout": "none"}}}}
        ctx = type("Ctx", (), {"cfg": cfg, "turn_id": "t", "agent_id": "A", "now": NOW})()
        res = t2_semantic(ctx, state, TEXT, T1())
        out.append([(x.id, round(float(x.score), 3)) for x in res.retrieved])
    return out


with tempfile.TemporaryDirectory() as td:
    a, b = Path(td) / "storeA", Path(td) / "storeB"
    write_shard(a, ["ep0", "ep1"], np.stack([vec(0.9), vec(0.2)]))
    write_shard(b, ["ep0", "ep1"], np.stack([vec(0.2), vec(0.9)]))
    on = replay(True, [a, b])
    off = replay(False, [a, b])

print("caches ON  [turn root=A, turn root=B]:", on)
print("caches OFF [turn root=A, turn root=B]:", off)
if on != off:
    print("VIOLATION: the turn configured with embed_root=B was served store A's cached retrieval")
    sys.exit(1)
sys.exit(0)
