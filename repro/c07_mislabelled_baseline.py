#!/usr/bin/env python
"""
Side observation (unchanged code): the baseline is looked up by FILE NAME only; its own header is not compared with
the delta's delta_of.

A full snapshot of another version stored under the baseline's name (restore of the wrong backup, copy with a
rename) is a corrupt baseline whose header says so ('etag_to' != delta_of), yet reader and boot loader apply the
delta to it and return a state that never existed, without any warning, even though the sibling full snapshot of
the requested version is present.

Exit 1 when the violation shows, 0 otherwise.
"""
import shutil
import sys
import tempfile

from clematis.engine.snapshot import read_snapshot, write_snapshot_auto

E0 = {"store": {"w": {"a": 0, "b": 0, "z": 9}}}
E1 = {"store": {"w": {"a": 1, "b": 2}}}
E2 = {"store": {"w": {"a": 1, "b": 3}}}

with tempfile.TemporaryDirectory() as d:
    p0, _ = write_snapshot_auto(d, etag_from=None, etag_to="E0", payload=E0)
    p1, _ = write_snapshot_auto(d, etag_from=None, etag_to="E1", payload=E1)
    p2, wd = write_snapshot_auto(d, etag_from="E1", etag_to="E2", payload=E2, delta_mode=True)
    assert wd
    write_snapshot_auto(d, etag_from=None, etag_to="E2", payload=E2)  # sibling full of the requested version
    shutil.copyfile(p0, p1)  # snapshot-E1.full.json now holds E0 (its header says etag_to=E0)
    got = read_snapshot(root=d, etag_to="E2")
    print("read back:", got)
    if got in (E2, {}):
        print("OK")
        sys.exit(0)
    print("VIOLATION: delta applied to a baseline whose header names another version (E0, wanted E1); expected", E2)
    sys.exit(1)
