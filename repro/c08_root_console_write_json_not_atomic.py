#!/usr/bin/env python3
"""
Side observation (unchanged checkout): scripts/console.py - the source-checkout copy of the console, used by
`python scripts/console.py step --out run.json`, by scripts/chat.py and as the fallback of clematis/cli/console.py -
still writes its JSON export straight onto the final name (Path.write_text). The packaged twin
clematis/scripts/console.py was moved to the atomic writer (commit dcece21); this copy was not.

Shown here with two members of the property's quantifier:
  A. a failing write (the bundle holds a lone surrogate, which json.dumps(ensure_ascii=False) lets through and the
     UTF-8 encoder rejects): the previous export is destroyed (0 bytes), not kept;
  B. a concurrent reader that opened the export before the rewrite reads a truncated / mixed file.
The packaged twin is run through the same two checks as the control.

Exit 1 when the violation shows, 0 otherwise. Run from the worktree root with PYTHONPATH set to it.
"""
from __future__ import annotations

import importlib.util
import json
import os
import sys
import tempfile

ROOT = "/repo"
sys.path.insert(0, ROOT)


def _load(path: str, name: str):
    spec = importlib.util.spec_from_file_location(name, path)
    mod = importlib.util.module_from_spec(spec)
    spec.loader.exec_module(mod)
    return mod


def _bundle(tag: str, n: int) -> dict:
    return {"logs": {"t1": [{"turn": i, "text": f"{tag}-{i}"} for i in range(n)]}, "tag": tag}


def check(write_json, tmp: str, label: str) -> list[str]:
    problems = []
    out = os.path.join(tmp, f"{label}-run.json")

    # A. failing write
    write_json(out, _bundle("OLD", 500))
    old = open(out, "rb").read()
    bad = _bundle("NEW", 500)
    bad["logs"]["t1"][250]["text"] = "caf\udce9"  # undecodable byte of argv / stdin, as Python hands it over
    try:
        write_json(out, bad)
        raised = False
    except Exception as e:  # noqa: BLE001
        raised = type(e).__name__
    now = open(out, "rb").read()
    if now != old:
        problems.append(
            f"{label}: failed write ({raised}) left {len(now)} bytes in place of the previous export ({len(old)} bytes)"
        )
    stray = sorted(n for n in os.listdir(tmp) if n.startswith(os.path.basename(out) + "."))
    if stray:
        problems.append(f"{label}: failed write left {stray}")

    # B. concurrent reader
    write_json(out, _bundle("OLD", 500))
    old = open(out, "rb").read()
    rd = open(out, "rb", buffering=0)
    head = rd.read(100)
    write_json(out, _bundle("NEW", 40))
    new = open(out, "rb").read()
    seen = head + rd.read()
    rd.close()
    if seen not in (old, new):
        try:
            json.loads(seen.decode("utf-8"))
            kind = "a JSON document that is neither"
        except Exception:
            kind = "not even JSON"
        problems.append(f"{label}: reader that was in the file during the rewrite got {len(seen)} bytes ({kind}; old {len(old)}, new {len(new)})")
    return problems


def main() -> int:
    shim = _load(os.path.join(ROOT, "scripts", "console.py"), "shim_console")
    pkg = _load(os.path.join(ROOT, "clematis", "scripts", "console.py"), "pkg_console")
    with tempfile.TemporaryDirectory() as tmp:
        control = check(pkg.write_json, tmp, "clematis/scripts/console.py")
        found = check(shim.write_json, tmp, "scripts/console.py")
    for line in control:
        print("CONTROL FAILED:", line)
    for line in found:
        print("VIOLATION:", line)
    if not found and not control:
        print("no violation: both console copies replace the export all-or-nothing")
    return 1 if (found or control) else 0


if __name__ == "__main__":
    raise SystemExit(main())
