"""Side observation (unchanged code, REAL stage pipeline): the per-agent context the driver builds keeps only
cfg/config/now/now_ms/seed/slice_idx/slice_budgets - everything else the caller put on the batch context is dropped.

run_turn reads more than that from its context: _sched_pick_reason / pick_reason (copied into scheduler.jsonl),
_driver_writes_scheduler_log + _sched_capture (the driver authors scheduler.jsonl itself and the orchestrator must
only capture the event), enc (the injected T2 encoder), trace_reason, style_prefix, llm_adapter.
Here the batch context carries a pick reason and asks for scheduler-event capture; agent B yields on its T1 budget.
  * turns run one after another with that context (Orchestrator.run_turn, agent_id set per turn): the event is
    captured into ctx._sched_capture with pick_reason, scheduler.jsonl is not written by the orchestrator;
  * the same batch through _run_agents_parallel_batch (parallel path, and the driver's own gate-off loop as well):
    the orchestrator writes a scheduler.jsonl line itself, without pick_reason, and the capture dict stays empty -
    a driver that then authors its own scheduler line ends up with two.

Contradicts: "the same on-disk log lines ... as running those turns one after another" (real stage pipeline).
Exit 1 when the violation shows, 0 otherwise.
"""
import copy
import dataclasses
import json
import os
import sys
import tempfile
from types import SimpleNamespace as SNS

os.environ["CI"] = "true"
import clematis.io.paths as paths  # noqa: E402
import clematis.engine.orchestrator as orch  # noqa: E402
from clematis.io.config import load_config  # noqa: E402
from clematis.graph.store import InMemoryGraphStore, Node, Edge  # noqa: E402

TMP = tempfile.mkdtemp(prefix="obs_c10_ctx_")
HERE = "/repo"


class State(dict):
    def __getattr__(self, k):
        try:
            return self[k]
        except KeyError:
            raise AttributeError(k) from None

    def __setattr__(self, k, v):
        self[k] = v


def mk_cfg(parallel, snaps, sched):
    base = load_config(os.path.join(HERE, "configs", "config.yaml"))
    d = {f.name: copy.deepcopy(getattr(base, f.name)) for f in dataclasses.fields(base)}
    d["perf"] = {"enabled": True, "parallel": {"enabled": parallel, "agents": parallel, "max_workers": 4 if parallel else 1}}
    d["scheduler"] = {"enabled": True, "quantum_ms": 10**6, "budgets": {"t1_iters": 1}} if sched else {"enabled": False}
    d["t4"]["snapshot_dir"] = snaps
    return SNS(**d)


def mk_state():
    store = InMemoryGraphStore()
    for gid in ("g:surface", "g:A", "g:B"):
        store.ensure(gid)
    store.upsert_nodes("g:surface", [Node(id="n:hello", label="hello"), Node(id="n:world", label="world")])
    store.upsert_edges("g:surface", [Edge(id="e:h->w", src="n:hello", dst="n:world", weight=0.8, rel="supports")])
    return State(store=store, active_graphs=["g:surface"], graphs_by_agent={"A": ["g:A"], "B": ["g:B"]})


TASKS = [("A", "hello world"), ("B", "hello")]


def run(tag, mode):
    logs = os.path.join(TMP, tag, "logs")
    snaps = os.path.join(TMP, tag, "snaps")
    os.makedirs(logs)
    paths.logs_dir = lambda: logs
    state = mk_state()
    warm = SNS(cfg=mk_cfg(False, snaps, False), turn_id=1, agent_id="W", now="2026-01-01T00:00:00+00:00", now_ms=500)
    orch.Orchestrator().run_turn(warm, state, "warm up")
    for f in os.listdir(logs):
        os.remove(os.path.join(logs, f))
    capture = {}
    ctx = SNS(
        cfg=mk_cfg(mode == "parallel", snaps, True),
        turn_id=5,
        now="2026-01-01T00:00:01+00:00",
        now_ms=1000,
        _sched_pick_reason="AGING_BOOST",
        _driver_writes_scheduler_log=True,
        _sched_capture=capture,
    )
    if mode == "loop":
        for aid, text in TASKS:
            c = copy.copy(ctx)
            c.agent_id = aid
            orch.Orchestrator().run_turn(c, state, text)
    else:
        orch._run_agents_parallel_batch(ctx, state, list(TASKS))
    p = os.path.join(logs, "scheduler.jsonl")
    sched = [json.loads(x) for x in open(p)] if os.path.exists(p) else []
    return {
        "scheduler.jsonl": [(r.get("agent"), r.get("reason"), r.get("pick_reason")) for r in sched],
        "captured": (capture.get("agent"), capture.get("reason"), capture.get("pick_reason")) if capture else None,
    }


loop = run("loop", "loop")
par = run("par", "parallel")
off = run("off", "gate-off")
print("run_turn loop      :", loop)
print("driver, parallel   :", par)
print("driver, gate off   :", off)
if loop != par:
    print("VIOLATION: scheduler.jsonl / captured event differ - the driver dropped the context attributes")
    sys.exit(1)
sys.exit(0)
