"""Side observation (unchanged code): the capture copies a log payload only at the top level
(`dict(record)` in clematis.io.log.append_jsonl).  A compute phase that logs a payload holding a
list/dict it keeps updating (a running tally) gets the value at LOG time on disk when run
sequentially (write-through), but the value at FLUSH time in the parallel driver.

Exit 1 when the on-disk lines differ between the sequential loop and the parallel batch.
"""
import json
import os
import sys
import tempfile
from types import SimpleNamespace as SNS

root = tempfile.mkdtemp(prefix="c10_obs_alias_")
cur = {"d": root}
import clematis.io.paths as paths
paths.logs_dir = lambda: cur["d"]
from clematis.io.log import append_jsonl
import clematis.engine.orchestrator as orch
from clematis.engine.orchestrator import Orchestrator
from clematis.engine.orchestrator.parallel import _clone_ctx_for_agent


def stub(self, ctx, state, text):
    seen = []
    for g in ("g1", "g2", "g3"):
        seen.append(g)
        append_jsonl("t1.jsonl", {"turn": ctx.turn_id, "agent": ctx.agent_id, "visited": seen})
    ctx._dryrun_t4 = SNS(approved_deltas=[])
    ctx._dryrun_utter = "ok"
    ctx._dryrun_t1 = {"graphs_touched": []}
    ctx._dryrun_t2 = {}
    return SNS(line="ok", events=[])


Orchestrator.run_turn = stub
orch.apply_changes = lambda ctx, state, t4: SNS(applied=0, clamps=0, version_etag="v", snapshot_path=None, metrics={})

cfg = {"perf": {"enabled": True, "parallel": {"enabled": True, "agents": True, "max_workers": 4}}}
state = {"graphs_by_agent": {"A": ["GA"], "B": ["GB"]}}
tasks = [("A", "hi"), ("B", "yo")]


def lines(d):
    with open(os.path.join(d, "t1.jsonl"), encoding="utf-8") as fh:
        return [json.loads(x)["visited"] for x in fh.read().split("\n") if x]


cur["d"] = os.path.join(root, "seq"); os.makedirs(cur["d"])
ctx = SNS(cfg=cfg, turn_id=5)
for aid, text in tasks:  # sequential loop: logs are written through at call time
    Orchestrator().run_turn(_clone_ctx_for_agent(ctx, aid, 5), state, text)
seq = lines(cur["d"])

cur["d"] = os.path.join(root, "par"); os.makedirs(cur["d"])
orch._run_agents_parallel_batch(SNS(cfg=cfg, turn_id=5), state, tasks)
par = lines(cur["d"])

print("sequential t1.jsonl 'visited':", seq)
print("parallel   t1.jsonl 'visited':", par)
if seq != par:
    print("VIOLATION: captured payloads alias nested containers; parallel lines differ from sequential")
    sys.exit(1)
sys.exit(0)
