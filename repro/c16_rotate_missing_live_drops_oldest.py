#!/usr/bin/env python3
"""Side observation (UNCHANGED code): rotate_one on a live file that does not exist still drops the oldest
generation and shifts the others up, although no new generation arrives.

rotate_one() removes path.<backups> and runs the cascade BEFORE it looks whether `path` exists.  With every slot
taken and no live file (rotation run twice in a row before the writer produced a new line; a second rotator that
lost the race; main() whose glob saw the file just before another rotation moved it) one generation is deleted
for nothing: afterwards only N-1 generations are kept, slot .1 is empty, and the function returns False
("nothing rotated").

Clause contradicted: "rotation keeps the newest N generations in order without losing any but the oldest" - the
N newest generations that exist are a.jsonl.1 .. a.jsonl.N, and one of them is deleted.
Exit 1 = violation shown, 0 = not shown.
"""
import os
import sys
import tempfile

sys.path.insert(0, "/repo")
from clematis.scripts.rotate_logs import rotate_one  # noqa: E402

d = tempfile.mkdtemp(prefix="obs_c16_")
live = os.path.join(d, "a.jsonl")
N = 3
for k in range(1, N + 1):
    with open(f"{live}.{k}", "w") as f:
        f.write('{"gen": %d}\n' % k)

before = sorted(os.listdir(d))
did = rotate_one(live, backups=N)
after = sorted(os.listdir(d))
content = {n: open(os.path.join(d, n)).read().strip() for n in after}
print("before:", before)
print("rotate_one returned", did)
print("after: ", content)
gens = "".join(content.values())
if did is False and '"gen": 3' not in gens:
    print(f"VIOLATION: nothing was rotated, yet generation 3 is gone ({len(after)} of {N} generations left)")
    sys.exit(1)
sys.exit(0)
