"""A cache hit replays pops / iters / propagations / cap-hit counters of the cached computation, but max_delta is 0.0.

Clause: "with counters that match the work done" (the fix 0070b20 made a hit report "the work counters of the
computation it stands for"; max_delta was left out, so the same call reports max_delta 1.0 then 0.0).
"""
import copy, sys
from clematis.engine.types import Config
from clematis.graph.store import InMemoryGraphStore, Node, Edge
from clematis.engine.stages import t1 as t1mod
from clematis.engine.stages.t1 import t1_propagate

t1mod._T1_CACHE = None; t1mod._T1_CACHE_CFG = None; t1mod._T1_CACHE_KIND = None
cfg = Config()
s = InMemoryGraphStore()
s.upsert_nodes("g:obs-maxdelta", [Node(id="a", label="alpha"), Node(id="b", label="x")])
s.upsert_edges("g:obs-maxdelta", [Edge(id="e1", src="a", dst="b", weight=1.0, rel="supports")])
ctx = type("Ctx", (), {"cfg": cfg})()
st = {"store": s, "active_graphs": ["g:obs-maxdelta"]}
r1 = t1_propagate(ctx, st, "alpha")
r2 = t1_propagate(ctx, st, "alpha")
keys = ("pops", "iters", "propagations", "max_delta", "cache_hits")
print("miss:", {k: r1.metrics[k] for k in keys})
print("hit :", {k: r2.metrics[k] for k in keys})
same_work = all(r1.metrics[k] == r2.metrics[k] for k in ("pops", "iters", "propagations"))
if r2.metrics["cache_hits"] == 1 and same_work and r1.metrics["max_delta"] != r2.metrics["max_delta"]:
    print("VIOLATION: identical call, identical work counters, max_delta", r1.metrics["max_delta"], "vs", r2.metrics["max_delta"])
    sys.exit(1)
sys.exit(0)
