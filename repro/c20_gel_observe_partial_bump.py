#!/usr/bin/env python
"""Side observation for C20 (unchanged checkout): a GEL observe pass that fails part-way is swallowed, but the edge
weights it had already bumped stay in state.graph and change the NEXT turn's canonical T2 record (hybrid rerank),
so the run is not equal to one with GEL switched off.

Setup: the boot snapshot holds one GEL edge whose attrs carry a garbage counter ("coact": "many"); the loader keeps
edge attrs verbatim.  With graph.enabled=true every observe pass does, for that pair,
    rec["weight"] = w                                   # already written
    attrs["coact"] = int(attrs.get("coact", 0)) + 1     # ValueError -> pass aborted, guard in run_turn swallows it
(clematis/engine/gel.py:observe_retrieval).  No observe record reaches gel.jsonl, the turn completes - but the weight
went 0.0 -> 0.2, above t2.hybrid.edge_threshold, and on turn 2 t2.jsonl says hybrid_used=true.  In the run with
graph.enabled=false (GEL off, same snapshot, same hybrid config) it says hybrid_used=false.

Run from the worktree root with PYTHONPATH set to it.  Exit 1 when the violation shows, 0 otherwise.
"""
import json
import os
import subprocess
import sys
import tempfile

ROOT = "/repo"
MODES = ("gel_off", "gel_on_failing")


def child(mode: str) -> None:
    tmp = tempfile.mkdtemp(prefix="c20_obs_gel_")
    os.environ["CLEMATIS_LOG_DIR"] = os.path.join(tmp, "logs")
    os.environ["CI"] = "true"
    sys.path.insert(0, ROOT)
    from types import SimpleNamespace
    import numpy as np
    from configs.validate import validate_config
    from clematis.engine.orchestrator.core import run_turn
    from clematis.memory.index import InMemoryIndex
    from clematis.adapters.embeddings import BGEAdapter

    class AD(dict):
        def __getattr__(self, n):
            try:
                return self[n]
            except KeyError as e:
                raise AttributeError(n) from e

    def ad(o):
        if isinstance(o, dict):
            return AD({k: ad(v) for k, v in o.items()})
        if isinstance(o, list):
            return [ad(v) for v in o]
        return o

    snaps = os.path.join(tmp, "snaps")
    os.makedirs(snaps)
    body = {
        "schema_version": "v1", "graph_schema_version": "v1.1", "version_etag": "0", "store": {},
        "gel": {"nodes": {},
                "edges": {"e4→e5": {"id": "e4→e5", "src": "e4", "dst": "e5", "rel": "coact", "weight": 0.0,
                                         "updated_at": None, "attrs": {"coact": "many", "last_seen_turn": None}}},
                "meta": {"schema": "v1.1", "merges": [], "splits": [], "promotions": [],
                         "concept_nodes_count": 0, "edges_count": 1}},
    }
    with open(os.path.join(snaps, "state_A.json"), "w", encoding="utf-8") as f:
        json.dump(body, f)

    cfg = ad(validate_config({
        "t4": {"snapshot_dir": snaps},
        "graph": {"enabled": mode != "gel_off", "update": {"alpha": 0.2}},
        "t2": {"sim_threshold": -1.0, "hybrid": {"enabled": True}},
    }))
    enc = BGEAdapter(dim=32)
    q = np.asarray(enc.encode(["apple"])[0], dtype=np.float32)
    rng = np.random.RandomState(7)
    idx = InMemoryIndex()
    for i in range(6):  # e5 is the closest to the query, e0 the farthest; all well above the co-activation threshold
        noise = rng.standard_normal(q.shape).astype(np.float32) * float(np.linalg.norm(q)) / np.sqrt(q.size)
        idx.add({"id": f"e{i}", "owner": "A", "ts": "2024-01-01T00:00:00Z", "text": f"note {i}", "tags": [],
                 "vec_full": (q + 0.15 * (6 - i) * noise).astype(np.float32)})
    state = {"version_etag": "0", "mem_index": idx}

    lines, weights = [], []
    for turn in (1, 2):
        ctx = SimpleNamespace(turn_id=str(turn), agent_id="A", now="2024-01-02T00:00:00Z", now_ms=0, cfg=cfg, config=cfg)
        lines.append(run_turn(ctx, state, "apple").line)
        weights.append({k: round(float(v.get("weight", 0.0)), 4) for k, v in state["graph"]["edges"].items()})
    logs = os.environ["CLEMATIS_LOG_DIR"]
    recs = {}
    for name in ("t1.jsonl", "t2.jsonl", "t4.jsonl", "apply.jsonl", "turn.jsonl", "gel.jsonl"):
        p = os.path.join(logs, name)
        recs[name] = [json.loads(l) for l in open(p, encoding="utf-8")] if os.path.isfile(p) else []
    text = json.dumps({"mode": mode, "lines": lines, "weights": weights, "recs": recs}).replace(tmp, "<ROOT>")
    print("@@" + text)


def run(mode: str) -> dict:
    env = dict(os.environ)
    env["PYTHONPATH"] = ROOT
    p = subprocess.run([sys.executable, os.path.abspath(__file__), "--child", mode], cwd=ROOT, env=env,
                       capture_output=True, text=True)
    for line in p.stdout.splitlines():
        if line.startswith("@@"):
            return json.loads(line[2:])
    raise SystemExit(f"child {mode} failed rc={p.returncode}:\n{p.stderr[-800:]}")


def main() -> int:
    off, bad = run("gel_off"), run("gel_on_failing")
    observe_recs = [r for r in bad["recs"]["gel.jsonl"] if r.get("event") == "observe_retrieval"]
    print("GEL on : observe records in gel.jsonl:", len(observe_recs), "(0 = the pass failed and was swallowed on both turns)")
    print("GEL on : edge weights after turn 1/2 :", bad["weights"])
    print("GEL off: edge weights after turn 1/2 :", off["weights"])
    diffs = []
    for name in ("t1.jsonl", "t2.jsonl", "t4.jsonl", "apply.jsonl", "turn.jsonl"):
        a, b = bad["recs"][name], off["recs"][name]
        for i, (x, y) in enumerate(zip(a, b)):
            for k in sorted(set(x) | set(y)):
                if x.get(k) != y.get(k):
                    diffs.append(f"{name} turn {i + 1}: {k} = {x.get(k)!r} (GEL pass failing) vs {y.get(k)!r} (GEL off)")
        if len(a) != len(b):
            diffs.append(f"{name}: {len(a)} vs {len(b)} records")
    if observe_recs:
        print("\nthe observe pass did not fail here; nothing to show")
        return 0
    if not diffs:
        print("\nOK: canonical records equal the GEL-off run")
        return 0
    print("\nVIOLATION: the failing GEL observe pass left a partial edge update behind; canonical records differ from the GEL-off run:")
    for d in diffs:
        print("   -", d)
    return 1


if __name__ == "__main__":
    if len(sys.argv) == 3 and sys.argv[1] == "--child":
        child(sys.argv[2])
    else:
        sys.exit(main())
