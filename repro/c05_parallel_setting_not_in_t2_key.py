"""
Side observation (UNCHANGED code): the T2 stage cache key does not cover perf.parallel.* although the
gate selects a different retrieval algorithm: with perf.parallel.{enabled,t2} on and max_workers > 1,
T2 fans out over contiguous shards of the in-memory index and every shard picks ITS OWN top-M clusters
for the cluster_semantic tier (centroids are per shard), which is not the global top-M of the
sequential walk.  History: turn(cfg sequential) ; turn(cfg parallel), same state, same text.
With the stage cache on the second turn is a hit on the first turn's entry; with the cache off it is the
sharded result.

Contradicts: "for every history of turns interleaved with ... configuration changes, stage results with
caches on equal the results with caches off".
Exit 1 when the violation shows, 0 otherwise.
"""
import sys
import numpy as np

from clematis.engine.types import Config
from clematis.graph.store import InMemoryGraphStore, Node
from clematis.memory.index import InMemoryIndex
from clematis.engine.stages.t2.core import t2_semantic
from clematis.adapters.embeddings import BGEAdapter

NOW = "2025-06-01T00:00:00Z"
TEXT = "tell me"
enc = BGEAdapter(dim=32)
q = enc.encode([TEXT])[0].astype(np.float64)
q /= np.linalg.norm(q)


def ortho(seed):
    r = np.random.default_rng(seed).normal(size=q.shape)
    r -= r.dot(q) * q
    return r / np.linalg.norm(r)


U = ortho(1)


def vec(c, u=U):
    return (c * q + np.sqrt(1 - c * c) * u).astype(np.float32)


def ep(eid, cluster, v):
    return {"id": eid, "owner": "A", "text": eid, "ts": "2025-05-30T00:00:00Z", "vec_full": v,
            "aux": {"cluster_id": cluster}}


def make_cfg(cache_on, parallel):
    cfg = Config()
    cfg.t2["cache"] = {"enabled": cache_on, "max_entries": 64, "ttl_s": 3600}
    cfg.t2["sim_threshold"] = -1.0
    cfg.t2["tiers"] = ["cluster_semantic"]
    cfg.t2["clusters_top_m"] = 1
    cfg.perf = {"enabled": False, "parallel": {"enabled": parallel, "t2": parallel, "max_workers": 2}}
    return cfg


class T1:
    graph_deltas: list = []


def replay(cache_on):
    store = InMemoryGraphStore()
    store.upsert_nodes("g", [Node(id="n:x", label="zzz")])
    idx = InMemoryIndex()
    # cluster X = {x1 (cos .9), x2 (cos -.9)}: centroid is orthogonal to the query; cluster Y = {y1 (cos .6)}
    idx.add(ep("x1", "X", vec(0.9)))
    idx.add(ep("y1", "Y", vec(0.6, ortho(2))))
    idx.add(ep("x2", "X", vec(-0.9)))
    idx.add(ep("z1", "Z", vec(0.1, ortho(3))))
    state = {"store": store, "active_graphs": ["g"], "mem_index": idx}
    out = []
    for parallel in (False, True):
        ctx = type("Ctx", (), {"cfg": make_cfg(cache_on, parallel), "turn_id": "t", "agent_id": "A", "now": NOW})()
        r = t2_semantic(ctx, state, TEXT, T1())
        out.append([x.id for x in r.retrieved])
    return out


on = replay(True)
off = replay(False)
print("caches ON  [sequential turn, parallel turn]:", on)
print("caches OFF [sequential turn, parallel turn]:", off)
if on != off:
    print("VIOLATION: the parallel-gated turn was served the sequential turn's cached retrieval")
    sys.exit(1)
sys.exit(0)
