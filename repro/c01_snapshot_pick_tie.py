"""Reproduction (documentation only): with two state_*.json snapshots of equal mtime (two agents committed within one
timestamp tick) the boot loader's choice follows os.listdir order, i.e. the directory's enumeration order.
Usage: PYTHONPATH=/repo /venv/bin/python <this>"""
import os, sys, tempfile
import clematis.engine.snapshot as snap

d = tempfile.mkdtemp(prefix="c01tie_")
for n in ("state_A.json", "state_B.json"):
    open(os.path.join(d, n), "w").write("{}")
    os.utime(os.path.join(d, n), (1_700_000_000, 1_700_000_000))
real = os.listdir
picks = []
for order in (lambda xs: sorted(xs), lambda xs: sorted(xs, reverse=True)):
    snap.os.listdir = lambda p, _o=order: _o(real(p))
    try:
        picks.append(os.path.basename(snap._pick_latest_snapshot_path(d)))
    finally:
        snap.os.listdir = real
print("enumeration A,B ->", picks[0], "; enumeration B,A ->", picks[1])
sys.exit(0 if picks[0] == picks[1] else 1)
