#!/usr/bin/env python
"""Side observation (unchanged code): the normalised result shares a list with the module-level DEFAULTS, so the
validator is not pure across calls - editing one returned config changes the verdict for later, unrelated inputs.

_deep_merge copies dicts but puts default *values* in by reference (`out[k] = v`), and t4.cache.namespaces is a list:
validate_config({})["t4"]["cache"]["namespaces"] IS DEFAULTS["t4"]["cache"]["namespaces"].

Clause contradicted: "pure" / "the same verdict" for the same input (the verdict for {} flips from accept to reject).
Exit 1 when it shows, 0 otherwise.
"""
import os, sys
sys.path.insert(0, os.getcwd())
from clematis.errors import ConfigError
from configs.validate import validate_config
from configs import validate as V

first = validate_config({})
ns = first["t4"]["cache"]["namespaces"]
shared = ns is V.DEFAULTS["t4"]["cache"]["namespaces"]
print("returned namespaces list is the DEFAULTS object:", shared)
ns.append("t1:graph")  # a caller customising ITS OWN normalised config
try:
    validate_config({})
    print("second validate_config({}) still accepted")
    rc = 0
except ConfigError as e:
    print("second validate_config({}) now REJECTED:", e)
    rc = 1
finally:
    ns.remove("t1:graph")
sys.exit(rc)
