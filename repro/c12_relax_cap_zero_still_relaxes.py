"""Side observation (unchanged code): relax_cap=0 still performs one relaxation.

The relaxation budget is checked only after a relaxation has been done (propagations >= relax_cap),
so with relax_cap=0 one edge is traversed and its target is touched: propagations == 1 > 0.
Exit 1 when the relaxation budget is exceeded, 0 otherwise.
"""
import sys

from clematis.engine.types import Config
from clematis.graph.store import InMemoryGraphStore, Node, Edge
from clematis.engine.stages.t1 import t1_propagate

cfg = Config()
cfg.t1["cache"] = {"enabled": False}
cfg.t1["relax_cap"] = 0
store = InMemoryGraphStore()
gid = "g:relax0"
store.ensure(gid)
store.upsert_nodes(gid, [Node(id="n:seed", label="seed"), Node(id="n:a", label="a")])
store.upsert_edges(gid, [Edge(id="e", src="n:seed", dst="n:a", weight=1.0, rel="supports")])
state = {"store": store, "active_graphs": [gid]}
ctx = type("Ctx", (), {"cfg": cfg, "turn_id": "t", "agent_id": "A"})()

r = t1_propagate(ctx, state, "seed")
touched = [d["id"] for d in r.graph_deltas]
print("propagations:", r.metrics["propagations"], "touched:", touched)
if r.metrics["propagations"] > 0 or "n:a" in touched:
    print("VIOLATION: relax_cap=0 but a relaxation was performed")
    sys.exit(1)
sys.exit(0)
