"""Reproduction (documentation only): an episode whose `ts` carries no UTC offset was read in the HOST's local time zone
(datetime.astimezone on a naive value), so the recency window depended on the TZ of the process.
Usage: PYTHONPATH=/repo /venv/bin/python <this>"""
import os, subprocess, sys

CHILD = r'''
import numpy as np
from clematis.memory.index import InMemoryIndex
ix = InMemoryIndex()
ix.add({"id": "e1", "owner": "a", "text": "x", "ts": "2025-03-01T20:00:00", "vec_full": np.ones(4, dtype=np.float32)})
hits = ix.search_tiered(owner=None, q_vec=np.ones(4, dtype=np.float32), k=5, tier="exact_semantic",
                        hints={"recent_days": 1, "now": "2025-03-03T00:30:00Z", "sim_threshold": 0.0})
print([h.id for h in hits])
'''
outs = {}
for tz in ("UTC", "Asia/Tokyo", "America/Los_Angeles"):
    env = dict(os.environ, TZ=tz, PYTHONPATH="/repo")
    outs[tz] = subprocess.run([sys.executable, "-c", CHILD], env=env, capture_output=True, text=True, cwd="/repo").stdout.strip()
    print(tz, outs[tz])
sys.exit(0 if len(set(outs.values())) == 1 else 1)
