"""Reproduction (documentation only): replaying the same turns on a fresh world in a WARM process
writes a different canonical t1.jsonl than in a fresh process (cache_hits / cache_used / cache_misses / max_delta),
because the T1 result cache is process-global.  Usage: cd /repo && CI=true PYTHONPATH=/repo /venv/bin/python <this>"""
import json, os, sys, tempfile
os.environ["CI"] = "true"
work = tempfile.mkdtemp(prefix="c01warm_")
os.environ["CLEMATIS_LOG_DIR"] = os.path.join(work, "logs")
from clematis.engine.types import TurnCtx, Config, Node, Edge
from clematis.engine.orchestrator import Orchestrator
from clematis.graph.store import InMemoryGraphStore
from clematis.memory.index import InMemoryIndex

NOW = "2025-03-01T12:00:00+00:00"


def replay(tag):
    cfg = Config()
    cfg.t4["snapshot_dir"] = os.path.join(work, "snap_" + tag)
    if "--cache" in sys.argv:
        cfg.t1.setdefault("cache", {})["max_entries"] = 64
    store = InMemoryGraphStore()
    store.upsert_nodes("g", [Node(id="n:a", label="garden"), Node(id="n:b", label="rose")])
    store.upsert_edges("g", [Edge(id="e1", src="n:a", dst="n:b", weight=0.9, rel="supports")])
    state = {"store": store, "active_graphs": ["g"], "mem_index": InMemoryIndex(), "mem_backend": "inmemory", "_boot_loaded": True}
    p = os.path.join(os.environ["CLEMATIS_LOG_DIR"], "t1.jsonl")
    before = len(open(p).read().splitlines()) if os.path.exists(p) else 0
    orch = Orchestrator()
    for tid in (1, 2):
        orch.run_turn(TurnCtx(turn_id=tid, agent_id="A", scene_tags=[], now=NOW, cfg=cfg), state, "tell me about the garden")
    return open(p).read().splitlines()[before:]


a, b = replay("first"), replay("second")
for x, y in zip(a, b):
    if x != y:
        dx, dy = json.loads(x), json.loads(y)
        print("t1.jsonl differs:", {k: (dx.get(k), dy.get(k)) for k in sorted(set(dx) | set(dy)) if dx.get(k) != dy.get(k)})
print("IDENTICAL" if a == b else "DIFFERENT")
sys.exit(0 if a == b else 1)
