"""
Side observation (UNCHANGED code): a deep-copied engine state shares the memory index's process-local
`_uid` (copy.deepcopy / pickle do not run InMemoryIndex.__init__), and both copies start from the same
version counter.  After the two states diverge by one `add` each, their (uid, index_version) pairs are
equal, so the process-global T2 stage cache serves state A's retrieval to state B.

Contradicts: "This also holds between independent engine states that live in the same process" and
"a cache never serves one agent's owner-scoped memories to another agent" (here: one state's memories
to another state).
Exit 1 when the violation shows, 0 otherwise.
"""
import copy
import sys

from clematis.engine.types import Config
from clematis.graph.store import InMemoryGraphStore, Node
from clematis.memory.index import InMemoryIndex
from clematis.engine.stages.t2.core import t2_semantic
from clematis.adapters.embeddings import BGEAdapter

NOW = "2025-06-01T00:00:00Z"
enc = BGEAdapter(dim=32)


def ep(i, text):
    return {"id": f"ep{i}", "owner": "A", "text": text, "ts": "2025-05-30T00:00:00Z",
            "vec_full": enc.encode([text])[0], "aux": {}}


def ctx_for(cache_on):
    cfg = Config()
    cfg.t2["cache"] = {"enabled": cache_on, "max_entries": 64, "ttl_s": 3600}
    cfg.t2["sim_threshold"] = -1.0
    return type("Ctx", (), {"cfg": cfg, "turn_id": "t", "agent_id": "A", "now": NOW})()


class T1:
    graph_deltas: list = []


def replay(cache_on):
    ctx = ctx_for(cache_on)
    store = InMemoryGraphStore()
    store.upsert_nodes("g", [Node(id="n:x", label="x")])
    idx = InMemoryIndex()
    idx.add(ep(0, "shared history"))
    state_a = {"store": store, "active_graphs": ["g"], "mem_index": idx}
    state_b = copy.deepcopy(state_a)  # fork: an independent engine state in the same process
    state_a["mem_index"].add(ep(1, "secret of state A"))
    state_b["mem_index"].add(ep(2, "secret of state B"))
    ra = t2_semantic(ctx, state_a, "tell me", T1())
    rb = t2_semantic(ctx, state_b, "tell me", T1())
    return sorted(r.id for r in ra.retrieved), sorted(r.id for r in rb.retrieved)


on = replay(True)
off = replay(False)
print("caches ON :", on)
print("caches OFF:", off)
if on != off:
    print("VIOLATION: state B was served state A's retrieval from the T2 stage cache")
    sys.exit(1)
sys.exit(0)
