#!/usr/bin/env python
"""
Side observation (unchanged code): a snapshot file truncated after its header line is read as a legacy single-JSON
body, so the HEADER is returned as the state.

_read_baseline_payload guards the baseline only.  The same single-JSON fallback of _read_header_payload is still
used unguarded for
  (1) the sibling full snapshot the reader falls back to when the baseline is missing, and
  (2) the delta file itself when it is read by path.
In both cases read_snapshot returns {"codec":..., "etag_to":..., "mode":..., "schema":...} as if it were the payload
instead of falling back / reporting absence ({}).

Exit 1 when a violation shows, 0 otherwise.
"""
import os
import sys
import tempfile

from clematis.engine.snapshot import read_snapshot, write_snapshot_auto

BASE = {"schema_version": "v1", "store": {"w": {"a": 1, "b": 2}}}
CURR = {"schema_version": "v1", "store": {"w": {"a": 1, "b": 3}}}


def truncate_after_header(p):
    with open(p, "r", encoding="utf-8") as f:
        header_line = f.readline()
    with open(p, "w", encoding="utf-8") as f:
        f.write(header_line)


bad = []

# (1) baseline missing, fallback full torn
with tempfile.TemporaryDirectory() as d:
    base_path, _ = write_snapshot_auto(d, etag_from=None, etag_to="E1", payload=BASE)
    delta_path, wd = write_snapshot_auto(d, etag_from="E1", etag_to="E2", payload=CURR, delta_mode=True)
    assert wd
    full2, _ = write_snapshot_auto(d, etag_from=None, etag_to="E2", payload=CURR)
    os.remove(base_path)
    truncate_after_header(full2)
    for how, kw in (("etag", dict(root=d, etag_to="E2")), ("path", dict(path=delta_path))):
        try:
            got = read_snapshot(**kw)
        except Exception as e:  # raising is a form of reporting absence
            print(f"(1/{how}) raised {e!r}")
            continue
        print(f"(1/{how}) baseline missing + torn fallback full ->", got)
        if got not in (CURR, {}):
            bad.append(f"(1/{how}) returned the fallback file's header as the payload")

# (2) baseline present, delta file torn, read by path
with tempfile.TemporaryDirectory() as d:
    write_snapshot_auto(d, etag_from=None, etag_to="E1", payload=BASE)
    delta_path, wd = write_snapshot_auto(d, etag_from="E1", etag_to="E2", payload=CURR, delta_mode=True)
    assert wd
    truncate_after_header(delta_path)
    try:
        got = read_snapshot(path=delta_path)
        print("(2) torn delta read by path ->", got)
        if got not in (CURR, {}):
            bad.append("(2) returned the delta file's header as the payload")
    except Exception as e:
        print(f"(2) raised {e!r}")

if bad:
    print("VIOLATION:")
    for b in bad:
        print("  -", b)
    sys.exit(1)
print("OK")
sys.exit(0)
