"""Reproduction (documentation only, not a registered check): an episode with a malformed `ts`
made exact_semantic retrieval depend on the wall clock although the logical clock is fixed.
Usage: PYTHONPATH=/repo /venv/bin/python c01_malformed_ts_wallclock.py"""
import datetime as real_dt
import types
import numpy as np
import clematis.memory.index as idx


def run(wall_year):
    class FakeDT(real_dt.datetime):
        @classmethod
        def now(cls, tz=None):
            return real_dt.datetime(wall_year, 6, 1, tzinfo=tz)
    shim = types.SimpleNamespace(datetime=FakeDT, timedelta=real_dt.timedelta, timezone=real_dt.timezone)
    old = idx.dt
    idx.dt = shim
    try:
        ix = idx.InMemoryIndex()
        ix.add({"id": "e1", "owner": "a", "text": "x", "ts": "not-a-date", "vec_full": np.ones(4, dtype=np.float32)})
        hits = ix.search_tiered(owner=None, q_vec=np.ones(4, dtype=np.float32), k=5, tier="exact_semantic",
                                hints={"recent_days": 30, "now": "2026-06-10T00:00:00Z", "sim_threshold": 0.0})
        return [h.id for h in hits]
    finally:
        idx.dt = old


a, b = run(2025), run(2027)
print("wall=2025:", a, " wall=2027:", b)
assert a == b, "same logical clock, different wall clock -> different retrieval"
print("OK: retrieval independent of the wall clock")
