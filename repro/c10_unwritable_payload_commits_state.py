"""Side observation (unchanged code): a log payload that cannot be written is noticed only after the commit.

A payload holding a lone surrogate ("\\ud800") serialises with json.dumps(ensure_ascii=False) but
cannot be encoded to UTF-8.  In a sequential loop the write fails inside that agent's turn, before
its apply: the state is untouched.  The batch driver captures the record, applies every agent of the
batch to the state, and fails in the final flush (or, with a 1-byte staging limit, in the
back-pressure flush before the first apply): the final state depends on the staging limit and, with the
default limit, differs from the sequential loop.

Exit 1 when the final state differs between sequential / default limit / 1-byte limit.
"""
import os
import sys
import tempfile
from types import SimpleNamespace as SNS

import clematis.io.paths as paths
import clematis.engine.util.io_logging as io_log
from clematis.engine import orchestrator as orch
from clematis.engine.orchestrator import Orchestrator
from clematis.io.log import append_jsonl

_real_enable = io_log.enable_staging


def stub(self, ctx, state, text):
    agent = ctx.agent_id
    append_jsonl("t1.jsonl", {"turn": ctx.turn_id, "agent": agent, "text": text})
    if getattr(ctx, "_dry_run_until_t4", False):
        ctx._dryrun_t4 = SNS(approved_deltas=[])
        ctx._dryrun_utter = f"say:{agent}"
        ctx._dryrun_t1 = {"graphs_touched": []}
        ctx._dryrun_t2 = {}
        return SNS(line=f"say:{agent}", events=[])
    orch.apply_changes(ctx, state, SNS(approved_deltas=[]))
    return SNS(line=f"say:{agent}", events=[])


def counting_apply(ctx, state, t4):
    state["version_etag"] = str(int(state.get("version_etag", "0")) + 1)
    return SNS(applied=0, clamps=0, version_etag=state["version_etag"], snapshot_path=None, metrics={})


def run(parallel, limit, d):
    paths.logs_dir = lambda: d
    orch.apply_changes = counting_apply
    orch.enable_staging = (lambda: _real_enable(byte_limit=limit)) if limit else _real_enable
    cfg = {"perf": {"enabled": True, "parallel": {"enabled": parallel, "agents": parallel, "max_workers": 4 if parallel else 1}}}
    ctx = SNS(cfg=cfg, turn_id=3)
    state = {"graphs_by_agent": {"A": ["GA"], "B": ["GB"]}}
    err = None
    try:
        orch._run_agents_parallel_batch(ctx, state, [("A", "bad \ud800 text"), ("B", "fine")])
    except UnicodeEncodeError as exc:
        err = type(exc).__name__
    return err, state.get("version_etag", "0")


Orchestrator.run_turn = stub
with tempfile.TemporaryDirectory() as a, tempfile.TemporaryDirectory() as b, tempfile.TemporaryDirectory() as c:
    seq = run(False, None, a)
    big = run(True, None, b)
    tiny = run(True, 1, c)
print("sequential        : error", seq[0], "final version", seq[1])
print("batch, 32 MiB cap : error", big[0], "final version", big[1])
print("batch, 1 byte cap : error", tiny[0], "final version", tiny[1])
sys.exit(1 if (big != seq or tiny != big) else 0)
