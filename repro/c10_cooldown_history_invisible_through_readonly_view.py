"""Side observation (unchanged code): cooldown history is invisible through the engine's own read-only state
view (clematis.engine.stages.state_clone.readonly_snapshot), which the agent-parallel driver hands to run_turn ->
t4_filter. freeze() turns state.meta (SimpleNamespace or dict) into a FrozenDict, which is a Mapping but not a
dict, and t4._get_last_turn_map only falls back to .get() for real dicts. Result: an op still in cooldown gets
its delta approved and is not reported. Exit 1 when the violation shows.
"""
import sys
from types import SimpleNamespace as NS, MappingProxyType

from clematis.engine.stages.t4 import t4_filter
from clematis.engine.stages.state_clone import readonly_snapshot
from clematis.engine.types import ProposedDelta

ctx = NS(turn_id=10, config=NS(t4={"delta_norm_cap_l2": 1.5, "novelty_cap_per_node": 0.3,
                                   "churn_cap_edges": 64, "cooldowns": {"EditGraph": 2}}))
plan = {"ops": [{"kind": "EditGraph"}],
        "deltas": [ProposedDelta("node", "n:a", "weight", 0.2, op_idx=0)]}

bad = 0
for label, state in [
    ("meta=SimpleNamespace", NS(meta=NS(cooldowns={"EditGraph": 9}))),
    ("meta=dict", NS(meta={"cooldowns": {"EditGraph": 9}})),
]:
    live = t4_filter(ctx, state, None, None, plan, None)
    ro = t4_filter(ctx, readonly_snapshot(state), None, None, plan, None)
    print(label, "| live state: approved", len(live.approved_deltas), "rejected", live.rejected_ops,
          "| read-only view: approved", len(ro.approved_deltas), "rejected", ro.rejected_ops)
    assert not live.approved_deltas and live.rejected_ops  # the same history blocks on the live state
    if ro.approved_deltas or not ro.rejected_ops:
        bad += 1

# same root cause without the facade: a history kept in any Mapping that is not a dict
st = NS(meta=NS(cooldowns=MappingProxyType({"EditGraph": 9})))
r = t4_filter(ctx, st, None, None, plan, None)
print("history in a MappingProxyType: approved", len(r.approved_deltas), "rejected", r.rejected_ops)
if r.approved_deltas:
    bad += 1

sys.exit(1 if bad else 0)
