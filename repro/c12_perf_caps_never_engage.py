"""perf.t1.caps.visited and perf.t1.dedupe_window never engage: an empty DedupeRing / DeterministicLRUSet is falsy.

t1.py guards every use with `if ring:` / `if visited_lru:`; both classes define __len__, so the freshly built
(empty) container is falsy, add() is never reached and the container stays empty for the whole run.
Clause: "with and without perf caps ... counters that match the work done": with visited cap 8 on a 4-node cyclic
graph every node is expanded dozens of times (pops equal to the run without perf caps) and t1_dedup_hits /
t1_visited_evicted are 0 by construction.
"""
import copy, sys
from clematis.engine.types import Config
from clematis.graph.store import InMemoryGraphStore, Node, Edge
from clematis.engine.stages.t1 import t1_propagate
from clematis.engine.util.ring import DedupeRing
from clematis.engine.util.lru_det import DeterministicLRUSet

def run(perf):
    cfg = Config()
    cfg.t1 = copy.deepcopy(cfg.t1)
    cfg.t1["cache"] = {"enabled": False}
    if perf is not None:
        cfg.perf = perf
    s = InMemoryGraphStore()
    s.upsert_nodes("g", [Node(id=x, label=x) for x in "abcd"])
    s.upsert_edges("g", [Edge(id=str(i), src=a, dst=b, weight=1.0, rel="supports")
                         for i, (a, b) in enumerate([("a", "b"), ("a", "c"), ("b", "d"), ("c", "d"), ("d", "a")])])
    ctx = type("Ctx", (), {"cfg": cfg})()
    return t1_propagate(ctx, {"store": s, "active_graphs": ["g"]}, "a")

off = run(None)
on = run({"enabled": True, "metrics": {"report_memory": True},
          "t1": {"caps": {"visited": 8, "frontier": 0}, "dedupe_window": 8}})
print("bool(empty ring), bool(empty visited):", bool(DedupeRing(8)), bool(DeterministicLRUSet(8)))
print("perf off pops:", off.metrics["pops"])
print("perf on  pops:", on.metrics["pops"], "dedup_hits:", on.metrics.get("t1_dedup_hits"), "visited_evicted:", on.metrics.get("t1_visited_evicted"))
if on.metrics["pops"] == off.metrics["pops"] and on.metrics["pops"] > 4 and on.metrics.get("t1_dedup_hits") == 0:
    print("VIOLATION: visited cap 8 / dedupe window 8 on 4 nodes changed nothing: each node expanded many times")
    sys.exit(1)
sys.exit(0)
