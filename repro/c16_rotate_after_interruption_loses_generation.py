#!/usr/bin/env python
"""Side observation (unchanged code): a rotation interrupted between two cascade steps, followed
by the next ordinary rotation, loses a generation that is NOT the oldest.

backups=3, generations G0 (live), G1 (.1), G2 (.2), G3 (.3).
Rotation #1 deletes .3 (G3, the oldest: allowed), moves .2 -> .3 (G2) and is then killed.
State: live=G0, .1=G1, .3=G2.  Rotation #2 (the re-run) starts by deleting .3 again - that is G2,
which is now the third-newest generation and must be kept with backups=3.
Exit 1 when G2 is lost, 0 otherwise.
"""
import os, sys, tempfile
from pathlib import Path

sys.path.insert(0, os.path.dirname(os.path.abspath(__file__)))
import clematis.scripts.rotate_logs as rl

d = Path(tempfile.mkdtemp(prefix="c16_rot_"))
live = d / "t1.jsonl"
live.write_text('{"g":0}\n'); (d / "t1.jsonl.1").write_text('{"g":1}\n')
(d / "t1.jsonl.2").write_text('{"g":2}\n'); (d / "t1.jsonl.3").write_text('{"g":3}\n')


class Killed(BaseException):
    pass


real = rl.atomic_replace
calls = {"n": 0}


def dying(src, dst, **kw):
    calls["n"] += 1
    if calls["n"] == 2:  # after ".2 -> .3", before ".1 -> .2"
        raise Killed()
    return real(src, dst, **kw)


rl.atomic_replace = dying
try:
    rl.rotate_one(str(live), backups=3)
except Killed:
    pass
rl.atomic_replace = real
print("after interrupted rotation:", {p.name: p.read_text().strip() for p in sorted(d.iterdir())})

rl.rotate_one(str(live), backups=3)  # the re-run
state = {p.name: p.read_text().strip() for p in sorted(d.iterdir())}
print("after re-run:              ", state)
kept = set(state.values())
if '{"g":2}' not in kept:
    print("VIOLATION: generation G2 lost although only", len(state), "of 3 backups are in use")
    sys.exit(1)
sys.exit(0)
