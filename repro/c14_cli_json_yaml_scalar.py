#!/usr/bin/env python
"""Side observation (unchanged code): the CLI gives a different verdict from the API for a YAML-shaped value that
is not JSON-serialisable. YAML loads `2024-01-01` as datetime.date; in a pass-through position (top-level `flags` /
`budgets`, extra keys of t1.decay, ...) the validator accepts it (API: accept; plain CLI: "OK", exit 0), but
`validate --json` then dies in json.dumps with an uncaught TypeError traceback and exit code 1 - the exit code
documented for "validation errors".

Clause contradicted: "gives the same verdict ... through all of its API variants and the CLI" / "never another
exception" (for every JSON/YAML-shaped input). Exit 1 when it shows, 0 otherwise (also 0 if PyYAML is missing).
"""
import os, subprocess, sys, tempfile
sys.path.insert(0, os.getcwd())
try:
    import yaml
except Exception:
    print("PyYAML not installed - not applicable")
    sys.exit(0)
from configs.validate import validate_config_api

text = "flags:\n  since: 2024-01-01\n"
ok, errs, _ = validate_config_api(yaml.safe_load(text))
print("API verdict:", "accept" if ok else errs)
with tempfile.TemporaryDirectory() as d:
    p = os.path.join(d, "c.yaml")
    open(p, "w").write(text)
    env = {**os.environ, "PYTHONPATH": os.getcwd()}
    plain = subprocess.run([sys.executable, "-m", "clematis.scripts.validate", p], capture_output=True, text=True, env=env)
    js = subprocess.run([sys.executable, "-m", "clematis.scripts.validate", "--json", p], capture_output=True, text=True, env=env)
print("CLI plain : exit", plain.returncode, "|", plain.stdout.split("\n")[0])
print("CLI --json: exit", js.returncode, "|", (js.stderr.strip().split("\n") or [""])[-1])
sys.exit(1 if (ok and plain.returncode == 0 and js.returncode != 0) else 0)
