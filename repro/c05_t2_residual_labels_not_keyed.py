"""C05 (a hit equals a fresh computation, incl. residual deltas, across graph edits): T2's residual nudges map the text
of the hits actually used onto the labels of ALL nodes of the active graphs (build_label_map(state)), but the T2 stage
key carries only the labels of the nodes T1 touched (inside the query text).  Relabel / add a node that T1 does not
touch so that its label occurs in a retrieved episode: a fresh T2 now nudges that node, the cached T2 result does not.
exit 1 = defect present, 0 = absent."""
import os, sys, tempfile, types
os.environ.setdefault("CLEMATIS_LOG_DIR", tempfile.mkdtemp())
sys.path.insert(0, "/repo"); os.chdir("/repo")
from configs.validate import validate_config
from clematis.graph.store import InMemoryGraphStore
from clematis.engine.types import Node
from clematis.memory.index import InMemoryIndex
from clematis.adapters.embeddings import DeterministicEmbeddingAdapter
from clematis.engine.stages.t2.core import t2_semantic
import clematis.engine.stages.t2.cache as t2cache

class AD(dict):
    __getattr__ = lambda s, k: AD(s[k]) if isinstance(s.get(k), dict) else s[k]

def world(cache_on):
    cfg = validate_config({"t1": {"decay": {"mode": "exp_floor"}}, "t2": {"cache": {"enabled": cache_on, "max_entries": 64 if cache_on else 0}, "sim_threshold": -1.0}})
    store = InMemoryGraphStore()
    store.upsert_nodes("g", [Node(id="n1", label="apple"), Node(id="n2", label="zzz")])
    idx = InMemoryIndex()
    enc = DeterministicEmbeddingAdapter(dim=32)
    idx.add({"id": "e1", "owner": "A", "text": "banana bread recipe", "ts": "2025-01-01T00:00:00Z", "vec_full": enc.encode(["banana bread recipe"])[0], "aux": {}, "importance": 0.5})
    state = {"store": store, "active_graphs": ["g"], "mem_index": idx, "_boot_loaded": True}
    ctx = types.SimpleNamespace(cfg=AD(cfg), config=AD(cfg), now="2025-01-02T00:00:00Z", agent_id="A", turn_id=1)
    return ctx, state, store

def run(cache_on):
    try:
        t2cache._T2_CACHE = None
    except Exception:
        pass
    ctx, state, store = world(cache_on)
    t1 = types.SimpleNamespace(graph_deltas=[], metrics={})
    r1 = t2_semantic(ctx, state, "bread", t1)
    # graph edit between two identical queries: node n2 (untouched by T1) gets a label found in the retrieved episode
    store.upsert_nodes("g", [Node(id="n2", label="banana")])
    r2 = t2_semantic(ctx, state, "bread", t1)
    return [d["id"] for d in r1.graph_deltas_residual], [d["id"] for d in r2.graph_deltas_residual], r2.metrics.get("cache_hits", r2.metrics.get("cache_used"))

off = run(False)
on = run(True)
print("cache off:", off)
print("cache on :", on)
if off[:2] != on[:2]:
    print("DEFECT: residual deltas after the relabel differ: fresh", off[1], "vs cached", on[1])
    sys.exit(1)
print("OK: identical residual deltas with the cache on and off")
