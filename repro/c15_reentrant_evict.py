"""An on_evict callback that puts into the same LRUBytes (e.g. re-files the evicted value under another key)
runs while put() holds a stale local byte total; the outer put then overwrites the running total.
Result: size_bytes() under-reports and the byte cap is really exceeded.
Contradicts: 'stay within their entry and byte capacities after every operation, account sizes exactly'."""
import sys
from clematis.engine.util.lru_bytes import LRUBytes

box = {}

def on_evict(k, v, cost):
    if not str(k).startswith("old:"):
        box["c"].put("old:" + str(k), v, cost)

c = LRUBytes(max_entries=0, max_bytes=10, on_evict=on_evict)
box["c"] = c
c.put("a", "A", 5)
c.put("b", "B", 5)
c.put("c", "C", 5)  # evicts a -> callback re-files it as old:a (5 bytes)

real = sum(cost for (_v, cost) in c._map.values())
print("keys            :", list(c.keys()))
print("size_bytes()    :", c.size_bytes())
print("sum of costs    :", real)
print("max_bytes       :", c.max_bytes)
bad = (c.size_bytes() != real) or (real > c.max_bytes)
if bad:
    print("VIOLATION: byte accounting drifted / byte cap exceeded")
sys.exit(1 if bad else 0)
