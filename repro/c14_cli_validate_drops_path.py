"""C14 (same verdict through all API variants and the CLI): `python -m clematis validate <path>` handed the delegate's
main() its arguments without a program name; main parses argv[1:], so the path was dropped and configs/config.yaml was
validated instead - an invalid config printed OK with exit 0 while validate_config and the script reject it.  With --json an
error message containing braces ended in an uncaught JSONDecodeError.  exit 1 = defect present, 0 = absent."""
import os, subprocess, sys, tempfile
ROOT = "/repo"
bad = tempfile.NamedTemporaryFile("w", suffix=".yaml", delete=False); bad.write("t2:\n  backend: nope\n"); bad.close()
env = dict(os.environ, PYTHONPATH=ROOT)
cli = subprocess.run([sys.executable, "-m", "clematis", "validate", bad.name], capture_output=True, text=True, cwd=ROOT, env=env)
scr = subprocess.run([sys.executable, "-m", "clematis.scripts.validate", bad.name], capture_output=True, text=True, cwd=ROOT, env=env)
js = subprocess.run([sys.executable, "-m", "clematis", "validate", "--json", bad.name], capture_output=True, text=True, cwd=ROOT, env=env)
print("cli rc", cli.returncode, (cli.stdout + cli.stderr).strip().splitlines()[:1]); print("script rc", scr.returncode); print("cli --json rc", js.returncode, "Traceback" in js.stderr)
os.unlink(bad.name)
sys.exit(1 if (cli.returncode == 0 or cli.returncode != scr.returncode or "Traceback" in js.stderr) else 0)
