import sys
import numpy as np
from clematis.engine.types import Config, T1Result
from clematis.engine.stages.t2 import t2_semantic
from clematis.graph.store import InMemoryGraphStore, Node
from clematis.memory.index import InMemoryIndex


class Enc:
    dim = 4

    def encode(self, texts):
        return [np.asarray([1, 0, 0, 0], dtype=np.float32) for _ in texts]


def mkstate(labels=()):
    store = InMemoryGraphStore()
    store.ensure("g")
    if labels:
        store.upsert_nodes("g", [Node(id="n:" + l, label=l) for l in labels])
    return {"store": store, "active_graphs": ["g"]}


def ep(i, vec, owner="A", ts="2025-08-30T00:00:00Z", text="", cid=None):
    aux = {"importance": 0.5}
    if cid is not None:
        aux["cluster_id"] = cid
    return {"id": i, "owner": owner, "ts": ts, "text": text,
            "vec_full": np.asarray(vec, dtype=np.float32), "aux": aux}


def ctx(cfg, agent=None):
    c = type("Ctx", (), {})()
    c.cfg = cfg
    c.now = "2025-09-01T00:00:00Z"
    c.enc = Enc()
    if agent is not None:
        c.agent_id = agent
    return c


T1 = T1Result(graph_deltas=[], metrics={})

# owner_scope="agent" but the context carries no agent_id (run_t2 / t2_pipeline build such a ctx when
# the caller passes none): owner_for_query returns None, which the index treats as "no owner filter",
# so agent scope yields every owner's memories.
cfg = Config()
cfg.t2["tiers"] = ["exact_semantic"]
cfg.t2["sim_threshold"] = -1.0
cfg.t2["owner_scope"] = "agent"
st = mkstate()
idx = InMemoryIndex()
st["mem_index"] = idx
idx.add(ep("a", [1, 0, 0, 0], owner="A"))
idx.add(ep("b", [1, 0, 0, 0], owner="B"))
r = t2_semantic(ctx(cfg, agent=None), st, "q", T1)
owners = sorted({h.owner for h in r.retrieved})
print("agent scope, no agent_id ->", [(h.id, h.owner) for h in r.retrieved])
if len(owners) > 1:
    print("VIOLATION: agent scope returned memories of several owners:", owners)
    sys.exit(1)
sys.exit(0)
