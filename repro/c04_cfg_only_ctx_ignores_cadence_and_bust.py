#!/usr/bin/env python
"""Side observation (unchanged checkout): a ctx that carries its configuration in `ctx.cfg`
only (the shape run_smoke_turn and scripts/console.py build) has its T4 kill switch read from
ctx.cfg by the orchestrator, but apply_changes reads ctx.config only.  The configured snapshot
cadence and cache busting are therefore ignored on committed turns: a snapshot is written on a
turn that is off the configured cadence, and the configured namespace is not invalidated.

Exit 1 when the violation shows, 0 otherwise.
"""
import json
import os
import sys
import tempfile
from types import SimpleNamespace

TMP = tempfile.mkdtemp(prefix="observe_c04_cfg_")
os.environ["CLEMATIS_LOG_DIR"] = os.path.join(TMP, "logs")
os.environ["CLEMATIS_LOGS_DIR"] = os.path.join(TMP, "logs")
os.makedirs(os.environ["CLEMATIS_LOG_DIR"], exist_ok=True)
sys.path.insert(0, os.getcwd())

from configs.validate import validate_config  # noqa: E402
import clematis.engine.orchestrator as orch  # noqa: E402
from clematis.graph.store import InMemoryGraphStore  # noqa: E402

NS = "t2:semantic"


class AttrDict(dict):
    def __getattr__(self, name):
        try:
            return self[name]
        except KeyError as e:
            raise AttributeError(name) from e

    def __setattr__(self, name, value):
        self[name] = value


def to_attr(obj):
    if isinstance(obj, dict):
        return AttrDict({k: to_attr(v) for k, v in obj.items()})
    if isinstance(obj, list):
        return [to_attr(v) for v in obj]
    return obj


def read_jsonl(name):
    p = os.path.join(os.environ["CLEMATIS_LOG_DIR"], name)
    if not os.path.isfile(p):
        return []
    with open(p, "r", encoding="utf-8") as fh:
        return [json.loads(line) for line in fh if line.strip()]


def main() -> int:
    snap_dir = os.path.join(TMP, "snaps")
    cfg = to_attr(
        validate_config(
            {
                "t4": {
                    "enabled": True,
                    "cache_bust_mode": "on-apply",
                    "snapshot_every_n_turns": 5,
                    "snapshot_dir": snap_dir,
                    "cache": {"enabled": True, "namespaces": [NS]},
                }
            }
        )
    )
    # configuration carried in ctx.cfg only, as run_smoke_turn / console do
    ctx = SimpleNamespace(turn_id=1, agent_id="obs", now=None, now_ms=0, cfg=cfg)
    state = {"version_etag": "0", "store": InMemoryGraphStore()}

    orch.run_turn(ctx, state, "hello")

    applies = read_jsonl("apply.jsonl")
    assert len(applies) == 1, "turn should have committed (kill switch on in ctx.cfg)"
    rec = applies[0]
    cm = state.get("_cache_mgr")
    ns_obj = cm._ns.get(NS) if cm is not None else None
    left = ns_obj.size() if ns_obj is not None else 0
    print(f"turn 1, configured cadence 5: snapshot={rec.get('snapshot')!r}")
    print(f"cache_bust_mode=on-apply: cache_invalidations={rec.get('cache_invalidations')}, entries left in {NS!r}: {left}")

    bad = False
    if rec.get("snapshot"):
        print("VIOLATION: snapshot written on turn 1 although t4.snapshot_every_n_turns=5 (1 % 5 != 0)")
        bad = True
    if left != 0:
        print("VIOLATION: configured namespace not invalidated on a committed turn with cache busting on")
        bad = True
    return 1 if bad else 0


if __name__ == "__main__":
    sys.exit(main())
