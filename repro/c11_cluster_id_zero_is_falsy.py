import sys
import numpy as np
from clematis.engine.types import Config, T1Result
from clematis.engine.stages.t2 import t2_semantic
from clematis.graph.store import InMemoryGraphStore, Node
from clematis.memory.index import InMemoryIndex


class Enc:
    dim = 4

    def encode(self, texts):
        return [np.asarray([1, 0, 0, 0], dtype=np.float32) for _ in texts]


def mkstate(labels=()):
    store = InMemoryGraphStore()
    store.ensure("g")
    if labels:
        store.upsert_nodes("g", [Node(id="n:" + l, label=l) for l in labels])
    return {"store": store, "active_graphs": ["g"]}


def ep(i, vec, owner="A", ts="2025-08-30T00:00:00Z", text="", cid=None):
    aux = {"importance": 0.5}
    if cid is not None:
        aux["cluster_id"] = cid
    return {"id": i, "owner": owner, "ts": ts, "text": text,
            "vec_full": np.asarray(vec, dtype=np.float32), "aux": aux}


def ctx(cfg, agent=None):
    c = type("Ctx", (), {})()
    c.cfg = cfg
    c.now = "2025-09-01T00:00:00Z"
    c.enc = Enc()
    if agent is not None:
        c.agent_id = agent
    return c


T1 = T1Result(graph_deltas=[], metrics={})

# aux.cluster_id == 0 (a legitimate integer id) is falsy, so _stable_cluster_id falls back to a per-episode
# hash: the two members of cluster 0 become two singleton clusters and clusters_top_m=1 returns only one of
# them although both belong to the best cluster.
cfg = Config()
cfg.t2["tiers"] = ["cluster_semantic"]
cfg.t2["sim_threshold"] = -1.0
cfg.t2["clusters_top_m"] = 1
st = mkstate()
idx = InMemoryIndex()
st["mem_index"] = idx
idx.add(ep("a1", [1, 0, 0, 0], cid=0))
idx.add(ep("a2", [1, 0.1, 0, 0], cid=0))
idx.add(ep("b1", [0, 1, 0, 0], cid=1))
idx.add(ep("b2", [0, 1, 0.1, 0], cid=1))
got = [h.id for h in t2_semantic(ctx(cfg), st, "q", T1).retrieved]
print("cluster_id 0, top_m=1 ->", got)
if got != ["a1", "a2"]:
    print("VIOLATION: the top cluster (id 0) was not treated as one cluster; expected ['a1','a2']")
    sys.exit(1)
sys.exit(0)
