#!/usr/bin/env python
"""
Side observation for C07 against the UNCHANGED checkout.

apply_delta starts from copy.deepcopy(base).  deepcopy keeps object identity inside the copy: when one dict object
sits at two places of the base payload (the engine itself builds such states - load_latest_snapshot stores the SAME
gel dict under state["graph"] and state["gel"]; an empty default reused for several fields does the same), the copy
holds one object at both places too, and a path written below one of them shows up below the other.

    apply_delta(base, compute_delta(base, curr)) != curr      for such a base,

although base and curr are plain JSON-serialisable objects and compute_delta produced the right delta.
(Through the file formats the baseline is re-read from JSON, which yields a tree, so the disk path is not affected.)

Exit 1 when the rebuilt payload differs from curr, 0 otherwise.
"""
import json
import sys

from clematis.engine.util.snapshot_delta import compute_delta, apply_delta

gel = {"nodes": {}, "edges": {}}
base = {"graph": gel, "gel": gel}  # as left on the state by load_latest_snapshot
curr = {"graph": {"nodes": {"n1": {"w": 1}}, "edges": {}}, "gel": {"nodes": {}, "edges": {}}}

assert json.dumps(base, sort_keys=True) == '{"gel": {"edges": {}, "nodes": {}}, "graph": {"edges": {}, "nodes": {}}}'
delta = compute_delta(base, curr)
assert delta == {"_adds": {"graph.nodes.n1": {"w": 1}}, "_mods": {}, "_dels": []}, delta  # the delta is right

rebuilt = apply_delta(base, delta)
if json.dumps(rebuilt, sort_keys=True) != json.dumps(curr, sort_keys=True):
    print("apply_delta(base, compute_delta(base, curr)) != curr")
    print("  curr   ", json.dumps(curr, sort_keys=True))
    print("  rebuilt", json.dumps(rebuilt, sort_keys=True))
    sys.exit(1)
sys.exit(0)
