#!/usr/bin/env python
"""
Side observation (unchanged checkout): a reflection request stashed on a dict state outlives the turn it was made
for, so later turns whose plan does NOT request reflection still reflect and write a memory entry.

The gate reads Plan.reflection or, failing that, state["_planner_reflection_flag"] (dict state) /
state._planner_reflection_flag (attribute state).  Fix cf534dc made the rule-based branch of run_policy clear a stale
flag - with hasattr()/setattr(), i.e. for attribute states only - and Orchestrator.run_turn (which plans through
deliberate(), not run_policy) never clears or consumes the flag for either kind of state.  The drivers in this
repository all use plain dict states.

Sequence: turn 1 carries a request (stashed on the dict state exactly as tests/reflection/test_reflection_gate_plumbing.py
does); then a rule-based run_policy() call and two more turns follow whose plans have reflection=False.

Exit 1 when a turn without a request wrote a reflection entry, 0 otherwise.
"""
import os, sys, tempfile, json
ROOT = "/repo"; sys.path.insert(0, ROOT)
_tmp = tempfile.mkdtemp(prefix="c19obs_"); os.environ["CLEMATIS_LOG_DIR"] = _tmp; os.environ["CLEMATIS_LOGS_DIR"] = _tmp
os.chdir(_tmp)
from types import SimpleNamespace as SNS
from clematis.engine.orchestrator import core
from clematis.engine.stages.t3.policy import run_policy
from clematis.memory.index import InMemoryIndex
from configs.validate import validate_config


class AD(dict):
    def __getattr__(self, k):
        try:
            return self[k]
        except KeyError as e:
            raise AttributeError(k) from e


def ad(o):
    if isinstance(o, dict):
        return AD({k: ad(v) for k, v in o.items()})
    if isinstance(o, list):
        return [ad(v) for v in o]
    return o


cfg = ad(validate_config({"t3": {"allow_reflection": True, "reflection": {"topk_snippets": 0, "embed": False}},
                          "scheduler": {"budgets": {"ops_reflection": 1}}}))
idx = InMemoryIndex()
state = {"memory_index": idx, "version_etag": "0"}

# turn 1: the planner asked for a reflection pass
state["_planner_reflection_flag"] = True
core.run_turn(SNS(turn_id=1, agent_id="A", now_ms=1000, cfg=cfg), state, "hello")

# a rule-based planning pass over the same state: its plan never requests reflection
try:
    run_policy({"name": "rulebased"}, {"cfg": dict(cfg), "t1": {}, "t2": {}, "text": {}, "labels_from_t1": [], "now": "", "agent": {}, "world_hot_labels": [], "slice_budgets": {}}, dict(cfg), SNS(turn_id=2, agent_id="A", cfg=cfg), state=state)
except Exception as exc:  # the bundle shape is irrelevant here: the clearing happens before deliberate()
    print("(run_policy rule-based raised after its clearing step:", type(exc).__name__, ")")
print("flag after rule-based run_policy on the dict state:", state.get("_planner_reflection_flag"))

# turns 2 and 3: the orchestrator's own rule-based planner, Plan.reflection is False
for t in (2, 3):
    core.run_turn(SNS(turn_id=t, agent_id="A", now_ms=1000 * t, cfg=cfg), state, "hello again")

plans = [json.loads(l) for l in open(os.path.join(_tmp, "t3_plan.jsonl"))]
refl_log = [json.loads(l) for l in open(os.path.join(_tmp, "t3_reflection.jsonl"))]
written = sorted(e["id"] for e in idx._eps if "reflection" in (e.get("tags") or []))
print("reflection entries in the index:", written)
print("t3_reflection.jsonl turns:", [r["turn"] for r in refl_log])
late = [i for i in written if not i.startswith("refl-1-")]
if late:
    print("VIOLATION: turns 2/3 reflected and wrote", late, "although no plan of those turns requested reflection")
    sys.exit(1)
print("ok")
sys.exit(0)
