#!/usr/bin/env python3
"""C14 side observation (unchanged code): a JSON document may spell a lone surrogate in a key ({"\\ud800": 1}); PyYAML
loads it. The API variants reject the unknown key with the typed ConfigError. The CLI then print()s the message to a
UTF-8 stdout, which raises UnicodeEncodeError: the operator gets a traceback instead of 'CONFIG INVALID ...' (both CLI
modes; the log writer got the equivalent repair in 972f47d, the validator CLI did not).
Exit 1 = violation shown; exit 0 otherwise."""
import os
import subprocess
import sys
import tempfile

ROOT = "/repo"
sys.path.insert(0, ROOT)
from configs.validate import validate_config_api

ok, errs, _ = validate_config_api({"\ud800": 1})
print("API verdict:", "accepted" if ok else f"rejected with {len(errs)} typed message(s)")
env = dict(os.environ, PYTHONPATH=ROOT, PYTHONIOENCODING="utf-8")
with tempfile.TemporaryDirectory() as td:
    p = os.path.join(td, "cfg.json")
    with open(p, "w", encoding="ascii") as f:
        f.write('{"\\ud800": 1}\n')
    pr = subprocess.run(
        [sys.executable, "-m", "clematis", "validate", p], cwd=ROOT, env=env, capture_output=True, text=True
    )
tail = (pr.stderr.strip().splitlines() or [""])[-1]
print(f"CLI exit {pr.returncode}; stdout has CONFIG INVALID: {'CONFIG INVALID' in pr.stdout}; stderr ends with: {tail!r}")
sys.exit(1 if ("UnicodeEncodeError" in pr.stderr and not ok) else 0)
