#!/usr/bin/env python3
"""Side observation (unchanged code): during a log capture (LogMux active, i.e. the compute phase
of the agent-parallel driver) clematis.io.log.append_jsonl keeps `copy.deepcopy(record)`; when the
deep copy raises it "falls back to write-through". A deeply nested record (here 600 levels - fine
for json.dumps, too deep for copy.deepcopy under the default recursion limit) is therefore written
to the stream at once, while the records the same writer appended BEFORE it are still in the
buffer and reach the stream only at commit: the writer's records change order on disk.

Clause contradicted: "records of one writer keep their order" (quantified over "all record shapes
and sizes").

Exit 1 when the violation shows, 0 otherwise.
"""
from __future__ import annotations

import json
import os
import sys
import tempfile

d = tempfile.mkdtemp(prefix="c16_obs_deep_")
os.environ["CLEMATIS_LOG_DIR"] = d
os.environ.pop("CI", None)

from clematis.engine.util.logmux import LogMux, use_mux  # noqa: E402
from clematis.io.log import append_jsonl, _append_jsonl_unbuffered  # noqa: E402

deep: object = "leaf"
for _ in range(600):
    deep = {"n": deep}

mux = LogMux()
with use_mux(mux):
    append_jsonl("t2.jsonl", {"seq": 1})
    append_jsonl("t2.jsonl", {"seq": 2, "trace": deep})
    append_jsonl("t2.jsonl", {"seq": 3})
# commit phase: what the driver does with the captured pairs (stage -> _append_jsonl_unbuffered)
for stream, rec in mux.dump():
    _append_jsonl_unbuffered(stream, rec)

with open(os.path.join(d, "t2.jsonl"), "rb") as f:
    seqs = [json.loads(ln)["seq"] for ln in f.read().split(b"\n") if ln]
print("appended seq 1,2,3; on disk:", seqs)
if seqs != [1, 2, 3]:
    print("VIOLATION: one writer's records are out of order (deep record bypassed the capture buffer)")
    sys.exit(1)
sys.exit(0)
