"""Side observation (unchanged code): an id listed twice in one observation (both above the
threshold) is paired with itself and with every other item twice:
  items a:0.9, a:0.8, b:0.7  ->  self-loop edge "a→a" (not an unordered pair of items), and
  edge a→b raised by 2*alpha in a single observation;
  with pair_cap_per_obs=1 the single allowed update is spent on the self-loop and no real pair
  is updated at all.
Exit 1 when a self-loop edge appears.
"""
import sys
from clematis.engine import gel


class S:
    pass


def cfg(cap):
    return {"graph": {"enabled": True, "coactivation_threshold": 0.2, "pair_cap_per_obs": cap,
                      "update": {"mode": "additive", "alpha": 0.1, "clamp_min": -1.0, "clamp_max": 1.0}}}


bad = 0
for cap in (2048, 1):
    s = S()
    m = gel.observe_retrieval(cfg(cap), s, [("a", .9), ("a", .8), ("b", .7)])
    edges = {k: (r["src"], r["dst"], r["weight"]) for k, r in s.graph["edges"].items()}
    print(f"cap={cap} pairs_updated={m['pairs_updated']} edges={edges}")
    if any(r[0] == r[1] for r in edges.values()):
        bad += 1
sys.exit(1 if bad else 0)
