#!/usr/bin/env python3
"""C14 side observation (unchanged code): t1.decay is validated key by key but its other entries pass through
verbatim (there is no allowed-key set for t1.decay). T1 puts the whole mapping through json.dumps(sort_keys=True) for its
cache key, so an accepted configuration with a non-string extra key (YAML: '1: x') or a YAML-only scalar value (a date)
makes the turn raise TypeError as soon as the input text matches a node label.
Exit 1 = violation shown (accepted config, turn raises); exit 0 otherwise."""

import os, sys, tempfile
from types import SimpleNamespace
ROOT = "/repo"
if ROOT not in sys.path:
    sys.path.insert(0, ROOT)
from configs.validate import validate_config
from clematis.errors import ConfigError
from clematis.engine.orchestrator.core import Orchestrator
from clematis.graph.store import InMemoryGraphStore, Node, Edge


class _AttrDict(dict):
    def __getattr__(self, name):
        try:
            return self[name]
        except KeyError as e:
            raise AttributeError(name) from e


def _attr(o):
    if isinstance(o, dict):
        return _AttrDict({k: _attr(v) for k, v in o.items()})
    if isinstance(o, list):
        return [_attr(v) for v in o]
    return o


def small_world():
    store = InMemoryGraphStore()
    store.ensure("g:surface")
    store.upsert_nodes(
        "g:surface",
        [Node(id="n:hello", label="hello"), Node(id="n:world", label="world"), Node(id="n:reply", label="reply")],
    )
    store.upsert_edges(
        "g:surface",
        [
            Edge(id="e:h->w", src="n:hello", dst="n:world", weight=0.8, rel="supports"),
            Edge(id="e:w->r", src="n:world", dst="n:reply", weight=0.5, rel="associates"),
        ],
    )
    return {"store": store, "active_graphs": ["g:surface"], "version_etag": "0"}


def run_turn_under(cfg, text, keep_snapshot_dir=False):
    """validate cfg (must be accepted), then run one turn of the real orchestrator on a 3-node world."""
    tmp = tempfile.mkdtemp(prefix="obs_c14_")
    os.environ["CLEMATIS_LOG_DIR"] = os.path.join(tmp, "logs")
    norm = validate_config(cfg)  # ConfigError here would mean: rejected (no violation)
    if not keep_snapshot_dir:
        norm["t4"]["snapshot_dir"] = os.path.join(tmp, "snaps")
    ctx = SimpleNamespace(turn_id="1", agent_id="A", now=None, now_ms=0, cfg=_attr(norm))
    return Orchestrator().run_turn(ctx, small_world(), text)


import datetime

shown = 0
for label, cfg in {
    "int extra key": {"t1": {"decay": {"mode": "exp_floor", 1: "x"}}},
    "date value": {"t1": {"decay": {"since": datetime.date(2024, 1, 1)}}},
}.items():
    try:
        run_turn_under(cfg, "hello world")
        print(f"{label}: accepted and the turn ran")
    except ConfigError as e:
        print(f"{label}: rejected by the validator ({e})")
    except Exception as e:
        print(f"{label}: ACCEPTED by validate_config, but the turn raised {type(e).__name__}: {e}")
        shown += 1
sys.exit(1 if shown else 0)

