#!/usr/bin/env python
"""
Side observation (unchanged code): apply_changes guards the *call* of store.apply_deltas, but looks the method up
unguarded (``getattr(store, "apply_deltas", None)``).  A store that resolves its API lazily (a proxy / remote handle
whose attribute lookup raises while the backend is down - any exception other than AttributeError) makes
apply_changes raise: the version is not bumped, no snapshot is written, Orchestrator.run_turn is aborted and no
apply / turn record is written.  The snapshot exporter got exactly this guard in 4165f1c ("every read of the store is
guarded"), apply.py did not.

Contradicts: "errors inside the store never abort the turn or skip the version bump".

Exit 1 when the violation shows, 0 otherwise.
"""
from __future__ import annotations

import os
import sys
import tempfile
from types import SimpleNamespace

_TMP = tempfile.mkdtemp(prefix="obs_c04_attr_")
os.environ["CLEMATIS_LOG_DIR"] = os.path.join(_TMP, "logs")

from clematis.engine.apply import apply_changes  # noqa: E402
from clematis.engine.types import ProposedDelta, T4Result  # noqa: E402


class LazyStore:
    """Resolves its write API on first use; the backend is down on the listed turns."""

    def __init__(self):
        self.down = False
        self.w = {}

    def _apply(self, gid, deltas):
        for d in deltas:
            k = (d.target_kind, d.target_id, d.attr)
            self.w[k] = self.w.get(k, 0.0) + float(d.delta)
        return {"edits": len(deltas)}

    @property
    def apply_deltas(self):
        if self.down:
            raise ConnectionError("graph backend unreachable")
        return self._apply


def t4():
    return T4Result(
        approved_deltas=[ProposedDelta("node", "n:a", "weight", 0.1)], rejected_ops=[], reasons=[], metrics={}
    )


violations = []

# --- direct: apply_changes ----------------------------------------------------------------------------------------
t4cfg = {"enabled": True, "snapshot_every_n_turns": 1, "snapshot_dir": os.path.join(_TMP, "snaps"),
         "cache_bust_mode": "none"}
ctx = SimpleNamespace(turn_id=2, agent_id="obs", config=SimpleNamespace(t4=t4cfg))
store = LazyStore()
state = SimpleNamespace(store=store, version_etag="10")
apply_changes(ctx, state, t4())
assert state.version_etag == "11"
store.down = True
try:
    res = apply_changes(ctx, state, t4())
    print(f"apply_changes with the store down: returned, version {state.version_etag!r}")
    if state.version_etag != "12":
        violations.append("version not bumped")
except Exception as exc:  # noqa: BLE001
    print(f"apply_changes with the store down: raised {type(exc).__name__}: {exc}; version still {state.version_etag!r}")
    violations.append(f"apply_changes raised {type(exc).__name__} out of a store fault; version bump skipped "
                      f"(version {state.version_etag!r}, expected '12')")

# --- through the orchestrator -------------------------------------------------------------------------------------
from configs.validate import validate_config  # noqa: E402
from clematis.engine.orchestrator.core import Orchestrator  # noqa: E402


class AD(dict):
    def __getattr__(self, name):
        try:
            return self[name]
        except KeyError as e:
            raise AttributeError(name) from e


def ad(o):
    if isinstance(o, dict):
        return AD({k: ad(v) for k, v in o.items()})
    if isinstance(o, list):
        return [ad(v) for v in o]
    return o


cfg = ad(validate_config({"t4": {"snapshot_every_n_turns": 1, "snapshot_dir": os.path.join(_TMP, "snaps_orch")}}))
store2 = LazyStore()
state2 = {"version_etag": "0", "store": store2}
for turn, down in ((1, False), (2, True)):
    store2.down = down
    c = SimpleNamespace(turn_id=turn, agent_id="obs", now=None, now_ms=0, cfg=cfg, config=cfg)
    try:
        Orchestrator().run_turn(c, state2, "hello")
        print(f"run_turn turn {turn} (store down={down}): completed, version {state2['version_etag']!r}")
    except Exception as exc:  # noqa: BLE001
        print(f"run_turn turn {turn} (store down={down}): ABORTED with {type(exc).__name__}: {exc}; "
              f"version {state2['version_etag']!r}")
        violations.append(f"run_turn aborted by a store fault on turn {turn}; version stayed {state2['version_etag']!r}")

if violations:
    print("\nVIOLATION:")
    for v in violations:
        print("  -", v)
    sys.exit(1)
print("\nno violation observed")
sys.exit(0)
