#!/usr/bin/env python
"""
Side observation (unchanged checkout): scripts/mem_compact.py (offline snapshot compaction) writes the compacted
snapshots with Path.write_text / write_bytes straight onto their final names. A write that fails half-way leaves a
truncated 'snapshot-<etag>.full.json' under its real name: there is no temp name to tell it from a finished snapshot,
so snapshot discovery (_find_snapshot_file / read_snapshot) takes it for real data and fails on it (or, when the cut
falls after the header line, the baseline reader quietly treats it as missing).

Run from the worktree root:  PYTHONPATH=. /venv/bin/python observe_C08_mem_compact_partial_snapshot.py
Exit 1 = violation shown, 0 = not shown.
"""
from __future__ import annotations

import errno
import importlib.util
import os
import sys
import tempfile
from pathlib import Path

from clematis.engine.snapshot import write_snapshot_auto, read_snapshot, _find_snapshot_file


def _load_mem_compact():
    here = "/repo"
    spec = importlib.util.spec_from_file_location("mem_compact", os.path.join(here, "scripts", "mem_compact.py"))
    mod = importlib.util.module_from_spec(spec)
    spec.loader.exec_module(mod)
    return mod


def main() -> int:
    mc = _load_mem_compact()
    root = tempfile.mkdtemp(prefix="c08_obs_compact_")
    src = os.path.join(root, "in")
    dst = os.path.join(root, "out")
    payload = {"store": {"w": {f"n{i}": i / 7 for i in range(200)}}, "version_etag": "E1"}
    write_snapshot_auto(src, etag_from=None, etag_to="E1", payload=payload)
    assert read_snapshot(root=src, etag_to="E1") == payload

    real_write_text = Path.write_text

    def half_then_enospc(self, data, *a, **kw):
        if str(self).startswith(dst):
            with open(self, "w", encoding=kw.get("encoding")) as fh:
                fh.write(data[: len(data) // 2])
            raise OSError(errno.ENOSPC, "No space left on device")
        return real_write_text(self, data, *a, **kw)

    Path.write_text = half_then_enospc
    try:
        try:
            mc.run(src, dst, None, "none", 3, False, False)
        except OSError as e:
            assert e.errno == errno.ENOSPC
        else:
            print("injected failure did not surface")
            return 0
    finally:
        Path.write_text = real_write_text

    found = _find_snapshot_file(dst, "snapshot-E1.full")
    print("files in the output directory after the failed compaction:", sorted(os.listdir(dst)))
    if not found:
        return 0
    size = os.path.getsize(found)
    full = os.path.getsize(_find_snapshot_file(src, "snapshot-E1.full"))
    print(f"discovery returns {found} ({size} bytes; the complete snapshot has about {full})")
    try:
        got = read_snapshot(root=dst, etag_to="E1")
    except Exception as e:
        print(f"read_snapshot on it raises {type(e).__name__}: {e}")
        return 1
    if got != payload:
        print("read_snapshot returns a payload that is not the snapshot's")
        return 1
    return 0


if __name__ == "__main__":
    sys.exit(main())
