#!/usr/bin/env python
"""
Side observation (unchanged checkout): the JSON export written by `clematis export-logs` (--out bundle) does not go
through the atomic write path. The destination is opened with mode "w" (truncated in place) and written directly, so

  * a write that fails half-way (ENOSPC here) leaves the bundle neither the previous export nor the new one, and
  * a reader looking between the open and the write sees an empty file.

Run from the worktree root:  PYTHONPATH=. /venv/bin/python observe_C08_export_bundle_truncated.py
Exit 1 = violation shown, 0 = not shown.
"""
from __future__ import annotations

import builtins
import errno
import json
import os
import sys
import tempfile
from types import SimpleNamespace

from clematis.engine.snapshot import write_snapshot
from clematis.scripts import export_logs_for_frontend as exp


def main() -> int:
    root = tempfile.mkdtemp(prefix="c08_obs_export_")
    logs = os.path.join(root, "logs")
    snaps = os.path.join(root, "snaps")
    os.makedirs(logs)
    out = os.path.join(root, "out", "run_bundle.json")
    ctx = SimpleNamespace(agent_id="obs", turn_id=1, cfg={"t4": {"snapshot_dir": snaps}})

    write_snapshot(ctx, {"graph": {"nodes": {}, "edges": {}}}, "etag-1")
    rc = exp.main(["--logs-dir", logs, "--snapshots-dir", snaps, "--out", out])
    assert rc == 0
    old = open(out, "rb").read()
    json.loads(old)  # the previous export is a complete document

    # second export of a different state; the device fills up half-way through the write
    write_snapshot(ctx, {"graph": {"nodes": {}, "edges": {}}}, "etag-2")
    seen_by_reader = {}

    class _HalfThenEnospc:
        def __init__(self, fh):
            self._fh = fh

        def __enter__(self):
            return self

        def __exit__(self, *a):
            self._fh.close()
            return False

        def write(self, text):
            seen_by_reader["at_write"] = builtins.open(out, "rb").read()  # concurrent reader, before any byte is out
            self._fh.write(text[: len(text) // 2])
            self._fh.flush()
            raise OSError(errno.ENOSPC, "No space left on device")

    def fake_open(path, mode="r", *a, **kw):
        fh = builtins.open(path, mode, *a, **kw)
        if os.path.abspath(str(path)) == os.path.abspath(out) and "w" in mode:
            return _HalfThenEnospc(fh)
        return fh

    exp.open = fake_open  # module-level name shadows the builtin for this module only
    try:
        try:
            exp.main(["--logs-dir", logs, "--snapshots-dir", snaps, "--out", out])
        except OSError as e:
            assert e.errno == errno.ENOSPC
        else:
            print("injected failure did not surface")
            return 0
    finally:
        del exp.open

    now = open(out, "rb").read()
    # what the new export would have been
    rc = exp.main(["--logs-dir", logs, "--snapshots-dir", snaps, "--out", out + ".ref"])
    new = open(out + ".ref", "rb").read()

    bad = False
    if now not in (old, new):
        print(f"after the failed export the bundle is {len(now)} bytes: neither the previous ({len(old)}) "
              f"nor the new ({len(new)}) document")
        try:
            json.loads(now)
        except Exception as e:
            print(f"  and it is not JSON any more: {e}")
        bad = True
    r = seen_by_reader.get("at_write")
    if r is not None and r not in (old, new):
        print(f"a reader during the export saw {len(r)} bytes (neither previous nor new)")
        bad = True
    leftovers = [n for n in os.listdir(os.path.dirname(out)) if n not in ("run_bundle.json", "run_bundle.json.ref")]
    print("other files in the output directory:", leftovers)

    # the same pattern in the console's JSON export (`console step --out`): Path.write_text onto the final name
    from pathlib import Path
    from clematis.scripts import console

    step_out = os.path.join(root, "out", "step.json")
    console.write_json(step_out, {"a": list(range(50))})
    old2 = open(step_out, "rb").read()
    real_write_text = Path.write_text

    def half_then_enospc(self, data, *a, **kw):
        with builtins.open(self, "w", encoding=kw.get("encoding")) as fh:
            fh.write(data[: len(data) // 2])
        raise OSError(errno.ENOSPC, "No space left on device")

    Path.write_text = half_then_enospc
    try:
        try:
            console.write_json(step_out, {"a": list(range(60))})
        except OSError:
            pass
    finally:
        Path.write_text = real_write_text
    now2 = open(step_out, "rb").read()
    if now2 != old2:
        print(f"console.write_json: after a failed write the export is {len(now2)} bytes, the previous one had "
              f"{len(old2)}; it is not the new document either")
        bad = True
    return 1 if bad else 0


if __name__ == "__main__":
    sys.exit(main())
