"""Side observation (unchanged code): the delta codec compares values with Python `!=`, so a change between
values that are ==-equal but serialise differently (0.0 -> -0.0, 1 -> True, 1 -> 1.0) is not recorded.
A delta snapshot written by write_snapshot_auto and restored by load_latest_snapshot then yields a state whose
re-snapshot differs byte-wise from the snapshot body that was actually written.

Exit 1 when the violation shows, 0 otherwise.
"""
from __future__ import annotations

import json
import os
import sys
import tempfile
import time
from pathlib import Path
from types import SimpleNamespace

from clematis.engine.snapshot import load_latest_snapshot, write_snapshot, write_snapshot_auto


def ctx_for(d):
    return SimpleNamespace(turn_id=0, agent_id="Ag", cfg={"t4": {"snapshot_dir": d}})


def state(weight, pinned):
    g = {
        "nodes": {"a": {"id": "a", "attrs": {"pinned": pinned}}, "b": {"id": "b", "attrs": {}}},
        "edges": {"a→b": {"src": "a", "dst": "b", "rel": "coact", "weight": weight}},
        "meta": {},
    }
    return SimpleNamespace(store=None, version_etag="1", graph=g)


def body_of(st, scratch):
    p = write_snapshot(ctx_for(scratch), st, "1")
    return Path(p).read_text(encoding="utf-8")


def main() -> int:
    with tempfile.TemporaryDirectory() as scratch, tempfile.TemporaryDirectory() as d:
        # baseline: weight 0.0, pinned = 1 ; next: weight decayed to a tiny negative (rounds to -0.0), pinned = True
        body_a = body_of(state(0.0, 1), scratch)
        body_b = body_of(state(-1e-9, True), scratch)
        assert body_a != body_b, "the two bodies are expected to differ byte-wise"

        p_full, _ = write_snapshot_auto(d, etag_from=None, etag_to="A", payload=json.loads(body_a))
        p_delta, was_delta = write_snapshot_auto(d, etag_from="A", etag_to="B", payload=json.loads(body_b), delta_mode=True)
        assert was_delta, "expected a delta file"
        now = time.time()
        os.utime(p_full, (now - 10, now - 10))
        os.utime(p_delta, (now, now))
        print("delta blob:", Path(p_delta).read_text(encoding="utf-8").splitlines()[1])

        fresh = SimpleNamespace(store=None, version_etag=None)
        info = load_latest_snapshot(ctx_for(d), fresh)
        assert info["path"] == p_delta, info
        body_again = body_of(fresh, scratch)
        if body_again != body_b:
            gb, ga = json.loads(body_b)["gel"], json.loads(body_again)["gel"]
            print("written : weight", repr(gb["edges"]["a→b"]["weight"]), "pinned", repr(gb["nodes"]["a"]["attrs"]["pinned"]))
            print("restored: weight", repr(ga["edges"]["a→b"]["weight"]), "pinned", repr(ga["nodes"]["a"]["attrs"]["pinned"]))
            print("VIOLATION: re-snapshot of the state loaded from the delta differs from the body that was written")
            return 1
    return 0


if __name__ == "__main__":
    sys.exit(main())
