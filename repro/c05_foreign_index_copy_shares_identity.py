#!/usr/bin/env python
"""
Side observation (unchanged checkout): the cache identity of a memory index that is not an InMemoryIndex is a stamp
(`_uid = "x<n>"`) that index_uid() writes into the instance on first sight. InMemoryIndex re-stamps its copies
(__setstate__), a stamped foreign index does not: copy.deepcopy(state) - the usual way to fork an engine state inside
one process - yields a second index with the SAME `_uid`. Once the two states diverge with equal version counters, the
process-global T2 stage cache serves one state's retrieval to the other.

In this repo the foreign index is LanceIndex (lancedb is not installed here), so the script uses a minimal stand-in
that implements the same protocol (add / index_version / search_tiered) on top of an InMemoryIndex.

History: state A: t2("hello") ; B = deepcopy(A) ; A.add(ep "alpha") ; B.add(ep "beta") ; A: t2("hello") ; B: t2("hello").
Exit 1 when caches-on and caches-off disagree, 0 otherwise.
"""
import copy
import os
import sys
from types import SimpleNamespace

sys.path.insert(0, "/repo")

from clematis.adapters.embeddings import BGEAdapter
from clematis.engine.types import Config
from clematis.engine.stages.t2.core import t2_semantic
from clematis.memory.index import InMemoryIndex


class ForeignIndex:
    """An index backend that is not InMemoryIndex (stand-in for LanceIndex)."""

    def __init__(self):
        self._rows = []
        self._version = 0

    def add(self, ep):
        self._rows.append(ep)
        self._version += 1

    def index_version(self):
        return self._version

    def search_tiered(self, owner, q_vec, k, tier, hints):
        helper = InMemoryIndex()
        return helper._search_with_episodes(self._rows, owner, q_vec, k, tier, hints)


def run(cache_on: bool):
    cfg = Config()
    cfg.t2["cache"] = {"enabled": cache_on, "max_entries": 512, "ttl_s": 300}
    cfg.t2["sim_threshold"] = -1.0
    enc = BGEAdapter(dim=32)
    vec = enc.encode(["hello"])[0].tolist()
    ep = lambda i, text: {"id": i, "owner": "A", "text": text, "ts": "2025-01-25T00:00:00Z", "vec_full": vec, "aux": {}}
    a = {"mem_index": ForeignIndex(), "mem_backend": "inmemory"}
    a["mem_index"].add(ep("e0", "hello"))
    t1 = SimpleNamespace(graph_deltas=[])
    ctx = SimpleNamespace(cfg=cfg, now="2025-02-01T00:00:00Z", agent_id="A")
    t2_semantic(ctx, a, "hello", t1)
    b = copy.deepcopy(a)  # fork the engine state
    a["mem_index"].add(ep("e-alpha", "alpha"))
    b["mem_index"].add(ep("e-beta", "beta"))
    ra = t2_semantic(ctx, a, "hello", t1)
    rb = t2_semantic(ctx, b, "hello", t1)
    return sorted(r.id for r in ra.retrieved), sorted(r.id for r in rb.retrieved)


def main() -> int:
    on, off = run(True), run(False)
    print("caches on : A ->", on[0], " B ->", on[1])
    print("caches off: A ->", off[0], " B ->", off[1])
    if on != off:
        print("MISMATCH: state B was served state A's memories")
        return 1
    return 0


if __name__ == "__main__":
    sys.exit(main())
