#!/usr/bin/env python
"""
Side observation for C07 against the UNCHANGED checkout.

The engine's version etags are small counters ("1", "2", ... - clematis/engine/apply.py:_bump_version_etag) that
start again at "1" for every fresh state, so two runs that share a snapshot directory reuse etags.  A delta file is
tied to its baseline only by that etag (header delta_of == baseline header etag_to), the writer of a FULL snapshot
leaves an older delta of the same etag_to in place, and read_snapshot(root, etag_to) looks at the delta first.

Scenario A  run 1 (delta_mode on):  full "1" = P1,  delta "2" (of "1") = P1 -> P2
            run 2 (delta_mode off): full "1" = Q1,  full "2" = Q2          <- the latest write of "2" is a full file
            read_snapshot(root, "2") must be Q2 (or absent); it is apply(Q1, delta(P1 -> P2)).
Scenario B  as A but stop run 2 after its first write: the delta's real baseline P1 no longer exists (the file
            under its name holds Q1) - the reader must report absence, it returns a state that never existed.

Exit 1 when a wrongly reconstructed state is returned, 0 otherwise.
"""
import json
import os
import sys
import tempfile

from clematis.engine.snapshot import write_snapshot_auto, read_snapshot

P1 = {"version_etag": "1", "store": {"state": {"w": {"a": 0.1, "b": 0.2}}}}
P2 = {"version_etag": "2", "store": {"state": {"w": {"a": 0.1, "b": 0.9, "c": 0.3}}}}
Q1 = {"version_etag": "1", "store": {"state": {"w": {"x": -0.5, "b": 0.0}}}}
Q2 = {"version_etag": "2", "store": {"state": {"w": {"x": -0.4, "b": 0.0}}}}


def canon(o):
    return json.dumps(o, sort_keys=True)


bad = 0
with tempfile.TemporaryDirectory() as d:
    # run 1, delta mode
    write_snapshot_auto(d, etag_from=None, etag_to="1", payload=P1, delta_mode=True)
    p, was_delta = write_snapshot_auto(d, etag_from="1", etag_to="2", payload=P2, delta_mode=True)
    assert was_delta and canon(read_snapshot(root=d, etag_to="2")) == canon(P2)

    # run 2, fresh state, same directory, full snapshots
    write_snapshot_auto(d, etag_from=None, etag_to="1", payload=Q1, delta_mode=False)
    got_b = read_snapshot(root=d, etag_to="2")
    if got_b and canon(got_b) not in (canon(P2),):
        bad += 1
        print("B: baseline P1 is gone (its name now holds Q1); reader returned a state that never existed:")
        print("   ", canon(got_b))

    p2, was_delta = write_snapshot_auto(d, etag_from="1", etag_to="2", payload=Q2, delta_mode=False)
    assert not was_delta and os.path.basename(p2) == "snapshot-2.full.json"
    got_a = read_snapshot(root=d, etag_to="2")
    if canon(got_a) != canon(Q2):
        bad += 1
        print("A: the last snapshot written for etag 2 is the full Q2; reader returned:")
        print("   ", canon(got_a))
        print("    expected", canon(Q2))
        print("    files:", sorted(n for n in os.listdir(d) if not n.endswith(".meta")))

sys.exit(1 if bad else 0)
