"""Side observation (unchanged code): t4._get_cfg only reads ctx.config.<attribute t4>. The orchestrator's own
accessor (orchestrator/core._get_cfg) prefers ctx.cfg and accepts ctx.config / ctx.cfg as a plain dict (the shape
configs.validate returns, and the shape tests/test_t4_property.py passes). With such a ctx the orchestrator honours
t4.enabled from it and then calls t4_filter, which silently falls back to the built-in defaults (L2 1.5, novelty 0.3,
churn 64, NO cooldowns): every configured cap and every cooldown is ignored. Exit 1 when the violation shows.
"""
import math
import sys
from types import SimpleNamespace as NS

from configs.validate import validate_config
from clematis.engine.stages.t4 import t4_filter
from clematis.engine.orchestrator.core import _get_cfg as orch_get_cfg
from clematis.engine.types import ProposedDelta

norm = validate_config({"t4": {"delta_norm_cap_l2": 0.05, "novelty_cap_per_node": 0.05, "churn_cap_edges": 1,
                               "cooldowns": {"EditGraph": 5}}})
state = NS(meta=NS(cooldowns={"EditGraph": 9}))
plan = {"ops": [{"kind": "EditGraph"}, {"kind": "Speak"}],
        "deltas": [ProposedDelta("node", f"n:{i}", "weight", 0.9, op_idx=(0 if i == 0 else 1)) for i in range(5)]}

bad = 0
for label, ctx in [
    ("ctx.config = validated dict", NS(turn_id=10, config=norm)),
    ("ctx.cfg = validated dict (no ctx.config)", NS(turn_id=10, cfg=norm)),
    ("ctx.cfg = validated dict, ctx.config = stale object", NS(turn_id=10, cfg=norm, config=NS(t4={"churn_cap_edges": 64}))),
]:
    seen_by_orch = orch_get_cfg(ctx).get("t4", {})
    r = t4_filter(ctx, state, None, None, plan, None)
    mags = [abs(d.delta) for d in r.approved_deltas]
    l2 = math.hypot(*mags) if mags else 0.0
    print(f"{label}: orchestrator sees churn={seen_by_orch.get('churn_cap_edges')} novelty={seen_by_orch.get('novelty_cap_per_node')}"
          f" | t4 approved {len(mags)} deltas, max |d|={max(mags):.3f}, L2={l2:.3f}, rejected_ops={r.rejected_ops},"
          f" caps t4 used={r.metrics['caps']}")
    if len(mags) > 1 or max(mags) > 0.05 + 1e-12 or l2 > 0.05 + 1e-9 or not r.rejected_ops:
        bad += 1

# control: the attribute shape works
ctx_ok = NS(turn_id=10, config=NS(t4=norm["t4"]))
r = t4_filter(ctx_ok, state, None, None, plan, None)
assert len(r.approved_deltas) == 1 and abs(r.approved_deltas[0].delta) <= 0.05 + 1e-12 and r.rejected_ops
sys.exit(1 if bad else 0)
