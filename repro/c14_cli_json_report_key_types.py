#!/usr/bin/env python3
"""C14 side observation (unchanged code): `validate --json` serialises the normalised config with json.dumps(default=str).
default= only covers VALUES. Pass-through positions (flags, budgets, surface_method, t2.archive, extra t1.decay
entries) keep the user's mapping keys, and YAML has keys JSON cannot carry (a date: `2024-01-01: x`); YAML anchors can
also make a pass-through mapping contain itself. For such a document validate_config / `clematis validate` say OK
(exit 0), `clematis validate --json` dies with TypeError / ValueError and exit 1 - the exit code of "invalid".
So the CLI raises a foreign exception and its two modes give different verdicts for one accepted configuration.
Exit 1 = violation shown; exit 0 otherwise."""
import os
import subprocess
import sys
import tempfile

ROOT = "/repo"
DOCS = {
    "date key": "flags:\n  2024-01-01: x\n",
    "self-containing mapping": "flags: &x\n  self: *x\n",
}
env = dict(os.environ, PYTHONPATH=ROOT)
shown = 0
with tempfile.TemporaryDirectory() as td:
    for name, text in DOCS.items():
        p = os.path.join(td, "cfg.yaml")
        with open(p, "w", encoding="utf-8") as f:
            f.write(text)
        rc = {}
        last = {}
        for mode in ([], ["--json"]):
            pr = subprocess.run(
                [sys.executable, "-m", "clematis", "validate", *mode, p], cwd=ROOT, env=env, capture_output=True, text=True
            )
            rc[" ".join(mode) or "plain"] = pr.returncode
            last[" ".join(mode) or "plain"] = (pr.stderr.strip().splitlines() or [""])[-1]
        print(f"{name}: exit codes {rc}; --json stderr ends with: {last['--json']!r}")
        if rc["plain"] == 0 and (rc["--json"] != 0 or "Error" in last["--json"]):
            shown += 1
sys.exit(1 if shown else 0)
