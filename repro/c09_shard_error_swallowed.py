"""One stored vector has the wrong dimension: the sequential path raises; the shard fan-out swallows the failure
inside the shard task and returns the hits of the other shards as if nothing happened (partial result merged)."""
import sys

# --- scaffolding: run the real t2_semantic sequentially / with the shard fan-out ---
from types import SimpleNamespace as NS

import numpy as np

from clematis.engine.types import Config
from clematis.engine.stages.t2.core import t2_semantic
from clematis.memory.index import InMemoryIndex


class Enc:
    """Injected encoder: the query vector is given directly."""

    dim = 4

    def __init__(self, v):
        self.v = np.asarray(v, dtype=np.float32)

    def encode(self, xs):
        return [self.v for _ in xs]


def mk_cfg(workers: int, par: bool, **t2):
    cfg = Config()
    cfg.perf = {"enabled": False, "parallel": {"enabled": par, "t1": False, "t2": par, "max_workers": workers}}
    cfg.t2 = dict(cfg.t2)
    cfg.t2.update(t2)
    cfg.t2["cache"] = {"enabled": False}
    return cfg


def ep(i, v, **kw):
    d = {"id": i, "owner": "A", "ts": "2025-08-10T00:00:00Z", "text": f"t-{i}", "vec_full": np.array(v, dtype=np.float32)}
    d.update(kw)
    return d


def retrieve(eps, qv, workers: int, par: bool, raw: bool = False, **t2):
    idx = InMemoryIndex()
    for e in eps:
        idx.add(e)
    ctx = NS(cfg=mk_cfg(workers, par, **t2), now="2025-09-01T00:00:00Z", enc=Enc(qv), agent_id="A")
    state = {"mem_index": idx, "mem_backend": "inmemory"}
    try:
        r = t2_semantic(ctx, state, "q", NS(graph_deltas=[]))
    except Exception as e:  # noqa: BLE001
        return ("RAISED", type(e).__name__)
    if raw:
        return r
    return [(h.id, h.score) for h in r.retrieved]
# --- end scaffolding ---

eps = [ep("a", [1, 0, 0, 0]), ep("b", [1, 0.5, 0]), ep("c", [1, 1, 0, 0]), ep("d", [0, 1, 0, 0])]
kw = dict(k_retrieval=5, tiers=["exact_semantic"], sim_threshold=-1.0, exact_recent_days=400)
seq = retrieve(eps, [1, 0, 0, 0], 1, False, **kw)
par = retrieve(eps, [1, 0, 0, 0], 2, True, **kw)
print("sequential:", seq)
print("parallel  :", par)
sys.exit(1 if seq != par else 0)
