#!/usr/bin/env python3
"""Side observation (unchanged code): following the usage documented in LogMux's docstring
(set_mux -> stages write -> pairs = mux.dump() -> flush(pairs) -> reset_mux) writes NOTHING:
logmux.flush() goes through clematis.io.log.append_jsonl, which sees the still-active mux and
buffers the records again instead of writing them. The appended records never reach the stream
(and the mux buffer now holds every record twice).

Clause contradicted: "Every record appended to a JSONL stream appears as exactly one complete
LF-terminated JSON line".

Exit 1 when the violation shows, 0 otherwise.
"""
from __future__ import annotations

import os
import sys
import tempfile

d = tempfile.mkdtemp(prefix="c16_obs_flush_")
os.environ["CLEMATIS_LOG_DIR"] = d
os.environ.pop("CI", None)

from clematis.engine.util.logmux import LogMux, set_mux, reset_mux, flush  # noqa: E402
from clematis.io.log import append_jsonl  # noqa: E402

mux = LogMux()
token = set_mux(mux)
append_jsonl("z.jsonl", {"seq": 1})
append_jsonl("z.jsonl", {"seq": 2})
pairs = mux.dump()
flush(pairs)  # documented order: flush first ...
reset_mux(token)  # ... reset afterwards

path = os.path.join(d, "z.jsonl")
lines = open(path, "rb").read().split(b"\n") if os.path.exists(path) else []
written = [ln for ln in lines if ln]
print("records appended: 2; lines on disk:", len(written), "; records left in the mux buffer:", len(mux.dump()))
if len(written) != 2:
    print("VIOLATION: flush() under the documented usage lost the records (re-buffered into the active mux)")
    sys.exit(1)
sys.exit(0)
