"""Side observation (unchanged code): a label that occurs verbatim in the text is not seeded.

str.lower() is context sensitive for GREEK CAPITAL SIGMA: word-final it lowers to U+03C2, elsewhere
to U+03C3.  _match_keywords lowers the label and the text separately, so a label ending in capital
sigma that occurs in the text followed by another letter no longer is a substring after lowering.
Exit 1 when the violation shows, 0 otherwise.
"""
import sys

from clematis.engine.types import Config
from clematis.graph.store import InMemoryGraphStore, Node
from clematis.engine.stages.t1 import t1_propagate

cfg = Config()
cfg.t1["cache"] = {"enabled": False}
store = InMemoryGraphStore()
gid = "g:sigma"
store.ensure(gid)
store.upsert_nodes(gid, [Node(id="n:logos", label="ΛΌΓΟΣ"), Node(id="n:ctl", label="control")])
state = {"store": store, "active_graphs": [gid]}
ctx = type("Ctx", (), {"cfg": cfg, "turn_id": "t", "agent_id": "A"})()

text = "control ΛΌΓΟΣΑ"
assert "ΛΌΓΟΣ" in text and "control" in text
r = t1_propagate(ctx, state, text)
touched = [d["id"] for d in r.graph_deltas]
print("touched:", touched)
if "n:logos" not in touched:
    print("VIOLATION: label 'ΛΌΓΟΣ' occurs in the text but its node was not seeded")
    sys.exit(1)
sys.exit(0)
