#!/usr/bin/env python
"""Side observation (unchanged code): rag_once replaces the plan's Speak op by a fresh one whose
max_tokens is cfg.t3.tokens, so a Speak budget that the plan had set lower is silently widened by
the retrieval refinement and the spoken line exceeds the budget the plan asked for.

Clause: "the utterance never exceeds its token budget" (for all token budgets).
Reachable in a turn through the orchestrator's documented planner hook (t3_deliberate).
Exit 1 when the violation shows, 0 otherwise.
"""
import os
import sys
import tempfile
from types import SimpleNamespace

sys.path.insert(0, "/repo")
_tmp = tempfile.mkdtemp(prefix="obs_c13_")
os.environ["CLEMATIS_LOG_DIR"] = _tmp
os.environ.pop("CI", None)

from configs.validate import validate_config  # noqa: E402
import clematis.engine.orchestrator as orch  # noqa: E402
from clematis.engine.orchestrator.core import run_turn  # noqa: E402
from clematis.engine.stages.t3 import rag_once, speak  # noqa: E402
from clematis.engine.types import Plan, SpeakOp, RequestRetrieveOp  # noqa: E402

os.chdir(_tmp)

BUDGET = 2


def small_budget_plan(query=""):
    return Plan(
        version="t3-plan-v1",
        reflection=False,
        ops=[
            SpeakOp(kind="Speak", intent="question", topic_labels=["alpha"], max_tokens=BUDGET),
            RequestRetrieveOp(kind="RequestRetrieve", query=query, owner="any", k=2, tier_pref=None, hints={}),
        ],
        request_retrieve=None,
    )


# 1) pure functions
bundle = {
    "now": "t",
    "agent": {"caps": {"ops": 3, "tokens": 256}},
    "cfg": {"t3": {"tokens": 256}, "t2": {}},
    "t1": {"touched_nodes": []},
    "t2": {"metrics": {"sim_stats": {"max": 0.0}}},
    "text": {"input": "q", "labels_from_t1": ["alpha", "beta"]},
}
plan = small_budget_plan("q")
dialog = {"agent": {"style_prefix": ""}, "text": {}, "retrieved": [], "dialogue": {"template": "summary: {labels}. next: {intent} please"}}
u0, _ = speak(dialog, plan)
refined, m = rag_once(bundle, plan, lambda p: {"retrieved": []})
u1, _ = speak(dialog, refined)
print("before refinement:", repr(u0), "tokens", len(u0.split()), "budget", plan.ops[0].max_tokens)
print("after  refinement:", repr(u1), "tokens", len(u1.split()), "budget now", refined.ops[0].max_tokens)
pure_bad = len(u1.split()) > BUDGET


# 2) a whole turn, planner supplied through the orchestrator's t3_deliberate hook
class AttrDict(dict):
    def __getattr__(self, k):
        try:
            return self[k]
        except KeyError as e:
            raise AttributeError(k) from e


def to_ad(o):
    if isinstance(o, dict):
        return AttrDict({k: to_ad(v) for k, v in o.items()})
    if isinstance(o, list):
        return [to_ad(v) for v in o]
    return o


def turn(max_rag_loops):
    cfg = to_ad(validate_config({"t3": {"max_rag_loops": max_rag_loops}}))
    ctx = SimpleNamespace(turn_id="1", agent_id="obs", now=None, now_ms=0, cfg=cfg)
    orch.t3_deliberate = lambda ctx, state, bundle: small_budget_plan("hello")
    try:
        res = run_turn(ctx, {"version_etag": "0"}, "hello")
    finally:
        del orch.t3_deliberate
    return res.line


l0 = turn(0)
l1 = turn(1)
print("turn without refinement:", repr(l0), "tokens", len(l0.split()))
print("turn with    refinement:", repr(l1), "tokens", len(l1.split()))
turn_bad = len(l0.split()) <= BUDGET < len(l1.split())

if pure_bad or turn_bad:
    print(f"VIOLATION: Speak budget {BUDGET} is exceeded once the plan went through rag_once")
    sys.exit(1)
print("no violation")
sys.exit(0)
