"""Side observation: two owners each hold an episode with the same id.

The stage re-scores hits through an id -> episode map built over ALL owners' episodes
(last one wins), so under owner_scope=agent the recency/importance terms of agent A's hit
are taken from agent B's episode with the same id.

Clauses contradicted: "ordered by the documented combined score" (the order is not the order
of alpha*cos + beta*recency + gamma*importance of the returned episodes) and, in spirit,
"agent scope never yields another owner's memories" (another owner's timestamps/importance
decide the ranking).

exit 1 when the violation shows, 0 otherwise.
"""
from __future__ import annotations

import datetime as dt
import sys

import numpy as np

from clematis.engine.types import Config, T1Result
from clematis.engine.stages.t2 import t2_semantic
from clematis.memory.index import InMemoryIndex

NOW = "2025-09-01T00:00:00Z"


class _Enc:
    dim = 4

    def encode(self, texts):
        return [np.asarray([1.0, 0.0, 0.0, 0.0], dtype=np.float32) for _ in texts]


def _ep(eid, owner, ts, imp):
    return {
        "id": eid,
        "owner": owner,
        "text": f"{owner} {eid}",
        "ts": ts,
        "vec_full": np.asarray([1.0, 0.0, 0.0, 0.0], dtype=np.float32),
        "aux": {"importance": imp},
    }


def _ts(s):
    return dt.datetime.fromisoformat(s.replace("Z", "+00:00"))


def main() -> int:
    mine = [
        _ep("e1", "A", "2025-08-31T00:00:00Z", 1.0),  # newest, most important of A's
        _ep("e2", "A", "2025-08-10T00:00:00Z", 0.5),
    ]
    other = [_ep("e1", "B", "2024-09-10T00:00:00Z", 0.0)]  # B's old, unimportant "e1", added later
    idx = InMemoryIndex()
    for e in mine + other:
        idx.add(e)

    cfg = Config()
    cfg.t2["tiers"] = ["archive"]  # no recency/cluster rule in the way
    cfg.t2["owner_scope"] = "agent"
    cfg.t2["k_retrieval"] = 10
    cfg.t2["sim_threshold"] = 0.0
    cfg.t2["cache"] = {"enabled": False}
    cfg.t2["ranking"] = {"alpha_sim": 0.5, "beta_recency": 0.3, "gamma_importance": 0.2}
    ctx = type("Ctx", (), {})()
    ctx.cfg = cfg
    ctx.now = NOW
    ctx.agent_id = "A"
    ctx.enc = _Enc()
    res = t2_semantic(ctx, {"mem_index": idx}, "q", T1Result(graph_deltas=[], metrics={}))
    got = [h.id for h in res.retrieved]

    def combined(e):
        age = max(0.0, (_ts(NOW) - _ts(e["ts"])).total_seconds() / 86400.0)
        rec = max(0.0, min(1.0, 1.0 - age / 365.0))
        return 0.5 * 1.0 + 0.3 * rec + 0.2 * e["aux"]["importance"]

    want = [e["id"] for e in sorted(mine, key=lambda e: (-combined(e), e["id"]))]
    print("agent A's episodes by documented score:", want, [round(combined(e), 4) for e in mine])
    print("returned order                        :", got)
    if got != want:
        print("VIOLATION: A's hit 'e1' was scored with owner B's timestamp/importance")
        return 1
    return 0


if __name__ == "__main__":
    sys.exit(main())
