#!/usr/bin/env python
"""Side observation (UNCHANGED code): a memory index that implements the documented MemoryIndex protocol
(add / search_tiered / index_version - clematis/engine/types.py) but is not an InMemoryIndex has no `_uid`, so the
process-global T2 result cache (clematis/engine/stages/t2/core.py: ckey) tells index instances apart by id(index).
CPython hands the address of a freed index to the next one, so in a WARM process a second world whose index has the
same version number gets the first world's retrieval served from the cache; a FRESH process computes it properly.
Same world, same turn, same config, same logical clock - different utterance and different t2.jsonl.

exit 1 = violation shown, 0 = not shown.
"""
from __future__ import annotations

import gc
import json
import os
import subprocess
import sys
import tempfile

ROOT = "/repo"
NOW_MS = 1_717_200_000_000


def build_and_run(texts, wd, tag):
    """One world (3 episodes with the given texts), one turn; returns (utterance, t2.jsonl line)."""
    from types import SimpleNamespace as SNS
    from configs.validate import validate_config
    from clematis.adapters.embeddings import BGEAdapter
    from clematis.engine.orchestrator import Orchestrator
    from clematis.engine.orchestrator.core import _iso_from_ms
    from clematis.graph.store import InMemoryGraphStore, Node
    from clematis.memory.index import InMemoryIndex

    class ProtocolIndex:
        """A third-party MemoryIndex: delegates the search to the reference implementation, keeps its own version."""

        def __init__(self):
            self._impl = InMemoryIndex()
            self._n = 0

        def add(self, ep):
            self._impl.add(ep)
            self._n += 1

        def search_tiered(self, owner, q_vec, k, tier, hints):
            return self._impl.search_tiered(owner, q_vec, k, tier, hints)

        def index_version(self):
            return self._n

    class AttrDict(dict):
        __getattr__ = dict.__getitem__

    def attr(o):
        return AttrDict({k: attr(v) for k, v in o.items()}) if isinstance(o, dict) else o

    logs = os.path.join(wd, tag, "logs")
    snaps = os.path.join(wd, tag, "snaps")
    os.makedirs(logs)
    os.makedirs(snaps)
    os.environ["CLEMATIS_LOG_DIR"] = logs
    os.environ["CLEMATIS_SNAPSHOT_DIR"] = snaps
    cfg = attr(validate_config({"t4": {"snapshot_dir": snaps}, "t2": {"sim_threshold": -1.0}}))
    enc = BGEAdapter(dim=32)
    store = InMemoryGraphStore()
    store.upsert_nodes("g:surface", [Node(id="n:hello", label="hello")])
    idx = ProtocolIndex()
    for i, t in enumerate(texts):
        idx.add({"id": f"{tag}-ep{i}", "owner": "world", "text": t, "ts": "2024-05-20T00:00:00Z",
                 "vec_full": enc.encode([t])[0]})
    state = {"store": store, "active_graphs": ["g:surface"], "mem_index": idx, "mem_backend": "inmemory",
             "version_etag": "0"}
    ctx = SNS(turn_id=1, agent_id="A", now=_iso_from_ms(NOW_MS), now_ms=NOW_MS, cfg=cfg, config=cfg)
    line = Orchestrator().run_turn(ctx, state, "hello").line
    t2 = open(os.path.join(logs, "t2.jsonl"), encoding="utf-8").read().strip().splitlines()[-1]
    addr = id(idx)
    del state, idx, ctx
    gc.collect()
    return line, t2, addr


WORLD_2 = ["hello hello", "unrelated two", "unrelated three"]  # "hello hello" is exactly T2's query text -> cos 1.0
WORLD_1 = ["zzz one", "zzz two", "zzz three"]


def child(mode, wd):
    os.environ["CI"] = "true"
    sys.path.insert(0, ROOT)
    rounds = 0
    if mode == "warm":
        # the process keeps serving two kinds of world in turn (same number of episodes, different content), each
        # built from scratch and dropped afterwards; stop at the first world-2 turn that is answered differently
        # from what a fresh process answers (utterance "... next: summary")
        for rounds in range(1, 301):
            build_and_run(WORLD_1, wd, f"w1_{rounds}")
            line, t2, _ = build_and_run(WORLD_2, wd, f"w2_{rounds}")
            if not line.endswith("next: summary"):
                break
    else:
        line, t2, _ = build_and_run(WORLD_2, wd, "w2")
    t2 = t2.replace(f"w2_{rounds}-", "w2-")
    print("RESULT " + json.dumps({"utter": line, "t2": t2, "rounds": rounds}))


def run(mode):
    with tempfile.TemporaryDirectory() as wd:
        p = subprocess.run([sys.executable, os.path.abspath(__file__), "--child", mode, wd], cwd=ROOT,
                           env=dict(os.environ, PYTHONPATH=ROOT, PYTHONHASHSEED="0"), capture_output=True, text=True)
        if p.returncode:
            print(p.stdout, p.stderr)
            raise SystemExit(2)
        return json.loads([l for l in p.stdout.splitlines() if l.startswith("RESULT ")][-1][7:])


if __name__ == "__main__":
    if len(sys.argv) > 1 and sys.argv[1] == "--child":
        child(sys.argv[2], sys.argv[3])
        sys.exit(0)
    fresh, warm = run("fresh"), run("warm")
    print("fresh process:", fresh["utter"], "|", fresh["t2"][:160])
    print("warm  process:", warm["utter"], "|", warm["t2"][:160], "| worlds served before:", 2 * warm["rounds"] - 1)
    same = fresh["utter"] == warm["utter"] and fresh["t2"] == warm["t2"]
    if not same:
        print("VIOLATION: the same world/turn gives different artefacts in a warm process (stale T2 cache entry keyed by id(index))")
        sys.exit(1)
    print("not shown")
    sys.exit(0)
