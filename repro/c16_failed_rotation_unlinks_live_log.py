"""Side observation (unchanged checkout): a failed log rotation deletes the live log.

clematis/scripts/rotate_logs.py moves `path` -> `path.1` through
clematis.io.atomic.atomic_replace(src, dst).  atomic_replace treats its first
argument as a disposable temp file: when the replace fails for good it unlinks
it before re-raising.  Here the "temp file" is the real log, so one failing
rename (EIO below; a persistent EACCES/EBUSY behaves the same after the retry
budget) leaves neither `path` nor `path.1`: the records are gone, which is
neither the complete previous state nor the complete new one.

Only the OS call os.replace is made to fail; clematis code is not patched.
Exit 1 when the violation shows, 0 otherwise.
"""
import errno
import os
import sys
import tempfile
from pathlib import Path

sys.path.insert(0, os.getcwd())
from clematis.scripts.rotate_logs import rotate_one  # noqa: E402


def main() -> int:
    d = Path(tempfile.mkdtemp(prefix="c08_rot_"))
    log = d / "t1.jsonl"
    body = '{"turn":1}\n{"turn":2}\n'
    log.write_text(body, encoding="utf-8")

    real = os.replace

    def failing_replace(src, dst, **kw):
        raise OSError(errno.EIO, "Input/output error")

    os.replace = failing_replace
    err = None
    try:
        rotate_one(str(log), backups=2)
    except OSError as e:
        err = e
    finally:
        os.replace = real

    present = {p.name: p.read_text(encoding="utf-8") for p in d.iterdir()}
    print(f"rotation raised: {err!r}")
    print(f"files after failed rotation: {sorted(present)}")
    if body in present.values():
        print("OK: the log records survive a failed rotation")
        return 0
    print("VIOLATION: failed rotation removed the live log; records are in neither path nor path.1")
    return 1


if __name__ == "__main__":
    sys.exit(main())
