#!/usr/bin/env python
"""
Side observation for C01 (UNCHANGED checkout): a turn whose logical clock is given as ctx.now_ms only (ctx.now is
None - exactly the context that orchestrator.run_smoke_turn builds: `now=None, now_ms=0`) is not reproducible:
T2 ignores now_ms (and the ctx.now_iso that run_turn derives from it for the reflection writes) and takes the
reference time of the recency window and of the recency score from the WALL clock (t2/core.py `if not now_str:
... dt.datetime.now(...)`).  The canonical t2.jsonl (score_stats, k_returned) and the retrieval order then depend on
the calendar day on which the replay runs.

Two fresh processes replay the same world / config / now_ms / turn sequence; the wall clock is perturbed by giving
`datetime.now()` another value (the only thing that differs).  exit 1 = canonical logs differ, 0 = identical.
Run from the worktree root with PYTHONPATH set to it.
"""
import json
import os
import subprocess
import sys
import tempfile

ROOT = "/repo"


def child(root: str, wall: str) -> None:
    os.environ["CI"] = "true"
    sys.path.insert(0, ROOT)
    import datetime as real_dt
    import types
    from types import SimpleNamespace as SNS

    wall_dt = real_dt.datetime.fromisoformat(wall)

    class FakeDateTime(real_dt.datetime):
        @classmethod
        def now(cls, tz=None):  # the perturbed wall clock
            return wall_dt.astimezone(tz) if tz is not None else wall_dt.replace(tzinfo=None)

    fake = types.ModuleType("datetime")
    fake.__dict__.update({k: v for k, v in real_dt.__dict__.items() if not k.startswith("__")})
    fake.datetime = FakeDateTime

    import clematis.io.paths as paths
    import clematis.engine.stages.t2.core as t2core
    import clematis.engine.stages.t2.helpers as t2helpers
    import clematis.memory.index as memindex
    from clematis.adapters.embeddings import DeterministicEmbeddingAdapter
    from clematis.engine.orchestrator import Orchestrator
    from clematis.engine.types import Config, Edge, Node
    from clematis.graph.store import InMemoryGraphStore

    t2core.dt = fake
    t2helpers.dt = fake
    memindex.dt = fake

    logs = os.path.join(root, "logs")
    snaps = os.path.join(root, "snaps")
    os.makedirs(logs)
    os.makedirs(snaps)
    paths.logs_dir = lambda: logs  # type: ignore[assignment]
    cfg = Config()
    cfg.t4["snapshot_dir"] = snaps
    cfg.t2["sim_threshold"] = -1.0
    cfg.t2["tiers"] = ["exact_semantic"]
    cfg.t1["cache"] = {"enabled": False}  # keep the (wall-clock) cache TTLs out of the picture

    store = InMemoryGraphStore()
    store.upsert_nodes("g:surface", [Node(id="n:hello", label="hello"), Node(id="n:world", label="world")])
    store.upsert_edges("g:surface", [Edge(id="e1", src="n:hello", dst="n:world", weight=0.8, rel="supports")])
    enc = DeterministicEmbeddingAdapter(dim=32)
    idx = memindex.InMemoryIndex()
    for i, (text, ts) in enumerate(
        [("hello world", "2026-09-01T00:00:00Z"), ("hello again", "2026-09-20T00:00:00Z"), ("world news", "2026-06-01T00:00:00Z")]
    ):
        idx.add({"id": f"ep{i}", "owner": "Ada", "text": text, "ts": ts, "vec_full": enc.encode([text])[0].tolist()})
    state = {"store": store, "active_graphs": ["g:surface"], "mem_index": idx, "version_etag": "0"}

    utter = []
    for i, text in enumerate(["hello world", "world"], 1):
        # logical clock as milliseconds only, as run_smoke_turn does (now=None, now_ms=<int>)
        ctx = SNS(turn_id=i, agent_id="Ada", now=None, now_ms=1790000000000 + 1000 * i, cfg=cfg, config=cfg, scene_tags=[])
        utter.append(Orchestrator().run_turn(ctx, state, text).line)
    out = {"utter": utter}
    for n in ("t1.jsonl", "t2.jsonl", "t4.jsonl", "apply.jsonl", "turn.jsonl", "health.jsonl"):
        p = os.path.join(logs, n)
        if os.path.exists(p):
            out[n] = open(p, "rb").read().decode().replace(root, "<ROOT>")
    sys.stdout.write(json.dumps(out, sort_keys=True))


def run(wall: str):
    root = tempfile.mkdtemp(prefix="c01obs_")
    env = dict(os.environ, PYTHONHASHSEED="1", PYTHONPATH=ROOT, CI="true")
    p = subprocess.run([sys.executable, os.path.abspath(__file__), "--child", root, wall], cwd=ROOT, env=env,
                       capture_output=True, text=True)
    if p.returncode:
        print(p.stderr[-3000:])
        raise SystemExit(2)
    return json.loads(p.stdout)


if __name__ == "__main__":
    if len(sys.argv) > 1 and sys.argv[1] == "--child":
        child(sys.argv[2], sys.argv[3])
        sys.exit(0)
    a = run("2026-09-29T10:00:00+00:00")
    b = run("2026-12-25T10:00:00+00:00")
    bad = False
    for n in sorted(a):
        if a[n] != b.get(n):
            bad = True
            print(f"{n} differs between two replays that differ only in the wall-clock date:")
            if isinstance(a[n], str):
                for x, y in zip(a[n].splitlines(), b[n].splitlines()):
                    if x != y:
                        print("   wall 2026-09-29:", x[:420])
                        print("   wall 2026-12-25:", y[:420])
            else:
                print("  ", a[n], "\n  ", b[n])
    if bad:
        print("VIOLATION: with the logical clock given as now_ms only, T2 follows the wall clock")
        sys.exit(1)
    print("no difference observed")
    sys.exit(0)
