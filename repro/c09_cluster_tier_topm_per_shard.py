#!/usr/bin/env python
"""
Side observation for C09 (unchanged checkout): with the cluster_semantic tier, the parallel T2
path picks the top-M clusters PER SHARD (and scores cluster centroids from the shard's part of
each cluster), while the sequential path picks the top-M clusters of the whole index.  The
retrieved items therefore differ between max_workers=1 and max_workers>1.

Exit 1 when the violation shows, 0 otherwise.
"""
import os
import sys
from types import SimpleNamespace as NS

sys.path.insert(0, os.path.dirname(os.path.abspath(__file__)))
import numpy as np  # noqa: E402
from clematis.engine.stages.t2.core import t2_semantic  # noqa: E402
from clematis.memory.index import InMemoryIndex  # noqa: E402


class Enc:
    dim = 4

    def encode(self, texts):
        return [np.asarray([1, 0, 0, 0], dtype=np.float32) for _ in texts]


def ep(i, vec, cluster):
    return {
        "id": f"e{i:02d}",
        "owner": "A",
        "ts": "2024-01-01T00:00:00Z",  # older than exact_recent_days: the exact tier is empty
        "text": f"t{i}",
        "vec_full": np.asarray(vec, dtype=np.float32),
        "aux": {"cluster_id": cluster},
    }


EPS = [
    ep(0, [1, 0.1, 0, 0], "c1"),
    ep(1, [1, 0.2, 0, 0], "c1"),
    ep(2, [0.5, 1, 0, 0], "c2"),
    ep(3, [0.4, 1, 0, 0], "c2"),
]


def run(workers):
    idx = InMemoryIndex()
    for e in EPS:
        idx.add(dict(e))
    cfg = {
        "k_surface": 4,
        "t2": {
            "cache": {"enabled": False},
            "tiers": ["exact_semantic", "cluster_semantic"],
            "clusters_top_m": 1,
            "sim_threshold": 0.0,
            "k_retrieval": 10,
        },
        "perf": {"parallel": {"enabled": True, "t2": True, "max_workers": workers}},
    }
    ctx = NS(cfg=cfg, now="2025-09-01T00:00:00Z", enc=Enc())
    state = {"mem_index": idx, "mem_backend": "inmemory"}
    r = t2_semantic(ctx, state, "q", NS(graph_deltas=[]))
    return [(h.id, round(float(h.score), 6)) for h in r.retrieved]


seq = run(1)
bad = False
print("sequential        :", seq)
for w in (2, 4):
    par = run(w)
    print(f"parallel workers={w}:", par)
    bad = bad or par != seq
sys.exit(1 if bad else 0)
