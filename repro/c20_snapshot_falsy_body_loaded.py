#!/usr/bin/env python
"""
Side observation (unchanged checkout): garbage in a snapshot file is treated differently depending on its truth
value. A PR34 file = header line + body. With an intact header line ({"schema":"snapshot:v1","mode":"full",
"etag_to":"8",...}) and a garbage body:
    body  [1]  or "x"        -> the loader trips over it, run_turn's guard swallows that: nothing loaded (correct)
    body  null / false / 0 / "" / []   -> `(data or {})` turns the garbage into an empty object, the loader reports
          success and adopts the HEADER's etag_to as the state's version_etag
so the turn's apply.jsonl carries version_etag 9, 10, 11 instead of 1, 2, 3 of the run with no snapshot file. (Commit
4b62adb made a file holding only its header line "absent"; a header followed by a non-object body is the sibling
that was not covered.)

Contradicts: "(and all garbage contents for snapshot files) ... emits its canonical ... apply ... records, equal
to those of a run in which that subsystem is switched off or idle".

Exit 1 when the violation shows, 0 otherwise.
"""
from __future__ import annotations

import sys
import tempfile


# ---- world helpers (real stages, no stubs) ------------------------------------------------------------
import json
import os
from types import SimpleNamespace as SNS

import clematis.engine.orchestrator as orch
import clematis.engine.stages.t1 as _t1mod
import clematis.engine.stages.t2.cache as _t2cache
from clematis.adapters.embeddings import BGEAdapter
from clematis.engine.types import Edge, Node
from clematis.graph.store import InMemoryGraphStore
from clematis.memory.index import InMemoryIndex
from configs.validate import validate_config

CANON = ("t1.jsonl", "t2.jsonl", "t4.jsonl", "apply.jsonl", "turn.jsonl")


class AD(dict):
    def __getattr__(self, name):
        try:
            return self[name]
        except KeyError as exc:
            raise AttributeError(name) from exc

    def __setattr__(self, name, value):
        self[name] = value


def to_ad(obj):
    if isinstance(obj, dict):
        return AD({k: to_ad(v) for k, v in obj.items()})
    if isinstance(obj, list):
        return [to_ad(v) for v in obj]
    return obj


def make_cfg(workdir, **over):
    raw = validate_config({})
    raw["t4"]["snapshot_dir"] = os.path.join(workdir, "snaps")
    for dotted, val in over.items():
        cur = raw
        parts = dotted.split(".")
        for p in parts[:-1]:
            cur = cur.setdefault(p, {})
        cur[parts[-1]] = val
    return to_ad(raw)


def make_state(cfg, with_index=True):
    store = InMemoryGraphStore()
    store.upsert_nodes("g:surface", [Node(id="n:a", label="apple"), Node(id="n:b", label="banana")])
    store.upsert_edges("g:surface", [Edge(id="e1", src="n:a", dst="n:b", weight=0.5, rel="associates")])
    state = {"version_etag": "0", "store": store, "active_graphs": ["g:surface"]}
    if with_index:
        idx = InMemoryIndex()
        enc = BGEAdapter(dim=int(cfg.get("k_surface", 32)))
        texts = ["apple pie recipe", "banana split dessert", "apple banana smoothie", "green apple", "yellow banana"]
        for i, t in enumerate(texts):
            idx.add({"id": f"ep{i}", "owner": "A", "text": t, "ts": "1970-01-01T00:00:00Z",
                     "vec_full": enc.encode([t])[0].tolist()})
        state["mem_index"] = idx
    return state


def reset_process_caches():
    """T1 / T2 keep process-global stage caches: start every compared run from the same (empty) ones."""
    _t1mod._T1_CACHE = None
    _t1mod._T1_CACHE_CFG = None
    _t2cache._T2_CACHE = None
    _t2cache._T2_CACHE_CFG = None


def run_turns(cfg, state, texts, agent="A"):
    records = []

    def capture(name, payload):
        records.append((name, json.loads(json.dumps(payload, default=str))))

    orch.append_jsonl = capture
    results = []
    for i, text in enumerate(texts, start=1):
        ctx = SNS(turn_id=i, agent_id=agent, now=None, now_ms=1000 * i, cfg=cfg, config=cfg)
        results.append(orch.run_turn(ctx, state, text))
    return results, records


def canonical(records):
    out = []
    for name, rec in records:
        if name not in CANON:
            continue
        rec = dict(rec)
        rec.pop("ms", None)
        rec.pop("durations_ms", None)
        if isinstance(rec.get("snapshot"), str):
            rec["snapshot"] = os.path.basename(rec["snapshot"])
        out.append((name, rec))
    return out


def diff_fields(a, b):
    out = []
    for (na, ra), (nb, rb) in zip(a, b):
        if ra != rb:
            out.append((na, {k: (ra.get(k), rb.get(k)) for k in set(ra) | set(rb) if ra.get(k) != rb.get(k)}))
    return out


W = sys.modules[__name__]

# ---- the observation --------------------------------------------------------------------------------
HEADER = json.dumps({"schema": "snapshot:v1", "mode": "full", "etag_to": "8", "codec": "none", "level": 0})


def run_with(body):
    W.reset_process_caches()
    workdir = tempfile.mkdtemp(prefix="c20_hdr_")
    cfg = W.make_cfg(workdir)
    snaps = os.path.join(workdir, "snaps")
    os.makedirs(snaps, exist_ok=True)
    if body is not None:
        with open(os.path.join(snaps, "state_A.json"), "w", encoding="utf-8") as fh:
            fh.write(HEADER + "\n" + body)
    state = W.make_state(cfg)
    results, records = W.run_turns(cfg, state, ["apple pie", "banana split", "apple and banana"])
    return [r.line for r in results], W.canonical(records)


def main() -> int:
    ref = run_with(None)
    bad = []
    for body in ('[1]', '"x"', 'null', 'false', '0', '""', '[]'):
        got = run_with(body)
        d = W.diff_fields(got[1], ref[1])
        print(f"body {body:6s}:", "records equal to the no-snapshot run" if not d and got[0] == ref[0] else f"DIFFERS {d}")
        if d or got[0] != ref[0]:
            bad.append(body)
    if bad:
        print(f"\nVIOLATION: garbage bodies {bad} after an intact header line moved the state's version_etag.")
        return 1
    return 0


if __name__ == "__main__":
    sys.exit(main())
