"""Side observation (unchanged code): sanitize_plan, documented as "does not raise",
raises for a plan that is not a mapping (list / string / number), e.g. when an LLM
returns a top-level JSON array and the caller hands the decoded value straight in.
Exit 1 when the violation shows, 0 otherwise.
"""
import sys

from clematis.engine.policy.sanitize import sanitize_plan

raised = []
for plan in ([1, 2], ["speak", "edit"], "speak", 5, 1.5, True):
    errs = []
    try:
        out = sanitize_plan(plan, errs)
    except Exception as e:
        raised.append(f"sanitize_plan({plan!r}) raised {type(e).__name__}: {e}")
        continue
    print(f"ok: {plan!r} -> {out!r} errs={errs!r}")

if raised:
    print("VIOLATION: the plan sanitiser raised on wrong-typed input")
    for r in raised:
        print("  -", r)
    sys.exit(1)
sys.exit(0)
