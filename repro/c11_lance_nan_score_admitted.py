"""C11 (meeting the similarity threshold): LanceIndex.search_tiered / _LancePartition.search_tiered drop a hit with
`if sim_threshold is not None and s < float(sim_threshold): continue`.  For a NaN cosine (an episode whose stored vector has
a non-finite component, e.g. 1e39 -> float32 inf) `s < t` is False, so the episode is *returned* although it does not meet
the threshold, and the (-score, id) sort that follows is no longer a total order.  InMemoryIndex tests `s >= sim_threshold`
and drops the same episode - the two index back-ends disagree.

lancedb / pyarrow are not installed in this sandbox; the real LanceIndex class is run unmodified on a 40-line in-memory
stand-in for the two storage modules (connect / open_table / create_table / add / delete / to_arrow().to_pylist()).
exit 1 = defect present, 0 = absent."""
import sys, types, math
sys.path.insert(0, "/repo")

class _Arrow:
    def __init__(self, rows): self._rows = rows; self.num_rows = len(rows)
    def to_pylist(self): return [dict(r) for r in self._rows]
class _Table:
    def __init__(self, rows=None): self.rows = list(rows or [])
    def add(self, rows): self.rows.extend(dict(r) for r in rows)
    def delete(self, pred):
        key, _, val = pred.partition(" == ")
        self.rows = [r for r in self.rows if str(r.get(key)) != val.strip("'")]
    def to_arrow(self): return _Arrow(self.rows)
    def update(self, where=None, values=None):
        for r in self.rows: r.update(values or {})
class _DB:
    def __init__(self): self.t = {}
    def open_table(self, name):
        if name not in self.t: raise KeyError(name)
        return self.t[name]
    def create_table(self, name, data=None, schema=None):
        self.t[name] = _Table(data); return self.t[name]
    def drop_table(self, name): self.t.pop(name, None)
lancedb = types.ModuleType("lancedb"); lancedb.connect = lambda uri: _DB()
pa = types.ModuleType("pyarrow")
pa.schema = lambda f: f; pa.field = lambda n, t: (n, t); pa.string = lambda: "s"; pa.int64 = lambda: "i"
sys.modules["lancedb"] = lancedb; sys.modules["pyarrow"] = pa

from clematis.memory.lance_index import LanceIndex
from clematis.memory.index import InMemoryIndex

eps = [
    {"id": "a", "owner": "A", "text": "a", "ts": "2025-01-01T00:00:00+00:00", "vec_full": [1.0, 0.0]},
    {"id": "big", "owner": "A", "text": "big", "ts": "2025-01-01T00:00:00+00:00", "vec_full": [1e39, 0.0]},
    {"id": "d", "owner": "A", "text": "d", "ts": "2025-01-01T00:00:00+00:00", "vec_full": [0.9, 0.1]},
]
hints = {"sim_threshold": 0.5, "now": "2025-01-02T00:00:00+00:00", "recent_days": 30}
bad = []
for name, idx in (("LanceIndex", LanceIndex("mem://x")), ("InMemoryIndex", InMemoryIndex())):
    for e in eps:
        idx.add(dict(e))
    import numpy as np
    hits = idx.search_tiered("A", np.asarray([1.0, 0.0], dtype=np.float32), 5, "exact_semantic", dict(hints))
    got = [(h.id, h.score) for h in hits]
    print(name, got)
    for hid, sc in got:
        if not (sc >= 0.5):
            bad.append(f"{name}: returned {hid} with score {sc}, which does not meet sim_threshold 0.5")
for b in bad:
    print("DEFECT:", b)
sys.exit(1 if bad else 0)
