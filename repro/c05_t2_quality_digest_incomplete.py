"""C05 (configuration changes between turns; a hit equals a fresh computation): the T2 stage key represents the quality
configuration by quality_digest(qcfg), which hashed only enabled / lexical / fusion / mmr - but the lexical scorer and MMR
also read t2.quality.normalizer.enabled and t2.quality.aliasing.map_path.  Same query, same memory, normalizer switched off
between two calls: a fresh T2 re-ranks (punctuation-glued tokens no longer match), the cached T2 keeps the old order.
exit 1 = defect present, 0 = absent."""
import os, sys, tempfile, types
os.environ.setdefault("CLEMATIS_LOG_DIR", tempfile.mkdtemp())
sys.path.insert(0, "/repo"); os.chdir("/repo")
from configs.validate import validate_config
from clematis.graph.store import InMemoryGraphStore
from clematis.memory.index import InMemoryIndex
from clematis.adapters.embeddings import DeterministicEmbeddingAdapter
from clematis.engine.stages.t2.core import t2_semantic
import clematis.engine.stages.t2.cache as t2cache

class AD(dict):
    __getattr__ = lambda s, k: AD(s[k]) if isinstance(s.get(k), dict) else s[k]

def cfg(cache_on, norm_on):
    return validate_config({"t1": {"decay": {"mode": "exp_floor"}}, "t2": {
        "cache": {"enabled": cache_on, "max_entries": 64 if cache_on else 0}, "sim_threshold": -1.0,
        "quality": {"enabled": True, "fusion": {"enabled": True, "alpha_semantic": 0.0}, "lexical": {"stopwords": "none"},
                    "normalizer": {"enabled": norm_on}}}})

def run(cache_on):
    t2cache._T2_CACHE = None
    enc = DeterministicEmbeddingAdapter(dim=32)
    idx = InMemoryIndex()
    for eid, text in (("e1", "cat, dog"), ("e2", "cat dog zebra llama yak"), ("e3", "bird"), ("e4", "fish"), ("e5", "horse")):
        idx.add({"id": eid, "owner": "A", "text": text, "ts": "2025-01-01T00:00:00Z", "vec_full": enc.encode([text])[0], "aux": {}, "importance": 0.5})
    state = {"store": InMemoryGraphStore(), "active_graphs": [], "mem_index": idx, "_boot_loaded": True}
    t1 = types.SimpleNamespace(graph_deltas=[], metrics={})
    out = []
    for norm_on in (True, False):
        c = cfg(cache_on, norm_on)
        ctx = types.SimpleNamespace(cfg=AD(c), config=AD(c), now="2025-01-02T00:00:00Z", agent_id="A", turn_id=1)
        r = t2_semantic(ctx, state, "cat", t1)
        out.append([h.id for h in r.retrieved])
    return out

off, on = run(False), run(True)
print("cache off: normalizer on ->", off[0], " normalizer off ->", off[1])
print("cache on : normalizer on ->", on[0], " normalizer off ->", on[1])
if off[0] == off[1]:
    print("INCONCLUSIVE: the normalizer switch does not change the fresh ranking for this input"); sys.exit(2)
if on != off:
    print("DEFECT: with the cache on, the call with normalizer off returned the ranking computed with normalizer on")
    sys.exit(1)
print("OK: identical rankings with the cache on and off")
