"""CacheManager applies max_entries per namespace and never bounds the namespaces themselves:
 - total live size exceeds max_entries as soon as several namespaces are used;
 - every get()/set() on a new namespace name allocates a namespace object that is never dropped, even with
   max_entries=0 (documented as disabled) and even for pure reads.
Contradicts: 'namespaced manager ... stay within their entry capacities' / 'act as disabled when capacities are zero'."""
import sys
from clematis.engine.cache import CacheManager

bad = []
cm = CacheManager(max_entries=2, ttl_sec=0)
for i in range(5):
    for j in range(3):
        cm.set(f"ns{i}", ("k", j), j)
print("max_entries=2, stats:", cm.stats)
if cm.stats["size"] > 2:
    bad.append(f"manager built with max_entries=2 holds {cm.stats['size']} entries")

cm0 = CacheManager(max_entries=0, ttl_sec=0)
for i in range(1000):
    cm0.get(f"ns{i}", ("k",))
    cm0.set(f"ns{i}", ("k",), 1)
print("max_entries=0, stats:", cm0.stats, "namespace objects retained:", len(cm0._ns))
if len(cm0._ns) > 0:
    bad.append(f"disabled manager (max_entries=0) retains {len(cm0._ns)} namespace objects")

for b in bad:
    print("VIOLATION:", b)
sys.exit(1 if bad else 0)
