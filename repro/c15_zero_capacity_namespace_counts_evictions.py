#!/usr/bin/env python
"""
C15 side observation (unchanged code): LRUCache with capacity 0 is not a no-op like its siblings.

clause contradicted: "act as disabled when capacities are zero".
  CacheManager(max_entries=0).set returns before touching anything (fix 84e374f), LRUBytes(0, 0).put returns (0, 0),
  DeterministicLRU(0) / DedupeRing(0) do nothing. LRUCache(capacity=0).set still builds the entry, reads the clock,
  inserts it, evicts it again and reports that as an eviction: stats["evicted"] grows by one per set although the
  cache never held anything that could be evicted. T1 / T2 build exactly this object for t1.cache.max_entries: 0.
exit 1 = violation shows, 0 = not.
"""
import sys

from clematis.engine.cache import LRUCache, CacheManager
from clematis.engine.util.lru_bytes import LRUBytes

clock_reads = []


def clock():
    clock_reads.append(1)
    return 0.0


bad = []
c = LRUCache(capacity=0, ttl_s=10, time_fn=clock)
for i in range(5):
    c.set(("k", i), i)
if c.stats["evicted"] != 0:
    bad.append(f"LRUCache(capacity=0): stats['evicted']={c.stats['evicted']} after 5 sets into a disabled cache")
if clock_reads:
    bad.append(f"LRUCache(capacity=0): the clock was read {len(clock_reads)} times by set() of a disabled cache")

# siblings, for contrast
cm_reads = []
cm = CacheManager(max_entries=0, ttl_sec=10, time_fn=lambda: cm_reads.append(1) or 0.0)
for i in range(5):
    cm.set("ns", ("k", i), i)
assert cm.stats["evicted"] == 0 and not cm_reads
b = LRUBytes(0, 0)
assert [b.put(i, i, 1) for i in range(5)] == [(0, 0)] * 5

for x in bad:
    print("VIOLATION:", x)
sys.exit(1 if bad else 0)
