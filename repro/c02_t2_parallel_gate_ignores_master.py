#!/usr/bin/env python
"""Side observation (UNCHANGED code): T2 shard fan-out ignores the perf master switch.

perf.enabled = false, perf.parallel = {enabled: true, t2: true, max_workers: 2}.
t2_parallel_enabled() (clematis/engine/stages/t2/parallel.py) checks perf.parallel.* only, never
perf.enabled, so the sharded retrieval path runs although the performance master switch is off.
The cluster_semantic tier then picks its top-m clusters PER SHARD instead of globally, so the
retrieved set (t2.jsonl k_returned, the utterance's snippets, ...) differs from the run whose
configuration omits the perf subtree.

exit 1 when the violation shows, 0 otherwise.
"""
from __future__ import annotations

import json
import os
import shutil
import sys
import tempfile
from types import SimpleNamespace

os.environ["CI"] = "true"
os.environ.setdefault("CLEMATIS_NETWORK_BAN", "1")

from configs.validate import validate_config
from clematis.adapters.embeddings import BGEAdapter
from clematis.engine.orchestrator.core import Orchestrator
from clematis.engine.stages import t1 as t1_mod
from clematis.engine.stages.t2 import cache as t2_cache_mod
from clematis.graph.store import InMemoryGraphStore, Node, Edge
from clematis.memory.index import InMemoryIndex


class AttrDict(dict):
    def __getattr__(self, name):
        try:
            return self[name]
        except KeyError as e:
            raise AttributeError(name) from e


def to_attr(o):
    if isinstance(o, dict):
        return AttrDict({k: to_attr(v) for k, v in o.items()})
    if isinstance(o, list):
        return [to_attr(v) for v in o]
    return o


def world():
    store = InMemoryGraphStore()
    store.upsert_nodes("g:surface", [Node(id="n:hello", label="hello"), Node(id="n:world", label="world")])
    store.upsert_edges("g:surface", [Edge(id="e:h->w", src="n:hello", dst="n:world", weight=0.8, rel="supports")])
    enc = BGEAdapter(dim=32)
    idx = InMemoryIndex()
    rows = [("ep1", "hello world", "c1"), ("ep2", "hello there", "c1"),
            ("ep3", "apple banana", "c2"), ("ep4", "banana bread", "c2")]
    for eid, text, cid in rows:
        idx.add({"id": eid, "owner": "agentA", "text": text, "ts": "2026-01-09T00:00:00+00:00",
                 "vec_full": enc.encode([text])[0], "aux": {"cluster_id": cid}})
    return {"store": store, "active_graphs": ["g:surface"], "mem_index": idx, "version_etag": "0"}


def run(raw, tmp, tag):
    log_dir = os.path.join(tmp, "logs" + tag)
    os.makedirs(log_dir)
    os.environ["CLEMATIS_LOG_DIR"] = log_dir
    t1_mod._T1_CACHE = None
    t2_cache_mod._T2_CACHE = None
    raw = json.loads(json.dumps(raw))
    raw.setdefault("t4", {})["snapshot_dir"] = os.path.join(tmp, "snap" + tag)
    cfg = to_attr(validate_config(raw))
    state = world()
    ctx = SimpleNamespace(turn_id=1, agent_id="agentA", now="2026-01-10T00:00:00+00:00",
                          now_ms=1767996000000, cfg=cfg, config=cfg)
    line = Orchestrator().run_turn(ctx, state, "hello world").line
    t2rows = [json.loads(l) for l in open(os.path.join(log_dir, "t2.jsonl"), encoding="utf-8") if l.strip()]
    keep = ("tier_sequence", "k_returned", "k_used", "k_residual", "sim_stats")
    return {"line": line, "t2": [{k: r.get(k) for k in keep} for r in t2rows]}


def main():
    tmp = tempfile.mkdtemp(prefix="obs_C02_t2par_")
    try:
        base = {"t2": {"k_retrieval": 8, "sim_threshold": -1.0, "tiers": ["cluster_semantic"], "clusters_top_m": 1}}
        gated = json.loads(json.dumps(base))
        gated["perf"] = {"enabled": False, "parallel": {"enabled": True, "t2": True, "max_workers": 2}}
        a = run(gated, tmp, "A")
        b = run(base, tmp, "B")
        if a != b:
            print("VIOLATION (perf.enabled=false, yet perf.parallel.* changed retrieval):")
            print("   perf master off + parallel.t2 on:", a)
            print("   perf subtree omitted            :", b)
            return 1
        print("no difference observed")
        return 0
    finally:
        shutil.rmtree(tmp, ignore_errors=True)


if __name__ == "__main__":
    sys.exit(main())
