"""Side observation (unchanged code): the canonical key is the plain concatenation src + "→" + dst,
so two DIFFERENT unordered pairs whose ids contain the arrow collapse onto one key/one edge:
  {"a→b", "c"} and {"a", "b→c"} both map to "a→b→c".
The second observation bumps the first pair's edge (weight 2*alpha, src/dst of the first pair) and
the pair {"a","b→c"} never gets an edge of its own. Exit 1 when that happens.
"""
import sys
from clematis.engine import gel


class S:
    pass


CFG = {"graph": {"enabled": True, "coactivation_threshold": 0.2,
                 "update": {"mode": "additive", "alpha": 0.1, "clamp_min": -1.0, "clamp_max": 1.0}}}
s = S()
gel.observe_retrieval(CFG, s, [("a→b", .9), ("c", .8)])
gel.observe_retrieval(CFG, s, [("a", .9), ("b→c", .8)])
edges = s.graph["edges"]
pairs = {frozenset((r["src"], r["dst"])) for r in edges.values()}
print({k: (r["src"], r["dst"], r["weight"]) for k, r in edges.items()})
want = {frozenset(("a→b", "c")), frozenset(("a", "b→c"))}
if pairs != want or len(edges) != 2:
    print("two distinct unordered pairs share one edge record:", len(edges), "edge(s) for 2 pairs")
    sys.exit(1)
sys.exit(0)
