#!/usr/bin/env python
"""Side observation for C20 (independent of the seeded change).

A snapshot file whose GEL edge carries a garbage `attrs.coact` value (here the
string "many" instead of an integer) is accepted by the boot loader: the loader
copies `attrs` through verbatim.  With `graph.enabled`, the first turn whose
retrieval co-activates that edge reaches `gel.observe_retrieval`, which does
`int(attrs.get("coact", 0)) + 1` outside any guard, and the exception escapes
`run_turn`: the turn aborts because of the contents of a snapshot file.

Exit 1 when the turn aborts (violation shows), 0 when the turn completes.
"""
from __future__ import annotations

import json
import os
import shutil
import sys
import tempfile
import traceback
from types import SimpleNamespace

HERE = os.path.dirname(os.path.abspath(__file__))
sys.path.insert(0, HERE)
ROOT = tempfile.mkdtemp(prefix="observe_c20_")
os.environ["CI"] = "true"
os.environ["CLEMATIS_LOG_DIR"] = os.path.join(ROOT, "logs")

from configs.validate import validate_config  # noqa: E402
from clematis.engine.orchestrator import core  # noqa: E402
from clematis.graph.store import InMemoryGraphStore  # noqa: E402
from clematis.engine.types import Node  # noqa: E402
from clematis.memory.index import InMemoryIndex  # noqa: E402
from clematis.adapters.embeddings import BGEAdapter  # noqa: E402


class AD(dict):
    def __getattr__(self, n):
        try:
            return self[n]
        except KeyError as e:
            raise AttributeError(n) from e

    def __setattr__(self, n, v):
        self[n] = v


def to_ad(o):
    if isinstance(o, dict):
        return AD({k: to_ad(v) for k, v in o.items()})
    if isinstance(o, list):
        return [to_ad(v) for v in o]
    return o


def main() -> int:
    snap_dir = os.path.join(ROOT, "snaps")
    os.makedirs(snap_dir)
    garbage = {
        "schema_version": "v1",
        "gel": {
            "nodes": {},
            "edges": {
                "ep0→ep1": {
                    "src": "ep0",
                    "dst": "ep1",
                    "rel": "coact",
                    "weight": 0.2,
                    "attrs": {"coact": "many", "last_seen_turn": None},
                }
            },
        },
    }
    with open(os.path.join(snap_dir, "snap_000001.json"), "w", encoding="utf-8") as fh:
        json.dump(garbage, fh)

    cfg = to_ad(
        validate_config(
            {
                "t2": {"sim_threshold": 0.0},
                "graph": {"enabled": True, "coactivation_threshold": 0.0},
                "t4": {"snapshot_dir": snap_dir, "snapshot_every_n_turns": 1},
            }
        )
    )
    store = InMemoryGraphStore()
    store.upsert_nodes("g:surface", [Node(id="n:apple", label="apple"), Node(id="n:pear", label="pear")])
    idx = InMemoryIndex()
    enc = BGEAdapter(dim=int(cfg.get("k_surface", 32)))
    for i, text in enumerate(["apple pie recipe", "pear tart recipe", "apple and pear salad", "banana bread"]):
        idx.add({"id": f"ep{i}", "owner": "any", "ts": "2025-01-01T00:00:00Z", "text": text,
                 "vec_full": enc.encode([text])[0].tolist(), "aux": {"importance": 0.5}})
    state = {"store": store, "active_graphs": ["g:surface"], "mem_index": idx, "version_etag": None}
    ctx = SimpleNamespace(turn_id=1, agent_id="A", now="2025-01-02T00:00:00Z", now_ms=1735776000000,
                          cfg=cfg, config=cfg)
    try:
        res = core.run_turn(ctx, state, "apple pear")
    except Exception:
        traceback.print_exc()
        print("VIOLATION: garbage inside a snapshot file aborted the turn")
        return 1
    print("turn completed:", repr(res.line))
    return 0


if __name__ == "__main__":
    try:
        rc = main()
    finally:
        shutil.rmtree(ROOT, ignore_errors=True)
    sys.exit(rc)
