"""Side observation (unchanged code, REAL stage pipeline): a turn that yields during the compute phase is committed
anyway.

With the scheduler on (scheduler.enabled, budgets.t1_iters = 1) the turn of agent B reaches its T1 iteration budget:
run_turn logs the scheduler event and a 'yielded' turn record and returns before T2/T4/Apply.  The sequential loop
therefore applies nothing for B (no apply.jsonl line, no version bump, no state_B snapshot).  In the parallel driver
the dry-run turn returns early the same way, but _run_turn_compute does not notice (no _dryrun_t4 artifact -> empty
delta list) and the commit phase runs apply_changes for B: version_etag is bumped once more, an apply.jsonl line is
written for B and state_B.json is written.

The state is an attribute+mapping hybrid and has run one ordinary turn before (boot hook and cache manager exist), so
that the real pipeline can run on the read-only snapshot at all.  Only apply.jsonl / version_etag / snapshot files are
compared - they do not depend on the T3 stage (which the dry run skips).

Contradicts: "yields ... the same final state and the same on-disk log lines ... as running those turns one after
another ... with the real stage pipeline".
Exit 1 when the violation shows, 0 otherwise.
"""
import copy
import dataclasses
import json
import os
import sys
import tempfile
from types import SimpleNamespace as SNS

os.environ["CI"] = "true"
import clematis.io.paths as paths  # noqa: E402
import clematis.engine.orchestrator as orch  # noqa: E402
from clematis.io.config import load_config  # noqa: E402
from clematis.graph.store import InMemoryGraphStore, Node, Edge  # noqa: E402

TMP = tempfile.mkdtemp(prefix="obs_c10_yield_")
HERE = "/repo"


class State(dict):
    def __getattr__(self, k):
        try:
            return self[k]
        except KeyError:
            raise AttributeError(k) from None

    def __setattr__(self, k, v):
        self[k] = v


def mk_cfg(parallel, snaps, sched):
    base = load_config(os.path.join(HERE, "configs", "config.yaml"))
    d = {f.name: copy.deepcopy(getattr(base, f.name)) for f in dataclasses.fields(base)}
    d["perf"] = {"enabled": True, "parallel": {"enabled": parallel, "agents": parallel, "max_workers": 4 if parallel else 1}}
    d["scheduler"] = {"enabled": True, "quantum_ms": 10**6, "budgets": {"t1_iters": 1}} if sched else {"enabled": False}
    d["t4"]["snapshot_dir"] = snaps
    return SNS(**d)


def mk_state():
    store = InMemoryGraphStore()
    for gid in ("g:surface", "g:A", "g:B"):
        store.ensure(gid)
    store.upsert_nodes("g:surface", [Node(id="n:hello", label="hello"), Node(id="n:world", label="world")])
    store.upsert_edges("g:surface", [Edge(id="e:h->w", src="n:hello", dst="n:world", weight=0.8, rel="supports")])
    return State(store=store, active_graphs=["g:surface"], graphs_by_agent={"A": ["g:A"], "B": ["g:B"]})


def run(tag, parallel):
    logs = os.path.join(TMP, tag, "logs")
    snaps = os.path.join(TMP, tag, "snaps")
    os.makedirs(logs)
    paths.logs_dir = lambda: logs
    state = mk_state()
    warm = SNS(cfg=mk_cfg(False, snaps, False), turn_id=1, agent_id="W", now="2026-01-01T00:00:00+00:00", now_ms=500)
    orch.Orchestrator().run_turn(warm, state, "warm up")
    for f in os.listdir(logs):
        os.remove(os.path.join(logs, f))
    ctx = SNS(cfg=mk_cfg(parallel, snaps, True), turn_id=5, now="2026-01-01T00:00:01+00:00", now_ms=1000)
    # "hello world" -> T1 stops with iters 0 (no yield); "hello" -> iters 1 == budget -> BUDGET_T1_ITERS yield
    orch._run_agents_parallel_batch(ctx, state, [("A", "hello world"), ("B", "hello")])

    def agents(name):
        p = os.path.join(logs, name)
        return [json.loads(x).get("agent") for x in open(p)] if os.path.exists(p) else []

    return {
        "yielded": [json.loads(x).get("agent") for x in open(os.path.join(logs, "turn.jsonl")) if json.loads(x).get("yielded")],
        "apply.jsonl agents": agents("apply.jsonl"),
        "version_etag": state.get("version_etag"),
        "snapshots": sorted(f for f in os.listdir(snaps) if f.endswith(".json") and not f.startswith("state_W")),
    }


seq = run("seq", False)
par = run("par", True)
print("sequential:", seq)
print("parallel  :", par)
if seq["yielded"] != ["B"] or par["yielded"] != ["B"]:
    print("precondition not met (B did not yield) - nothing to compare")
    sys.exit(0)
if (seq["apply.jsonl agents"], seq["version_etag"], seq["snapshots"]) != (
    par["apply.jsonl agents"],
    par["version_etag"],
    par["snapshots"],
):
    print("VIOLATION: the yielded turn of B was committed by the parallel driver")
    sys.exit(1)
sys.exit(0)
