"""Side observation (unchanged code): two tasks of the SAME agent in one batch are both computed
in the same batch, although their graph sets are identical (i.e. they overlap an already selected
agent).  _select_independent_batch picks the agent once, but the driver filters tasks with
`aid not in picked`, which lets every task of a picked agent through.

Exit 1 when the violation shows, 0 otherwise.
"""
import os
import sys
import tempfile
from types import SimpleNamespace as SNS

d = tempfile.mkdtemp(prefix="c10_obs_dup_")
import clematis.io.paths as paths
paths.logs_dir = lambda: d
import clematis.engine.orchestrator as orch
from clematis.engine.orchestrator import Orchestrator
from clematis.engine.orchestrator.parallel import _select_independent_batch

computed = []


def stub(self, ctx, state, text):
    computed.append((ctx.agent_id, text))
    ctx._dryrun_t4 = SNS(approved_deltas=[{"id": f"{ctx.agent_id}:{text}"}])
    ctx._dryrun_utter = f"{ctx.agent_id}:{text}"
    ctx._dryrun_t1 = {"graphs_touched": ["G1"]}
    ctx._dryrun_t2 = {}
    return SNS(line=ctx._dryrun_utter, events=[])


Orchestrator.run_turn = stub
applied = []
orch.apply_changes = lambda ctx, state, t4: (
    applied.append(list(t4.approved_deltas))
    or SNS(applied=1, clamps=0, version_etag="v", snapshot_path=None, metrics={})
)

cfg = {"perf": {"enabled": True, "parallel": {"enabled": True, "agents": True, "max_workers": 4}}}
ctx = SNS(cfg=cfg, turn_id=5)
state = {"graphs_by_agent": {"A": ["G1"], "B": ["G2"]}}
tasks = [("A", "first"), ("B", "x"), ("A", "second")]

picked = _select_independent_batch([a for a, _ in tasks], state, 4)
res = orch._run_agents_parallel_batch(ctx, state, tasks)
print("picked by selection :", picked)
print("computed in batch   :", computed)
print("results             :", [r.line for r in res])
if len(computed) > len(picked):
    print("VIOLATION: both turns of agent A (same graph set G1) were computed on one snapshot and committed in one batch")
    sys.exit(1)
sys.exit(0)
