#!/usr/bin/env python3
"""Side observation (unchanged code): logmux.write_or_buffer - "the preferred call-point from code
that wants to be capture-aware" - stores the caller's dict itself in the LogMux buffer (no copy, unlike
clematis.io.log.append_jsonl since fix aaa27b2). A writer that reuses / updates its record object after
appending (a running counters dict is the usual case) gets the LATER state serialised at commit, for
every buffered occurrence: the appended records are not the ones that reach the stream.

Clause contradicted: "Every record appended to a JSONL stream appears as exactly one complete ... JSON line"
(the lines on disk are not the records that were appended).

Exit 1 when the violation shows, 0 otherwise.
"""
from __future__ import annotations

import json
import os
import sys
import tempfile

d = tempfile.mkdtemp(prefix="c16_obs_wob_")
os.environ["CLEMATIS_LOG_DIR"] = d
os.environ.pop("CI", None)

from clematis.engine.util.logmux import LogMux, use_mux, write_or_buffer, flush  # noqa: E402

counters = {"step": 0, "seen": []}
mux = LogMux()
with use_mux(mux):
    for step in (1, 2, 3):
        counters["step"] = step
        counters["seen"].append(step)
        write_or_buffer("health.jsonl", counters)
flush(mux.dump())

with open(os.path.join(d, "health.jsonl"), "rb") as f:
    got = [json.loads(ln) for ln in f.read().split(b"\n") if ln]
want = [{"step": 1, "seen": [1]}, {"step": 2, "seen": [1, 2]}, {"step": 3, "seen": [1, 2, 3]}]
print("appended:", want)
print("on disk :", got)
if got != want:
    print("VIOLATION: buffered records alias the caller's object")
    sys.exit(1)
sys.exit(0)
