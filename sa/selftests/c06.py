S = "clematis/engine/snapshot.py"
G = "clematis/engine/gel.py"
H = "clematis/engine/stages/hybrid.py"
CASES = [
    ("loader-canonicalises-endpoints", "mutant", "clematis/engine/snapshot.py", "                        rec = dict(rec)\n                        rec[\"id\"] = key\n", "                        rec = dict(rec)\n                        rec[\"id\"] = key\n                        rec[\"src\"] = min(src, dst)\n                        rec[\"dst\"] = max(src, dst)\n", "C06.TABLE"),
    ("loader-rounds-weight-again", "mutant", "clematis/engine/snapshot.py", "                        rec = dict(rec)\n                        rec[\"id\"] = key\n", "                        rec = dict(rec, weight=round(float(rec.get(\"weight\", 0.0)), 3))\n                        rec[\"id\"] = key\n", "C06.TABLE"),
    ("loader-id-by-spread", "twin", "clematis/engine/snapshot.py", "                        rec = dict(rec)\n                        rec[\"id\"] = key\n", "                        rec = {**rec, \"id\": key}\n", None),
    ("loader-reads-ver", "mutant", S, "    ver = (data or {}).get(\"version_etag\")\n", "    ver = (data or {}).get(\"ver\")\n", "C06.TABLE"),
    ("writer-drops-store", "mutant", S, "    payload[\"store\"] = store_export if isinstance(store_export, dict) else {}\n", "    if isinstance(store_export, dict):\n        payload[\"store\"] = store_export\n", "C06.TABLE"),
    ("importer-field-renamed", "mutant", S, "                val = float(item.get(\"value\", 0.0))", "                val = float(item.get(\"val\", 0.0))", "C06.TABLE"),
    ("load-own-sanitiser", "mutant", S, "    out = _sanitize_gel_for_write(gel, ctx)\n    # If input had a meta dict", "    out = dict(gel or {})\n    # If input had a meta dict", "C06.SYM"),
    ("rekey-arrow-differs-on-load", "mutant", S,
     "                    if src and dst:\n                        key = f\"{src}→{dst}\" if src <= dst else f\"{dst}→{src}\"\n                        rec = dict(rec)\n                        rec[\"id\"] = key\n                        new_edges[key] = rec\n                    else:\n                        new_edges[k] = rec\n                gel_out[\"edges\"] = new_edges\n        except Exception:\n            pass\n        _set_state_field(state, \"graph\", gel_out)",
     "                    if src and dst:\n                        key = f\"{src}->{dst}\" if src <= dst else f\"{dst}->{src}\"\n                        rec = dict(rec)\n                        rec[\"id\"] = key\n                        new_edges[key] = rec\n                    else:\n                        new_edges[k] = rec\n                gel_out[\"edges\"] = new_edges\n        except Exception:\n            pass\n        _set_state_field(state, \"graph\", gel_out)", "C06.SYM"),
    ("hybrid-key-max-first", "mutant", H, "    return f\"{a}{_ARROW}{b}\" if a <= b else f\"{b}{_ARROW}{a}\"", "    return f\"{a}{_ARROW}{b}\" if a >= b else f\"{b}{_ARROW}{a}\"", "C06.SYM"),
    ("gel-key-not-canonical", "mutant", G, "    if sa <= sb:\n        src, dst = sa, sb\n    else:\n        src, dst = sb, sa\n", "    src, dst = sa, sb\n", None),
    ("weight-not-clamped", "mutant", S, "            w = _round6(_clamp(float(ed.get(\"weight\", 0.0)), wmin, wmax))", "            w = _round6(float(ed.get(\"weight\", 0.0)))", "C06.CLAMP"),
    ("weight-not-rounded", "mutant", S, "            w = _round6(_clamp(float(ed.get(\"weight\", 0.0)), wmin, wmax))", "            w = _clamp(float(ed.get(\"weight\", 0.0)), wmin, wmax)", "C06.CLAMP"),
    ("round6-keeps-nan", "mutant", S, "        if not math.isfinite(x):\n            return 0.0\n        return round(float(x), 6)", "        return round(float(x), 6)", "C06.CLAMP"),
    ("sidecar-named-json", "mutant", S, "    meta_path = p + \".meta\"\n    meta = {", "    meta_path = p + \".meta.json\"\n    meta = {", "C06.DISC"),
    ("body-without-marker", "mutant", S, "        \"deltas\": _serialize_deltas(deltas),\n        \"schema_version\": SCHEMA_VERSION,\n", "        \"deltas\": _serialize_deltas(deltas),\n", "C06.MARK"),
    ("lines-without-sidecar", "mutant", S, "    # Write sidecar meta with schema_version for inspector/ops tools\n    try:\n        _write_sidecar_meta(p, schema_version=SCHEMA_VERSION)\n    except Exception:\n        pass\n", "", "C06.MARK"),
    # twins
    ("rekey-lt-instead-of-le", "twin", S,
     "                        key = f\"{src}→{dst}\" if src <= dst else f\"{dst}→{src}\"\n                        rec = dict(rec)\n                        rec[\"id\"] = key\n                        new_edges[key] = rec\n                    else:\n                        new_edges[k] = rec\n                gel_out[\"edges\"] = new_edges\n                # keep meta",
     "                        key = f\"{src}→{dst}\" if src < dst else f\"{dst}→{src}\"\n                        rec = dict(rec)\n                        rec[\"id\"] = key\n                        new_edges[key] = rec\n                    else:\n                        new_edges[k] = rec\n                gel_out[\"edges\"] = new_edges\n                # keep meta", None),
    ("hybrid-key-swapped-form", "twin", H, "    return f\"{a}{_ARROW}{b}\" if a <= b else f\"{b}{_ARROW}{a}\"", "    return f\"{b}{_ARROW}{a}\" if b < a else f\"{a}{_ARROW}{b}\"", None),
]
