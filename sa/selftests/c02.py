T = "clematis/engine/stages/t1.py"
O = "clematis/engine/orchestrator/core.py"
Q = "clematis/engine/stages/t2/quality.py"
V = "configs/validate.py"
M = "clematis/engine/util/metrics.py"
C2 = "clematis/engine/stages/t2/cache.py"
SN = "clematis/engine/snapshot.py"
A4 = "clematis/engine/apply.py"
CASES = [
    ("frontier-cap-without-perf", "mutant", T, "    if perf_enabled and frontier_cap_cfg > 0:\n        effective_frontier_cap = min(frontier_cap_cfg, effective_queue_budget)\n", "    if frontier_cap_cfg > 0:\n        effective_frontier_cap = min(frontier_cap_cfg, effective_queue_budget)\n", "C02.DOM"),
    ("dedupe-ring-without-perf", "mutant", T, "        ring = DedupeRing(dedupe_window_cfg) if (perf_enabled and dedupe_window_cfg > 0) else None\n", "        ring = DedupeRing(dedupe_window_cfg) if (dedupe_window_cfg > 0) else None\n", "C02.DOM"),
    ("t1-bytes-cache-without-perf", "mutant", T, "    if perf_on and (max_e > 0 or max_b > 0):\n", "    if max_e > 0 or max_b > 0:\n", "C02"),
    ("parallel-metrics-ungated", "mutant", T, "    if metrics_gate_on(ctx.cfg) and _t1_parallel_enabled(ctx.cfg):\n", "    if metrics_gate_on(ctx.cfg):\n", "C02.DOM"),
    ("metrics-gate-ignores-master", "mutant", M, "    if not bool(perf.get(\"enabled\", False)):\n        return False\n    m = perf.get(\"metrics\") or {}\n", "    m = perf.get(\"metrics\") or {}\n", "C02.SUBGATE"),
    ("gel-log-outside-gate", "mutant", O, "        if graph_enabled and not _dry_run:\n            t0_gel = time.perf_counter()\n", "        if not _dry_run:\n            t0_gel = time.perf_counter()\n", "C02"),
    ("gel-tick-outside-gate", "mutant", O, "            if graph_enabled2:\n                t0_decay = time.perf_counter()\n", "            if True:\n                t0_decay = time.perf_counter()\n", "C02"),
    ("budgets-derived-without-gate", "mutant", O, "        if sched_enabled:\n            _maybe_load_scheduler()\n            budgets = _derive_budgets(ctx)\n", "        budgets = _derive_budgets(ctx)\n        if sched_enabled:\n            _maybe_load_scheduler()\n", "C02"),
    ("slice-ctx-without-gate", "mutant", O, "        if sched_enabled:\n            _maybe_load_scheduler()\n", "        if sched_enabled or True:\n            _maybe_load_scheduler()\n", "C02"),
    ("shadow-trace-double-gate", "mutant", Q, "            and perf_enabled\n            and metrics_enabled\n            and q_shadow\n", "            and metrics_enabled\n            and q_shadow\n", "C02.ART"),
    ("validator-injects-perf", "mutant", V, "    if \"perf\" not in cfg_in:\n        # Exclude perf defaults entirely when user didn't specify a perf section\n        defaults = dict(defaults)\n        defaults.pop(\"perf\", None)\n", "", "C02.VAL"),
    ("mmr-fallback-ungated", "mutant", Q, "                and bool(cfg_get(cfg_root, [\"t2\", \"quality\", \"enabled\"], False))\n                and bool(cfg_get(cfg_root, [\"t2\", \"quality\", \"mmr\", \"enabled\"], False))\n", "                and bool(cfg_get(cfg_root, [\"t2\", \"quality\", \"mmr\", \"enabled\"], False))\n", "C02.DOM"),
    ("snapshot-bounds-read-live-graph-keys", "mutant", SN, [("    wmin = float(g.get(\"weight_min\", t4.get(\"weight_min\", -1.0)))\n    wmax = float(g.get(\"weight_max\", t4.get(\"weight_max\", 1.0)))\n", "    upd = g.get(\"update\") or {}\n    wmin = float(upd.get(\"clamp_min\", t4.get(\"weight_min\", -1.0)))\n    wmax = float(upd.get(\"clamp_max\", t4.get(\"weight_max\", 1.0)))\n")], None, "C02.DOM"),
    ("snapshot-prune-by-decay-floor", "mutant", SN, "    eps = float(decay.get(\"epsilon_prune\", 0.0))\n", "    eps = float(decay.get(\"floor\", 0.0))\n", "C02.DOM"),
    # twins
    ("snapshot-bounds-gated-live-keys", "twin", SN, [("    wmin = float(g.get(\"weight_min\", t4.get(\"weight_min\", -1.0)))\n    wmax = float(g.get(\"weight_max\", t4.get(\"weight_max\", 1.0)))\n", "    wmin = float(g.get(\"weight_min\", t4.get(\"weight_min\", -1.0)))\n    wmax = float(g.get(\"weight_max\", t4.get(\"weight_max\", 1.0)))\n    if bool(g.get(\"enabled\", False)):\n        wmin = max(wmin, float((g.get(\"update\") or {}).get(\"clamp_min\", wmin)))\n")], None, None),
    ("gate-local-predicate", "twin", T, "    if perf_enabled and frontier_cap_cfg > 0:\n        effective_frontier_cap = min(frontier_cap_cfg, effective_queue_budget)\n", "    cap_on = perf_enabled and frontier_cap_cfg > 0\n    if cap_on:\n        effective_frontier_cap = min(frontier_cap_cfg, effective_queue_budget)\n", None),
    ("gel-flag-renamed", "twin", O, "        if graph_enabled and not _dry_run:\n            t0_gel = time.perf_counter()\n", "        gel_on = graph_enabled and not _dry_run\n        if gel_on:\n            t0_gel = time.perf_counter()\n", None),
]
