U = "clematis/engine/util/parallel.py"
T1 = "clematis/engine/stages/t1.py"
C = "clematis/engine/stages/t2/core.py"
P = "clematis/engine/stages/t2/parallel.py"
S = "clematis/engine/stages/t2/shard.py"
CASES = [
    ("shard-reducer-returns-generator", "mutant", C, "                    merge_fn=lambda pairs: [hits for _, hits in pairs],\n", "                    merge_fn=lambda pairs: (hits for _, hits in pairs),\n", "C09.CALL"),
    ("shard-merge-fed-generator", "mutant", C, "                merged, used_tiers = _merge_tier_hits_across_shards(shard_hits, tiers, k_retrieval)\n", "                merged, used_tiers = _merge_tier_hits_across_shards((h for h in shard_hits), tiers, k_retrieval)\n", "C09.CALL"),
    ("shard-merge-fed-list-of-generator", "twin", C, "                merged, used_tiers = _merge_tier_hits_across_shards(shard_hits, tiers, k_retrieval)\n", "                merged, used_tiers = _merge_tier_hits_across_shards(list(h for h in shard_hits), tiers, k_retrieval)\n", None),
    ("as-completed-no-sort", "mutant", U,
     [("        for idx, k, fut in futures:\n            try:\n                r = fut.result()\n", "        _by = {fut: (idx, k) for idx, k, fut in futures}\n        for fut in as_completed(list(_by)):\n            idx, k = _by[fut]\n            try:\n                r = fut.result()\n"),
      ("        (k, r) for _, k, r in sorted(results_unordered, key=lambda t: (order_key(t[1]), t[0]))\n", "        (k, r) for _, k, r in results_unordered\n")], None, "C09.MERGE"),
    ("sort-without-index", "mutant", U, "        (k, r) for _, k, r in sorted(results_unordered, key=lambda t: (order_key(t[1]), t[0]))\n", "        (k, r) for _, k, r in sorted(results_unordered, key=lambda t: t[0])\n", "C09.MERGE"),
    ("merge-before-error-check", "mutant", U,
     [("    if errors:\n        # Sort deterministically by order_key then by original index.\n        errors.sort(key=lambda t: (t[0], t[1]))\n        raise ParallelError([te for _, _, te in errors])\n\n", ""),
      ("    return merge_fn(results_ordered)\n", "    merged = merge_fn(results_ordered)\n    if errors:\n        errors.sort(key=lambda t: (t[0], t[1]))\n        raise ParallelError([te for _, _, te in errors])\n    return merged\n")], None, "C09.MERGE"),
    ("errors-unsorted", "mutant", U, "        errors.sort(key=lambda t: (t[0], t[1]))\n", "", "C09.MERGE"),
    ("sequential-unsorted", "mutant", U, "        results.sort(key=lambda kr: (order_key(kr[0]),))\n", "", "C09.MERGE"),
    ("t2-merge-fn-none", "mutant", C, "                    merge_fn=lambda pairs: [hits for _, hits in pairs],\n", "                    merge_fn=None,\n", "C09.CALL"),
    ("t2-order-key-none", "mutant", C, "                    order_key=lambda i: i,  # key is the integer shard index (submit order)\n", "                    order_key=None,\n", "C09.CALL"),
    ("merge-iters-max", "mutant", T1, "                agg_iters += m[\"iters\"]\n", "                agg_iters = max(agg_iters, m[\"iters\"])\n", "C09.SIB-T1"),
    ("merge-drops-node-hits", "mutant", T1, "                agg_node_hits += m.get(\"node_budget_hits\", 0)\n", "", "C09.SIB-T1"),
    ("merge-return-swapped", "mutant", T1, "                agg_radius_hits,\n                agg_layer_hits,\n                agg_node_hits,\n", "                agg_layer_hits,\n                agg_radius_hits,\n                agg_node_hits,\n", "C09.SIB-T1"),
    ("merge-perf-gate-dropped", "mutant", T1, "                if perf_enabled and metrics_enabled:\n                    agg_frontier_ev += m[\"_t1_frontier_evicted\"]\n", "                if True:\n                    agg_frontier_ev += m[\"_t1_frontier_evicted\"]\n", "C09.SIB-T1"),
    ("shard-recent-days-none", "mutant", P, "            if exact_recent_days is not None:\n                # same window as the sequential tier walk (recent_days=None made int(None) fail inside the index)\n                hints.update({\"recent_days\": int(exact_recent_days)})\n", "            hints.update({\"recent_days\": None})\n", "C09.SIB-T2"),
    ("shard-no-recent-days", "mutant", P, "            if exact_recent_days is not None:\n                # same window as the sequential tier walk (recent_days=None made int(None) fail inside the index)\n                hints.update({\"recent_days\": int(exact_recent_days)})\n", "            pass\n", "C09.SIB-T2"),
    ("fan-out-drops-recency", "mutant", C, "                        exact_recent_days=exact_recent_days,\n", "", "C09.SIB-T2"),
    ("shard-merge-score-only", "mutant", S, "            return (-_qscore(s), str(h.get(\"id\")))\n", "            return (-_qscore(s),)\n", "C09.SIB-T2"),
    ("shard-merge-no-dedupe", "mutant", S, "            if hid in seen:\n                continue\n            out.append(h)\n", "            out.append(h)\n", "C09.SIB-T2"),
    ("shard-merge-no-stop", "mutant", S, "            if len(out) >= k_retrieval:\n                return out, used_tiers\n", "", "C09.SIB-T2"),
    ("thunk-writes-shared-counter", "mutant", T1, "        seeds = _match_keywords(text, labels)\n        if not seeds:\n", "        seeds = _match_keywords(text, labels)\n        all_deltas.append({\"op\": \"noop\", \"id\": gid})\n        if not seeds:\n", "C09.SHARE"),
    ("cache-unwrapped", "mutant", T1, "        _T1_CACHE = ThreadSafeCache(LRUCache(max_entries=max_entries, ttl_s=ttl_s))  # type: ignore[arg-type]\n", "        _T1_CACHE = LRUCache(max_entries=max_entries, ttl_s=ttl_s)\n", "C09.SHARE"),
    ("shard-worker-stops-at-raw-k", "mutant", P, [("    out: Dict[str, List[Dict[str, Any]]] = {}\n    for tier in tiers:\n", "    out: Dict[str, List[Dict[str, Any]]] = {}\n    collected = 0\n    for tier in tiers:\n        if collected >= k_retrieval:\n            out[tier] = []\n            continue\n"),
                                                   ("        out[tier] = normalised\n", "        out[tier] = normalised\n        collected += len(normalised)\n")], None, "C09.SIB-T2"),
    ("shard-worker-shrinks-k", "mutant", P, [("    out: Dict[str, List[Dict[str, Any]]] = {}\n    for tier in tiers:\n", "    out: Dict[str, List[Dict[str, Any]]] = {}\n    left = int(k_retrieval)\n    for tier in tiers:\n"),
                                              ("owner=owner_query, q_vec=q_vec, k=k_retrieval, tier=tier, hints=hints", "owner=owner_query, q_vec=q_vec, k=max(1, left), tier=tier, hints=hints"),
                                              ("        out[tier] = normalised\n", "        out[tier] = normalised\n        left -= len(normalised)\n")], None, "C09.SIB-T2"),
    # twins
    ("shard-worker-counts-tiers", "twin", P, [("    out: Dict[str, List[Dict[str, Any]]] = {}\n    for tier in tiers:\n", "    out: Dict[str, List[Dict[str, Any]]] = {}\n    n_hits = 0\n    for tier in tiers:\n"),
                                               ("        out[tier] = normalised\n", "        out[tier] = normalised\n        n_hits += len(normalised)\n")], None, None),
    ("as-completed-resorted", "twin", U,
     [("        for idx, k, fut in futures:\n            try:\n                r = fut.result()\n", "        _by = {fut: (idx, k) for idx, k, fut in futures}\n        for fut in as_completed(list(_by)):\n            idx, k = _by[fut]\n            try:\n                r = fut.result()\n")], None, None),
    ("merge-fn-named", "twin", C, "                    merge_fn=lambda pairs: [hits for _, hits in pairs],\n", "                    merge_fn=(lambda pairs: [h for _, h in pairs]),\n", None),
]
