C = "clematis/engine/stages/t2/core.py"
T = "clematis/engine/stages/t1.py"
O = "clematis/engine/orchestrator/core.py"
G = "clematis/graph/store.py"
I = "clematis/memory/index.py"
CASES = [
    ("t2-key-drops-owner", "mutant", C, "        \"owner\": _owner_for_query(ctx, cfg_t2),\n", "", "C05.KEY"),
    ("t2-key-drops-k", "mutant", C, "        \"k_retrieval\": k_retrieval,\n        \"now\": now_str,\n", "        \"now\": now_str,\n", "C05.KEY"),
    ("t2-key-drops-now", "mutant", C, "        \"k_retrieval\": k_retrieval,\n        \"now\": now_str,\n", "        \"k_retrieval\": k_retrieval,\n", "C05.KEY"),
    ("t2-key-drops-ranking", "mutant", C, "        \"ranking\": _ensure_dict(cfg_t2.get(\"ranking\", {})),\n", "", "C05.KEY"),
    ("t2-key-drops-slice-cap", "mutant", C, "        \"slice_t2_k\": (getattr(ctx, \"slice_budgets\", None) or {}).get(\"t2_k\"),\n", "", "C05.KEY"),
    ("t2-key-drops-threshold", "mutant", C, "        \"sim_threshold\": sim_threshold,\n        \"clusters_top_m\": clusters_top_m,\n", "        \"clusters_top_m\": clusters_top_m,\n", "C05.KEY"),
    ("t2-key-drops-gel-edges", "mutant", C, "        ckey_payload[\"gel_edges\"] = sorted(\n            (str(_k), repr((_r or {}).get(\"weight\") if isinstance(_r, dict) else _r)) for _k, _r in _gel_edges.items()\n        )\n", "", "C05.KEY"),
    ("t2-new-unkeyed-config-read", "mutant", C, "    rescored.sort(key=lambda t: (-t[1], t[0].id))\n", "    rescored.sort(key=lambda t: (-t[1], t[0].id))\n    if bool(cfg_t2.get(\"newest_first\", False)):\n        rescored.reverse()\n", "C05.KEY"),
    ("t2-put-under-other-key", "mutant", C, "            cache.put(ckey, result)\n", "            cache.put((\"t2\", q_text), result)\n", "C05.KEY"),
    ("turn-key-drops-agent", "mutant", O, "        key = (ver, str(agent_id), str(now), _idx_sig,", "        key = (ver, str(now), _idx_sig,", "C05.KEY"),
    ("turn-key-version-and-text-only", "mutant", O, "        key = (ver, str(agent_id), str(now), _idx_sig, _cfg_sig, _t1_sig, _slice_sig, _enc_sig, _gel_sig, str(input_text))\n", "        key = (ver, str(input_text))\n", "C05.KEY"),
    ("turn-key-drops-index", "mutant", O, "        key = (ver, str(agent_id), str(now), _idx_sig,", "        key = (ver, str(agent_id), str(now),", "C05.KEY"),
    ("t1-key-drops-decay", "mutant", T, "            stable_key(decay_cfg),\n", "", "C05.KEY"),
    ("t1-key-drops-perf-enabled", "mutant", T, "                \"perf_enabled\": bool(perf_enabled),  # the caps below only bind when perf is on\n", "", "C05.KEY"),
    ("t1-key-drops-etag", "mutant", T, "            gid,\n            etag,\n            stable_key(decay_cfg),\n", "            gid,\n            stable_key(decay_cfg),\n", "C05.KEY"),
    ("etag-len-only", "mutant", G, "        for nid in sorted(g.nodes):\n            n = g.nodes[nid]\n            attrs = getattr(n, \"attrs\", None) or {}\n            h.update(repr((nid, getattr(n, \"label\", None), sorted((str(k), repr(v)) for k, v in attrs.items()))).encode())\n        for eid in sorted(g.edges):\n            e = g.edges[eid]\n            h.update(repr((eid, e.src, e.dst, float(e.weight), e.rel)).encode())\n",
     "        h.update(str(len(g.nodes)).encode())\n        h.update(str(len(g.edges)).encode())\n", "C05.VER"),
    ("etag-ignores-weights", "mutant", G, "            h.update(repr((eid, e.src, e.dst, float(e.weight), e.rel)).encode())\n", "            h.update(repr((eid, e.src, e.dst, e.rel)).encode())\n", "C05.VER"),
    ("upsert-edges-no-bump", "mutant", G, "        for e in edges:\n            g.edges[e.id] = e\n        self._bump_etag(g)\n", "        for e in edges:\n            g.edges[e.id] = e\n", "C05.VER"),
    ("index-clear-resets-version", "mutant", I, "        self._eps.clear()\n        self._ver += 1\n", "        self._eps.clear()\n        self._ver = 0\n", "C05.VER"),
    ("index-add-no-bump", "mutant", I, "        self._eps.append(ep)\n        self._ver += 1\n", "        self._eps.append(ep)\n", "C05.VER"),
    ("t2-key-drops-instance", "mutant", C, "        getattr(index, \"_uid\", id(index)),\n", "", "C05.ISO"),
    ("t2-hit-mutated", "mutant", C, "                    hit.metrics[\"cache_used\"] = True\n", "                    hit.metrics[\"cache_used\"] = True\n                    hit.retrieved = list(hit.retrieved)[:k_retrieval]\n", "C05.ALIAS"),
    ("t1-accumulator-aliases-cached-list", "mutant", T, "            if deltas_for_gid:\n                all_deltas.extend(deltas_for_gid)\n            total_pops += m[\"pops\"]\n", "            if deltas_for_gid:\n                if not all_deltas:\n                    all_deltas = deltas_for_gid\n                else:\n                    all_deltas.extend(deltas_for_gid)\n            total_pops += m[\"pops\"]\n", "C05.ALIAS"),
    ("apply-deltas-skips-unchanged-edge", "mutant", G, "                g.edges[eid] = Edge(\n                    id=eid,\n                    src=d[\"src\"],\n                    dst=d[\"dst\"],\n                    weight=float(d[\"weight\"]),\n                    rel=d.get(\"rel\", \"associates\"),\n                )\n                edits += 1\n",
     "                _e = Edge(\n                    id=eid,\n                    src=d[\"src\"],\n                    dst=d[\"dst\"],\n                    weight=float(d[\"weight\"]),\n                    rel=d.get(\"rel\", \"associates\"),\n                )\n                if g.edges.get(eid) == _e:\n                    continue\n                g.edges[eid] = _e\n                edits += 1\n", "C05.VER"),
    ("apply-deltas-counts-only-new-nodes", "mutant", G, "                g.nodes[nid] = g.nodes.get(nid) or Node(id=nid, label=d.get(\"label\", nid))\n                edits += 1\n", "                if nid not in g.nodes:\n                    g.nodes[nid] = Node(id=nid, label=d.get(\"label\", nid))\n                    edits += 1\n", "C05.VER"),
    ("t1-fold-helper-adopts-cached-list", "mutant", T, [("def _compute_decay(distance: int, cfg_t1: dict) -> float:\n", "def _merge_deltas(acc, part):\n    if not part:\n        return acc\n    if not acc:\n        return part\n    acc.extend(part)\n    return acc\n\n\ndef _compute_decay(distance: int, cfg_t1: dict) -> float:\n"),
      ("            if deltas_for_gid:\n                all_deltas.extend(deltas_for_gid)\n", "            all_deltas = _merge_deltas(all_deltas, deltas_for_gid)\n")], None, "C05.ALIAS"),
    ("index-replace-without-version-bump", "mutant", I, "    def add(self, ep: Dict[str, Any]) -> None:\n        self._eps.append(ep)\n        self._ver += 1\n", "    def add(self, ep: Dict[str, Any]) -> None:\n        for _i, _e in enumerate(self._eps):\n            if _e.get(\"id\") == ep.get(\"id\"):\n                self._eps[_i] = ep\n                return\n        self._eps.append(ep)\n        self._ver += 1\n", "C05.VER"),
    # twins
    ("t1-fold-helper-copies", "twin", T, [("def _compute_decay(distance: int, cfg_t1: dict) -> float:\n", "def _merge_deltas(acc, part):\n    return list(acc) + list(part or [])\n\n\ndef _compute_decay(distance: int, cfg_t1: dict) -> float:\n"),
      ("            if deltas_for_gid:\n                all_deltas.extend(deltas_for_gid)\n", "            all_deltas = _merge_deltas(all_deltas, deltas_for_gid)\n")], None, None),
    ("apply-deltas-extra-noop-loop", "twin", G, [("        edits = 0\n        for d in deltas:\n", "        edits = 0\n        for d in deltas:\n            pass\n        for d in deltas:\n")], None, None),
    ("t2-key-helper-local", "twin", C, "        \"owner\": _owner_for_query(ctx, cfg_t2),\n", "        \"owner\": _owner_for_query(ctx, cfg_t2),\n        \"owner_again\": _owner_for_query(ctx, cfg_t2),\n", None),
    ("t1-copy-before-extend", "twin", T, "            if deltas_for_gid:\n                all_deltas.extend(deltas_for_gid)\n            total_pops += m[\"pops\"]\n", "            if deltas_for_gid:\n                all_deltas.extend(list(deltas_for_gid))\n            total_pops += m[\"pops\"]\n", None),
]
