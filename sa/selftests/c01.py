O = "clematis/engine/orchestrator/core.py"
N = "clematis/engine/util/io_logging.py"
T1 = "clematis/engine/stages/t1.py"
T2 = "clematis/engine/stages/t2/core.py"
IX = "clematis/memory/index.py"
P = "clematis/engine/stages/t3/policy.py"
D = "clematis/engine/stages/t3/dialogue.py"
B = "clematis/engine/stages/t3/bundle.py"
A = "clematis/engine/apply.py"
S = "clematis/engine/snapshot.py"
E = "clematis/adapters/embeddings.py"
ES = "clematis/engine/util/embed_store.py"
Q = "clematis/engine/stages/t2/quality_ops.py"
CASES = [
    ("index-upsert-skips-version", "mutant", IX, "    def add(self, ep: Dict[str, Any]) -> None:\n        self._eps.append(ep)\n        self._ver += 1\n", "    def add(self, ep: Dict[str, Any]) -> None:\n        for j, old in enumerate(self._eps):\n            if old.get(\"id\") == ep.get(\"id\"):\n                self._eps[j] = ep\n                return\n        self._eps.append(ep)\n        self._ver += 1\n", "C01.CLOCK"),
    ("index-upsert-bumps-version", "twin", IX, "    def add(self, ep: Dict[str, Any]) -> None:\n        self._eps.append(ep)\n        self._ver += 1\n", "    def add(self, ep: Dict[str, Any]) -> None:\n        for j, old in enumerate(self._eps):\n            if old.get(\"id\") == ep.get(\"id\"):\n                self._eps[j] = ep\n                self._ver += 1\n                return\n        self._eps.append(ep)\n        self._ver += 1\n", None),
    ("gel-meta-template-deepcopied", "twin", "clematis/engine/snapshot.py", [('SCHEMA_VERSION = "v1"  # snapshots written going forward should include this\n', 'SCHEMA_VERSION = "v1"  # snapshots written going forward should include this\n_EMPTY_META_TPL = {"schema": "v1.1", "merges": [], "splits": [], "promotions": [], "concept_nodes_count": 0, "edges_count": 0}\n'), ('            _set_state_field(state, _field, {"nodes": {}, "edges": {}, "meta": dict(empty_meta)})\n', '            import copy as _cp\n            _set_state_field(state, _field, {"nodes": {}, "edges": {}, "meta": _cp.deepcopy(_EMPTY_META_TPL)})\n')], None, None),
    ("gel-meta-template-shallow", "mutant", "clematis/engine/snapshot.py", [('SCHEMA_VERSION = "v1"  # snapshots written going forward should include this\n', 'SCHEMA_VERSION = "v1"  # snapshots written going forward should include this\n_EMPTY_META_TPL = {"schema": "v1.1", "merges": [], "splits": [], "promotions": [], "concept_nodes_count": 0, "edges_count": 0}\n'), ('            _set_state_field(state, _field, {"nodes": {}, "edges": {}, "meta": dict(empty_meta)})\n', '            _set_state_field(state, _field, {"nodes": {}, "edges": {}, "meta": dict(_EMPTY_META_TPL)})\n')], None, "C01.HIST"),
    ("match-keywords-default-accumulator", "mutant", T1, [("def _match_keywords(text: str, labels: List[Tuple[str, str]]) -> Dict[str, float]:\n", "def _match_keywords(text: str, labels: List[Tuple[str, str]], seeds: Dict[str, float] = {}) -> Dict[str, float]:\n"), ("    t = text.casefold()\n    seeds: Dict[str, float] = {}\n", "    t = text.casefold()\n")], None, "C01.HIST"),
    ("match-keywords-default-none", "twin", T1, [("def _match_keywords(text: str, labels: List[Tuple[str, str]]) -> Dict[str, float]:\n", "def _match_keywords(text: str, labels: List[Tuple[str, str]], seeds: Optional[Dict[str, float]] = None) -> Dict[str, float]:\n"), ("    t = text.casefold()\n    seeds: Dict[str, float] = {}\n", "    t = text.casefold()\n    seeds = {} if seeds is None else seeds\n")], None, None),
    ("tick-prunes-by-key-set-rebuild", "mutant", "clematis/engine/gel.py", "    for key in to_delete:\n        edges.pop(key, None)\n", "    if to_delete:\n        edges = {key: edges[key] for key in edges.keys() - to_delete}\n        gstore[\"edges\"] = edges\n", "C01.ORDER"),
    ("tick-prunes-by-ordered-rebuild", "twin", "clematis/engine/gel.py", "    for key in to_delete:\n        edges.pop(key, None)\n", "    if to_delete:\n        gone = set(to_delete)\n        edges = {key: rec for key, rec in edges.items() if key not in gone}\n        gstore[\"edges\"] = edges\n", None),
    ("tick-prunes-by-sorted-key-set", "twin", "clematis/engine/gel.py", "    for key in to_delete:\n        edges.pop(key, None)\n", "    for key in sorted(set(to_delete)):\n        edges.pop(key, None)\n", None),
    # SINK
    ("t1-log-unmasked-elapsed", "mutant", O, "                **t1.metrics,\n                \"ms\": t1_ms,\n", "                **t1.metrics,\n                \"ms\": t1_ms,\n                \"elapsed\": t1_ms,\n", "C01.SINK"),
    ("t4-log-wall-stamp", "mutant", O, "                    \"reasons\": getattr(t4, \"reasons\", []),\n                    \"ms\": t4_ms,\n", "                    \"reasons\": getattr(t4, \"reasons\", []),\n                    \"ms\": t4_ms,\n                    \"at\": time.time(),\n", "C01.SINK"),
    ("normaliser-stops-zeroing-ms", "mutant", N, "    if name in _IDENTITY_LOGS:\n        out = dict(rec)\n        if \"ms\" in out:\n            out[\"ms\"] = 0.0\n", "    if name in _IDENTITY_LOGS:\n        out = dict(rec)\n", "C01.SINK"),
    ("normaliser-keeps-durations", "mutant", N, "        if name == \"turn.jsonl\":\n", "        if name == \"turn.jsonl.off\":\n", "C01.SINK"),
    ("apply-now-from-wall-clock", "mutant", O, "                    _ap[\"now\"] = _iso_from_ms(int(ctx.now_ms))\n", "                    _ap[\"now\"] = _iso_from_ms(int(time.time() * 1000))\n", "C01.SINK"),
    # CTRL
    ("slow-t1-truncates-input", "mutant", O, "        t1_ms = round((time.perf_counter() - t0) * 1000.0, 3)\n        _append_jsonl(\n            \"t1.jsonl\",\n",
     "        t1_ms = round((time.perf_counter() - t0) * 1000.0, 3)\n        if t1_ms > 250.0:\n            input_text = input_text[:64]\n        _append_jsonl(\n            \"t1.jsonl\",\n", "C01.CTRL"),
    ("apply-skips-snapshot-when-slow", "mutant", A, "    if _should_snapshot(ctx, cfg):\n", "    if _should_snapshot(ctx, cfg) and (_now_ms() - started) < 5000:\n", "C01.CTRL"),
    # CLOCK
    ("t2-recency-wall-fallback", "mutant", T2, "_parse_iso(ts, now_utc)", "_parse_iso(ts)", "C01.CLOCK"),
    ("index-recent-wall-fallback", "mutant", IX, "            te = _parse_iso(ts, now_utc)\n", "            te = _parse_iso(ts)\n", "C01.CLOCK"),
    ("index-quarter-wall-fallback", "mutant", IX, "    t = _parse_iso(ts, default)\n", "    t = _parse_iso(ts)\n", "C01.CLOCK"),
    ("bundle-now-from-wall-clock", "mutant", B, "    now_iso = iso_now(ctx)\n    cfg = cfg_snapshot(ctx)\n", "    now_iso = datetime.now(timezone.utc).isoformat()\n    cfg = cfg_snapshot(ctx)\n", "C01.CLOCK"),
    ("apply-metrics-finished-at", "mutant", A, "        \"ms\": _now_ms() - started,\n        \"applied\": applied_count,\n", "        \"ms\": _now_ms() - started,\n        \"finished_at\": _now_ms(),\n        \"applied\": applied_count,\n", "C01.CLOCK"),
    ("t2-now-always-wall", "mutant", T2, "    if not now_str:\n        _now_dt = dt.datetime.now(dt.timezone.utc)\n", "    if True:\n        _now_dt = dt.datetime.now(dt.timezone.utc)\n", "C01.CLOCK"),
    ("index-now-always-wall", "mutant", IX, '        now_utc = _parse_iso(now, _UNREADABLE_CLOCK) if isinstance(now, str) else dt.datetime.now(dt.timezone.utc)\n', '        now_utc = dt.datetime.now(dt.timezone.utc)\n', "C01.CLOCK"),
    ("index-parse-iso-host-timezone", "mutant", IX, "        if t.tzinfo is None:\n            t = t.replace(tzinfo=dt.timezone.utc)  # naive means UTC (as in LanceIndex), not the host's local zone\n        return t.astimezone(dt.timezone.utc)\n", "        return t.astimezone(dt.timezone.utc)\n", "C01.CLOCK"),
    ("helpers-parse-iso-host-timezone", "mutant", "clematis/engine/stages/t2/helpers.py", "        if t.tzinfo is None:\n            t = t.replace(tzinfo=dt.timezone.utc)  # naive means UTC, not the host's local zone\n        return t.astimezone(dt.timezone.utc)\n", "        return t.astimezone(dt.timezone.utc)\n", "C01.CLOCK"),
    # HIST
    ("t1-hit-path-zero-pops", "mutant", T1, "                        \"pops\": hit[\"metrics\"][\"pops\"],\n", "                        \"pops\": 0,\n", "C01.HIST"),
    # RNG
    ("speak-random-suffix", "mutant", D, "    labels_sorted = _dedupe_sort_list([str(x) for x in plan_labels])\n", "    import random\n    labels_sorted = _dedupe_sort_list([str(x) for x in plan_labels])\n    random.shuffle(labels_sorted)\n", "C01.RNG"),
    ("embedding-noise", "mutant", E, "            arr = (arr / np.float32(0xFFFFFFFF)) * 2.0 - 1.0\n", "            arr = (arr / np.float32(0xFFFFFFFF)) * 2.0 - 1.0 + np.random.rand(self.dim).astype(np.float32) * 1e-6\n", "C01.RNG"),
    ("speak-pid-identity", "mutant", D, "    labels_sorted = _dedupe_sort_list([str(x) for x in plan_labels])\n", "    import os\n    labels_sorted = _dedupe_sort_list([str(x) for x in plan_labels] + [str(os.getpid())])\n", "C01.RNG"),
    # ORDER
    ("topic-labels-set-order", "mutant", P, "    labels = sorted({str(x) for x in labels})\n", "    labels = list({str(x) for x in labels})\n", "C01.ORDER"),
    ("dedupe-helper-unsorted", "mutant", D, "    return sorted({str(x) for x in (xs or [])})\n", "    return list({str(x) for x in (xs or [])})\n", "C01.ORDER"),
    ("snapshot-pick-mtime-only", "mutant", S, "            state_candidates.sort(key=lambda p: (os.path.getmtime(p), p), reverse=True)\n", "            state_candidates.sort(key=lambda p: os.path.getmtime(p), reverse=True)\n", "C01.ORDER"),
    ("snapshot-pick-number-only", "mutant", S, "        numbered.sort(reverse=True)  # (number, path): ties broken by path, not by listing order\n", "        numbered.sort(key=lambda t: t[0], reverse=True)\n", "C01.ORDER"),
    ("bm25-sum-over-set", "mutant", Q, "        for t in q_terms:\n            f = tf.get(t, 0)\n", "        for t in set(q_terms):\n            f = tf.get(t, 0)\n", "C01.ORDER"),
    ("t1-deltas-in-dict-view-order", "mutant", T1, "        for nid, val in sorted(acc.items(), key=lambda kv: kv[0]):\n", "        for nid, val in sorted(set(acc.items()), key=lambda kv: abs(kv[1])):\n", "C01.ORDER"),
    # twins
    ("labels-sorted-set-call", "twin", P, "    labels = sorted({str(x) for x in labels})\n", "    labels = sorted(set(str(x) for x in labels))\n", None),
    ("t4-ms-expr-reordered", "twin", O, "            t4_ms = round((time.perf_counter() - t0) * 1000.0, 3)\n", "            t4_ms = round(1000.0 * (time.perf_counter() - t0), 3)\n", None),
    ("index-default-keyword", "twin", IX, "            te = _parse_iso(ts, now_utc)\n", "            te = _parse_iso(ts, default=now_utc)\n", None),
    ("snapshot-pick-sorted-call", "twin", S, "            state_candidates.sort(key=lambda p: (os.path.getmtime(p), p), reverse=True)\n", "            state_candidates = sorted(state_candidates, key=lambda p: (os.path.getmtime(p), p), reverse=True)\n", None),
    ("t1-log-extra-logical-field", "twin", O, "                **t1.metrics,\n                \"ms\": t1_ms,\n", "                **t1.metrics,\n                \"ms\": t1_ms,\n                \"input_len\": len(input_text),\n", None),
    ("apply-metrics-ms-renamed-local", "twin", A, "    metrics = {\n        \"ms\": _now_ms() - started,\n", "    _elapsed = _now_ms() - started\n    metrics = {\n        \"ms\": _elapsed,\n", None),
    ("bm25-set-membership", "twin", Q, "        for t in q_terms:\n            f = tf.get(t, 0)\n", "        _qs = set(q_terms)\n        for t in q_terms:\n            if t not in _qs:\n                continue\n            f = tf.get(t, 0)\n", None),
    ("t2-clock-ms-fallback-dropped", "mutant", "clematis/engine/stages/t2/core.py", "        now_str = _clock_from_ms(getattr(ctx, \"now_ms\", None))\n", "        now_str = None\n", "C01.CLOCK"),
    ("t2-clock-ms-fallback-inline", "twin", "clematis/engine/stages/t2/core.py", "        now_str = _clock_from_ms(getattr(ctx, \"now_ms\", None))\n", "        _ms_clock = getattr(ctx, \"now_ms\", None)\n        now_str = _clock_from_ms(_ms_clock)\n", None),
]
