P = "clematis/engine/orchestrator/parallel.py"
O = "clematis/engine/orchestrator/core.py"
L = "clematis/engine/util/io_logging.py"
CASES = [
    ("capture-keeps-callers-dict", "mutant", "clematis/io/log.py", "            mux.write(str(filename), dict(record))\n", "            mux.write(str(filename), record)\n", "C10.STAGE"),
    ("capture-copies-inside-buffer", "twin", None,
     [("clematis/io/log.py", "            mux.write(str(filename), dict(record))\n", "            mux.write(str(filename), record)\n"),
      ("clematis/engine/util/logmux.py", "        self._buf.append((str(stream), obj))\n", "        self._buf.append((str(stream), dict(obj)))\n")], None, None),
    ("capture-copy-through-local", "twin", "clematis/io/log.py", "            mux.write(str(filename), dict(record))\n", "            frozen = dict(record)\n            mux.write(str(filename), frozen)\n", None),
    ("dry-run-writes-new-state-key", "mutant", O, "        # --- T1 ---\n        t0 = time.perf_counter()\n", "        # --- T1 ---\n        if isinstance(state, dict):\n            state[\"_last_input\"] = input_text\n        t0 = time.perf_counter()\n", "C10.RO"),
    ("gel-observe-in-dry-run", "mutant", O, "        if graph_enabled and not _dry_run:\n", "        if graph_enabled:\n", "C10"),
    ("t3-in-dry-run", "mutant", O, "        if t3_enabled and not _dry_run:\n", "        if t3_enabled:\n", "C10"),
    ("dry-run-return-after-apply", "mutant", O, "            if _dry_run:\n                try:\n                    setattr(ctx, \"_dryrun_t4\", t4)\n", "            if _dry_run and False:\n                try:\n                    setattr(ctx, \"_dryrun_t4\", t4)\n", "C10.DRY"),
    ("commit-unsorted", "mutant", P, "    for buf in _sort_turn_buffers(buffers):\n", "    for buf in buffers:\n", "C10.COMMIT"),
    ("sort-key-drops-slice", "mutant", P, "            return (0, int(tid), int(buf.get(\"slice_idx\", 0)))\n", "            return (0, int(tid), 0)\n", "C10.COMMIT"),
    ("commit-foreign-deltas", "mutant", P, "                approved_deltas=list(buf[\"deltas\"]),\n", "                approved_deltas=list(buffers[0][\"deltas\"]),\n", "C10.COMMIT"),
    ("apply-record-unkeyed-turn", "mutant", P, "                file_path=\"apply.jsonl\",\n                turn_id=buf[\"turn_id\"],\n", "                file_path=\"apply.jsonl\",\n                turn_id=getattr(ctx, \"turn_id\", 0),\n", "C10.COMMIT"),
    ("pick-overlapping", "mutant", P, "        if used.isdisjoint(gset):\n            picked.append(aid)\n            used.update(gset)\n", "        picked.append(aid)\n        used.update(gset)\n", "C10.BATCH"),
    ("used-not-updated", "mutant", P, "            picked.append(aid)\n            used.update(gset)\n", "            picked.append(aid)\n", "C10.BATCH"),
    ("limit-not-tested", "mutant", P, "        if len(picked) >= limit:\n            break\n", "", "C10.BATCH"),
    ("compute-all-agents", "mutant", P, "        if aid not in picked:\n            continue\n        buffers.append(run_turn_compute(ctx, base, aid, text))\n", "        buffers.append(run_turn_compute(ctx, base, aid, text))\n", "C10.BATCH"),
    ("compute-on-live-state", "mutant", P, "        buffers.append(run_turn_compute(ctx, base, aid, text))\n", "        buffers.append(run_turn_compute(ctx, state, aid, text))\n", "C10.BATCH"),
    ("backpressure-no-retry", "mutant", P, "                    for rec in stager.drain_sorted():\n                        _append_unbuffered(rec.file_path, rec.payload)\n                    stager.stage(file_path, key, payload)\n", "                    for rec in stager.drain_sorted():\n                        _append_unbuffered(rec.file_path, rec.payload)\n", "C10.STAGE"),
    ("backpressure-no-drain", "mutant", P, "                    for rec in stager.drain_sorted():\n                        _append_unbuffered(rec.file_path, rec.payload)\n                    stager.stage(file_path, key, payload)\n", "                    stager.stage(file_path, key, payload)\n", "C10.STAGE"),
    ("backpressure-swallow-other", "mutant", P, "                    stager.stage(file_path, key, payload)\n                else:\n                    raise\n", "                    stager.stage(file_path, key, payload)\n", "C10.STAGE"),
    ("final-drain-dropped", "mutant", P, "    for rec in stager.drain_sorted():\n        _append_unbuffered(rec.file_path, rec.payload)\n    _get_logging_callable(\"disable_staging\")()\n", "    _get_logging_callable(\"disable_staging\")()\n", "C10.STAGE"),
    ("disable-staging-dropped", "mutant", P, "    _get_logging_callable(\"disable_staging\")()\n\n    return results\n", "    return results\n", "C10.STAGE"),
    ("drain-resets-seq", "mutant", L, "        buf = self._buf\n", "        buf = self._buf\n        self._seq = 0\n", "C10.STAGE"),
    ("commit-ignores-kill-switch", "mutant", P, "        if t4_enabled:\n            t4_like = _SNS(", "        if True:\n            t4_like = _SNS(", "C10.SIB"),
    ("fallback-stays-dry", "mutant", P, "            setattr(subctx, \"_dry_run_until_t4\", False)\n", "", "C10.SIB"),
    # twins
    ("commit-sorted-local", "twin", P, "    for buf in _sort_turn_buffers(buffers):\n", "    ordered_bufs = _sort_turn_buffers(buffers)\n    for buf in ordered_bufs:\n", None),
    ("batch-guard-inverted", "twin", P, "        if used.isdisjoint(gset):\n            picked.append(aid)\n            used.update(gset)\n", "        if not used.isdisjoint(gset):\n            continue\n        picked.append(aid)\n        used.update(gset)\n", None),
]
