S = "clematis/engine/scheduler.py"
O = "clematis/engine/orchestrator/core.py"
T1 = "clematis/engine/stages/t1.py"
T2 = "clematis/engine/stages/t2/core.py"
P = "clematis/engine/stages/t3/policy.py"
ZB = "clematis/engine/stages/t3/bundle.py"
ZP = "clematis/engine/stages/t3/policy.py"
ZO = "clematis/engine/orchestrator/core.py"
CASES = [
    ("t2k-charged-only-on-miss", "mutant", O, "                if m.get(\"k_used\") is not None:\n                    consumed[\"t2_k\"] = int(m.get(\"k_used\"))\n", "                if m.get(\"k_used\") is not None and not cache_hit:\n                    consumed[\"t2_k\"] = int(m.get(\"k_used\"))\n", "C17.BOUNDARY"),
    ("t2k-charge-nested-under-cache-test", "mutant", O, "                if m.get(\"k_used\") is not None:\n                    consumed[\"t2_k\"] = int(m.get(\"k_used\"))\n", "                if not cache_hit:\n                    if m.get(\"k_used\") is not None:\n                        consumed[\"t2_k\"] = int(m.get(\"k_used\"))\n", "C17.BOUNDARY"),
    ("t2k-charge-through-local", "twin", O, "                if m.get(\"k_used\") is not None:\n                    consumed[\"t2_k\"] = int(m.get(\"k_used\"))\n", "                k_seen = m.get(\"k_used\")\n                if k_seen is not None:\n                    consumed[\"t2_k\"] = int(k_seen)\n", None),
    ("next-turn-rotates-queue", "mutant", S, "    eligible = [a for a in q if sched[\"consec_turns\"].get(a, 0) < mct]\n", "    eligible = [a for a in q if sched[\"consec_turns\"].get(a, 0) < mct]\n    q.append(q.pop(0))\n", "C17.PURE"),
    ("next-turn-wall-clock", "mutant", S, "    now = _now_ms(ctx)\n    aging_ms = int(fairness_cfg.get(\"aging_ms\", 200))\n", "    import time\n    now = int(time.time() * 1000)\n    aging_ms = int(fairness_cfg.get(\"aging_ms\", 200))\n", "C17.PURE"),
    ("rr-ignores-eligibility", "mutant", S, "        return eligible[0], {}, \"ROUND_ROBIN\"\n", "        return q[0], {}, \"ROUND_ROBIN\"\n", "C17.ELIG"),
    ("fair-queue-over-all", "mutant", S, "        for a in eligible:\n            last = sched[\"last_ran_ms\"].get(a, 0)\n            idle = now - last\n            if idle < 0:\n                idle = 0\n            tier = (idle // aging_ms) if aging_ms > 0 else 0\n",
     "        for a in q:\n            last = sched[\"last_ran_ms\"].get(a, 0)\n            idle = now - last\n            if idle < 0:\n                idle = 0\n            tier = (idle // aging_ms) if aging_ms > 0 else 0\n", "C17.ELIG"),
    ("reset-not-lexmin", "mutant", S, "        agent = min(q)  # deterministic\n", "        agent = q[-1]\n", "C17.ELIG"),
    ("reset-wrong-reason", "mutant", S, "        return agent, {}, \"RESET_CONSEC\"\n", "        return agent, {}, \"ROUND_ROBIN\"\n", "C17.ELIG"),
    ("eligibility-le", "mutant", S, "    eligible = [a for a in q if sched[\"consec_turns\"].get(a, 0) < mct]\n", "    eligible = [a for a in q]\n", "C17.ELIG"),
    ("reset-zeroes-one", "mutant", S, "        for a in sched[\"consec_turns\"].keys():\n            sched[\"consec_turns\"][a] = 0\n        return\n", "        sched[\"consec_turns\"][agent_id] = 0\n        return\n", "C17.ELIG"),
    ("increment-by-two", "mutant", S, "        sched[\"consec_turns\"][agent_id] += 1\n", "        sched[\"consec_turns\"][agent_id] += 2\n", "C17.ELIG"),
    ("quantum-before-wall", "mutant", O,
     [("    # WALL first\n    if \"wall_ms\" in budgets and elapsed_ms >= budgets[\"wall_ms\"]:\n        return \"WALL_MS\"\n", "    if elapsed_ms >= budgets.get(\"quantum_ms\", 20):\n        return \"QUANTUM_EXCEEDED\"\n    if \"wall_ms\" in budgets and elapsed_ms >= budgets[\"wall_ms\"]:\n        return \"WALL_MS\"\n"),
      ("    # Quantum last\n    if elapsed_ms >= budgets.get(\"quantum_ms\", 20):\n        return \"QUANTUM_EXCEEDED\"\n", "")], None, "C17.PREC"),
    ("budget-before-wall", "mutant", O,
     [("    if \"wall_ms\" in budgets and elapsed_ms >= budgets[\"wall_ms\"]:\n        return \"WALL_MS\"\n    # Budgets\n    if budgets.get(\"t1_iters\") is not None and consumed.get(\"t1_iters\") == budgets.get(\"t1_iters\"):\n        return \"BUDGET_T1_ITERS\"\n",
       "    if budgets.get(\"t1_iters\") is not None and consumed.get(\"t1_iters\") == budgets.get(\"t1_iters\"):\n        return \"BUDGET_T1_ITERS\"\n    if \"wall_ms\" in budgets and elapsed_ms >= budgets[\"wall_ms\"]:\n        return \"WALL_MS\"\n")], None, "C17.PREC"),
    ("budget-compares-wrong-key", "mutant", O, "consumed.get(\"t2_k\") == budgets.get(\"t2_k\"):", "consumed.get(\"t2_k\") == budgets.get(\"t3_ops\"):", "C17.PREC"),
    ("yield-inside-stage", "mutant", T1, "        while pq and pops < effective_queue_budget:\n", "        from ..orchestrator.core import _should_yield\n        _should_yield({\"budgets\": {}}, {\"ms\": 0})\n        while pq and pops < effective_queue_budget:\n", "C17.BOUNDARY"),
    ("t1-slice-cap-unclamped", "mutant", T1, "        queue_budget if slice_t1_pops is None else min(queue_budget, int(slice_t1_pops))\n", "        queue_budget\n", "C17.CLAMP"),
    ("t1-loop-uses-raw-budget", "mutant", T1, "        while pq and pops < effective_queue_budget:\n", "        while pq and pops < queue_budget:\n", "C17.CLAMP"),
    ("t2-used-hits-unclamped", "mutant", T2, "        used_hits = retrieved[:_cap_val]\n", "        used_hits = retrieved\n", "C17.CLAMP"),
    ("t2-residuals-from-all", "mutant", T2, "    for ep in used_hits:\n", "    for ep in retrieved:\n", "C17.CLAMP"),
    ("t3-cap-ignores-slice", "mutant", P, "        slice_cap = int(bundle.get(\"slice_caps\", {}).get(\"t3_ops\", base_ops))\n", "        slice_cap = base_ops\n", "C17.CLAMP"),
    ("bundle-drops-zero-slice-cap", "mutant", ZB, "        if isinstance(caps, dict) and caps.get(\"t3_ops\") is not None:\n            slice_caps[\"t3_ops\"] = int(caps.get(\"t3_ops\"))\n", "        t3_cap = int(caps.get(\"t3_ops\") or 0) if isinstance(caps, dict) else 0\n        if t3_cap > 0:\n            slice_caps[\"t3_ops\"] = t3_cap\n", "C17.BOUNDARY"),
    ("bundle-positive-cap-only", "mutant", ZB, "        if isinstance(caps, dict) and caps.get(\"t3_ops\") is not None:\n", "        if isinstance(caps, dict) and caps.get(\"t3_ops\") is not None and int(caps.get(\"t3_ops\")) > 0:\n", "C17.BOUNDARY"),
    ("deliberate-zero-cap-or-base", "mutant", ZP, "    try:\n        slice_cap = int(bundle.get(\"slice_caps\", {}).get(\"t3_ops\", base_ops))\n    except Exception:\n        slice_cap = base_ops\n", "    slice_cap = int((bundle.get(\"slice_caps\") or {}).get(\"t3_ops\") or base_ops)\n", "C17.BOUNDARY"),
    ("derive-budgets-skips-falsy", "mutant", ZO, "        v = b.get(k)\n        if v is None:\n            continue\n", "        v = b.get(k)\n        if not v:\n            continue\n", "C17.BOUNDARY"),
    # twins
    ("deliberate-cap-is-none-form", "twin", ZP, "    try:\n        slice_cap = int(bundle.get(\"slice_caps\", {}).get(\"t3_ops\", base_ops))\n    except Exception:\n        slice_cap = base_ops\n", "    _sc = (bundle.get(\"slice_caps\", {}) or {}).get(\"t3_ops\")\n    try:\n        slice_cap = base_ops if _sc is None else int(_sc)\n    except Exception:\n        slice_cap = base_ops\n", None),
    ("rr-first-eligible-next", "twin", S, "        return eligible[0], {}, \"ROUND_ROBIN\"\n", "        first = eligible[0]\n        return first, {}, \"ROUND_ROBIN\"\n", None),
    ("reset-sorted-first", "twin", S, "        agent = min(q)  # deterministic\n", "        agent = min(q)\n        _ = len(q)\n", None),
    ("wall-test-local", "twin", O, "    if \"wall_ms\" in budgets and elapsed_ms >= budgets[\"wall_ms\"]:\n        return \"WALL_MS\"\n", "    wall_hit = \"wall_ms\" in budgets and elapsed_ms >= budgets[\"wall_ms\"]\n    if wall_hit:\n        return \"WALL_MS\"\n", None),
    ("eligible-pick-through-helper", "twin", S, "        # Round-robin: take first eligible according to queue order (no rotation here)\n        return eligible[0], {}, \"ROUND_ROBIN\"\n", "        pool = {**sched, \"queue\": eligible}\n        return _pick_round_robin(pool), {}, \"ROUND_ROBIN\"\n", None),
    ("saturated-pick-through-helper-on-whole-queue", "mutant", S, "        agent = min(q)  # deterministic\n        return agent, {}, \"RESET_CONSEC\"\n", "        return _pick_round_robin(sched), {}, \"RESET_CONSEC\"\n", "C17.ELIG"),
]
