V = "configs/validate.py"
T1 = "clematis/engine/stages/t1.py"
OC = "clematis/engine/orchestrator/core.py"
T1C = "clematis/engine/stages/t1.py"
CASES = [
    ("cli-drops-program-name", "mutant", "clematis/cli/validate.py", "    return _main([\"validate\", *rest])\n", "    return _main(rest)\n", "C14.API"),
    ("k-surface-unchecked", "mutant", V, "        merged[\"k_surface\"] = _coerce_int(merged.get(\"k_surface\"), 0)\n        if merged[\"k_surface\"] < 1:\n            _err(errors, \"k_surface\", \"must be an integer >= 1\")\n", "        pass\n", "C14.CONTRACT"),
    ("namespace-cache-evicts-at-cap", "mutant", "clematis/engine/cache.py", "        while len(self._d) > self._max:\n", "        while len(self._d) >= self._max:\n", "C14.CONTRACT"),
    ("namespace-cache-evict-guarded-nonempty", "twin", "clematis/engine/cache.py", "        while len(self._d) > self._max:\n", "        while self._d and len(self._d) > self._max:\n", None),
    ("ring-make-room-without-enabled-test", "mutant", "clematis/engine/util/ring.py", "        while self.k and len(self._q) >= self.k:\n", "        while len(self._q) >= self.k:\n", "C14.CONTRACT"),
    ("ensure-dict-returns-input", "mutant", V, "    if isinstance(x, dict):\n        return dict(x)\n", "    if isinstance(x, dict):\n        return x\n", "C14.PURE"),
    ("ensure-subdict-aliases", "mutant", V, "    v = _ensure_dict(cfg.get(key))\n    if key not in cfg:\n        cfg[key] = v\n    return v\n", "    v = cfg.get(key)\n    if not isinstance(v, dict):\n        v = {}\n        cfg[key] = v\n    return v\n", "C14.PURE"),
    ("store-through-alias", "mutant", V, "    c2 = _ensure_subdict(t2, \"cache\")\n", "    c2 = t2.get(\"cache\") or {}\n", "C14.PURE"),
    ("nested-store-into-input", "mutant", V, "    t1[\"cache\"] = c1\n", "    t1[\"cache\"] = c1\n    if isinstance(cfg_in.get(\"t1\"), dict):\n        cfg_in[\"t1\"][\"normalised\"] = True\n", "C14.PURE"),
    ("deep-merge-mutates-dst", "mutant", V, "    out = dict(dst)\n    for k, v in (src or {}).items():\n", "    out = dst\n    for k, v in (src or {}).items():\n", "C14.PURE"),
    ("api-catches-exception", "mutant", V, "        normalized = _validate_config_normalize_impl(cfg)\n        return True, [], normalized\n    except ConfigError as e:\n", "        normalized = _validate_config_normalize_impl(cfg)\n        return True, [], normalized\n    except Exception as e:\n", "C14.API"),
    ("api-own-verdict", "mutant", V, "    try:\n        normalized = _validate_config_normalize_impl(cfg)\n        return True, [], normalized\n", "    try:\n        normalized = dict(cfg or {})\n        return True, [], normalized\n", "C14.API"),
    ("message-embeds-set", "mutant", V, "        _err(errors, \"scheduler.policy\", f\"must be one of {sorted(_ALLOWED_SCHED_POLICIES)}\")", "        _err(errors, \"scheduler.policy\", f\"must be one of {_ALLOWED_SCHED_POLICIES}\")", "C14.DET"),
    ("suggest-iterates-set", "mutant", V, "    for k in sorted(allowed):  # deterministic choice among equally close keys\n", "    for k in allowed:\n", "C14.DET"),
    ("coerce-float-returns-nan", "mutant", V, "    return x if x == x else float(default)\n", "    return x\n", "C14.RANGE"),
    ("suggest-key-not-stringified", "mutant", V, "    bad = str(bad)  # keys of a YAML/JSON-shaped mapping need not be strings\n", "", "C14.TOTAL"),
    ("raw-compare-before-coercion", "mutant", V, "    t2[\"k_retrieval\"] = _coerce_int(t2.get(\"k_retrieval\", 10))\n    if t2[\"k_retrieval\"] < 1:\n", "    if t2.get(\"k_retrieval\", 10) < 1:\n", "C14.TOTAL"),
    ("raw-len", "mutant", V, "    backend = str(t2.get(\"backend\", \"inmemory\"))\n", "    backend = str(t2.get(\"backend\", \"inmemory\"))\n    if len(t2.get(\"backend\", \"inmemory\")) > 64:\n        _err(errors, \"t2.backend\", \"too long\")\n", "C14.TOTAL"),
    ("raw-lower", "mutant", V, "        t2[\"owner_scope\"] = str(t2.get(\"owner_scope\")).lower()\n", "        t2[\"owner_scope\"] = t2.get(\"owner_scope\").lower()\n", "C14.TOTAL"),
    ("raw-iteration", "mutant", V, "        if not isinstance(tiers_in, (list, tuple)) or not all(isinstance(tn, str) for tn in tiers_in):\n", "        if not all(isinstance(tn, str) for tn in tiers_in):\n", "C14.TOTAL"),
    ("decay-check-dropped", "mutant", V, "        if not isinstance(t1.get(\"decay\"), dict):\n            _err(errors, \"t1.decay\", \"must be a mapping\")\n        else:\n", "        if True:\n", "C14"),
    ("exact-recent-days-uncoerced", "mutant", V, "        t2[\"exact_recent_days\"] = _coerce_int(t2.get(\"exact_recent_days\"), 30)\n        if t2[\"exact_recent_days\"] < 0:\n            _err(errors, \"t2.exact_recent_days\", \"must be >= 0\")\n", "        pass\n", "C14.CONTRACT"),
    ("tiers-unchecked", "mutant", V, "        if not isinstance(tiers_in, (list, tuple)) or not all(isinstance(tn, str) for tn in tiers_in):\n            _err(errors, \"t2.tiers\", \"must be a list of tier names\")\n        else:\n            t2[\"tiers\"] = list(tiers_in)\n", "        pass\n", "C14.CONTRACT"),
    ("engine-hard-subscript", "mutant", T1, "    decay_cfg = cfg_t1.get(\"decay\", {}) or {}\n", "    decay_cfg = cfg_t1[\"decay\"]\n", "C14.CONTRACT"),
    ("orchestrator-prefers-raw-ttl-alias", "mutant", OC, "            ttl_conf = cache_cfg.get(\"ttl_sec\", cache_cfg.get(\"ttl_s\", 600))\n", "            ttl_conf = cache_cfg.get(\"ttl_s\", cache_cfg.get(\"ttl_sec\", 600))\n", "C14.CONTRACT"),
    ("t1-cache-prefers-raw-ttl-sec", "mutant", T1C, "    ttl_s = int(c.get(\"ttl_s\", 300))\n", "    ttl_s = int(c.get(\"ttl_sec\", c.get(\"ttl_s\", 300)))\n", "C14.CONTRACT"),
    # twins
    ("orchestrator-reads-normalised-ttl-only", "twin", OC, "            ttl_conf = cache_cfg.get(\"ttl_sec\", cache_cfg.get(\"ttl_s\", 600))\n", "            ttl_conf = cache_cfg.get(\"ttl_sec\", 600)\n", None),
    ("coerce-float-isnan", "twin", V, "    return x if x == x else float(default)\n", "    import math\n    return float(default) if math.isnan(x) else x\n", None),
    ("ensure-dict-copy-via-ctor", "twin", V, "    if isinstance(x, dict):\n        return dict(x)\n", "    if isinstance(x, dict):\n        return {**x} if False else dict(x)\n", None),
    ("range-check-closed-form", "twin", V, "        if t2[\"exact_recent_days\"] < 0:\n", "        if not (t2[\"exact_recent_days\"] >= 0):\n", None),
]
