C = "clematis/engine/cache.py"
B = "clematis/engine/util/lru_bytes.py"
D = "clematis/engine/util/lru_det.py"
R = "clematis/engine/util/ring.py"
LD = "clematis/engine/util/lru_det.py"
CASES = [
    ("get-outside-lock", "mutant", C,
     "    def get(self, key: K) -> Optional[V]:\n        with self._lock:\n            return self._inner.get(key)\n\n    def put(self, key: K, value: V) -> None:",
     "    def get(self, key: K) -> Optional[V]:\n        return self._inner.get(key)\n\n    def put(self, key: K, value: V) -> None:", "C15.LOCK"),
    ("items-live-iterator", "mutant", C,
     "        # Return a snapshot list to avoid iterator invalidation under concurrent writers.\n        with self._lock:\n            return list(self._inner.items())",
     "        with self._lock:\n            return self._inner.items()", "C15.LOCK"),
    ("wall-clock-in-get", "mutant", C, "        now = self._time()\n        ent = self._d.get(key)", "        now = time.time()\n        ent = self._d.get(key)", "C15.CLOCK"),
    ("evict-mru", "mutant", C, "            self._d.popitem(last=False)  # evict oldest", "            self._d.popitem()  # evict", "C15.EVICT"),
    ("set-without-evict", "mutant", C, "        self._d.move_to_end(key, last=True)\n        return self._evict_over_cap()", "        self._d.move_to_end(key, last=True)\n        return 0", "C15.EVICT"),
    ("touch-to-lru-end", "mutant", C, "        self._d.move_to_end(key, last=True)\n        return True, ent.value", "        self._d.move_to_end(key, last=False)\n        return True, ent.value", "C15.EVICT"),
    ("evict-off-by-one", "mutant", D, "        while len(self._map) > self.cap:\n            k = self._q.popleft()", "        while len(self._map) > self.cap + 1:\n            k = self._q.popleft()", "C15.EVICT"),
    ("lruset-no-evict", "mutant", D,
     "        evicted = False\n        while len(self._set) > self.cap:\n            y = self._q.popleft()\n            if y in self._set:\n                self._set.pop(y, None)\n                evicted = True\n        return evicted\n\n    def size(self) -> int:\n        return len(self._set)\n\n    def __len__(self) -> int:\n        return len(self._set)\n\n    def clear(self) -> None:\n        self._q.clear()\n        self._set.clear()\n\n\nclass DeterministicLRU(Generic[K, V]):",
     "        return False\n\n    def size(self) -> int:\n        return len(self._set)\n\n    def __len__(self) -> int:\n        return len(self._set)\n\n    def clear(self) -> None:\n        self._q.clear()\n        self._set.clear()\n\n\nclass DeterministicLRU(Generic[K, V]):", "C15.EVICT"),
    ("ring-pop-mru", "mutant", R, "            old = self._q.popleft()\n            c = self._ref.get(old, 0) - 1", "            old = self._q.pop()\n            c = self._ref.get(old, 0) - 1", "C15.EVICT"),
    ("ring-insert-before-room", "mutant", R,
     "        while self.k and len(self._q) >= self.k:", "        self._q.append(x)\n        while self.k and len(self._q) >= self.k:", "C15.EVICT"),
    ("bytes-evict-no-decrement", "mutant", B, "            target_bytes -= c0\n            self._bytes -= c0\n", "            self._bytes = self._bytes\n", "C15.ACCT"),
    ("bytes-update-keeps-old-cost", "mutant", B, "            self._bytes -= old_cost\n", "", "C15.ACCT"),
    ("bytes-clear-forgets-total", "mutant", B, "        self._map.clear()\n        self._bytes = 0\n", "        self._map.clear()\n", "C15.ACCT"),
    ("bytes-no-commit", "mutant", B, "        self._bytes = target_bytes\n        return (evicted_n, evicted_b)", "        return (evicted_n, evicted_b)", "C15.ACCT"),
    ("bytes-disabled-inserts", "mutant", B, "        if self.max_entries == 0 and self.max_bytes == 0:\n            return (0, 0)\n\n        cost_bytes = int", "        cost_bytes = int", "C15.ACCT"),
    ("lrudet-disabled-inserts", "mutant", D, "        if not self.enabled:\n            return None\n        if key in self._map:\n            self._map[key] = value", "        if key in self._map:\n            self._map[key] = value", "C15.ACCT"),
    ("merge-unsorted-workers", "mutant", C, "    for _, wc in sorted(worker_caches, key=lambda t: worker_order_key(t[0])):", "    for _, wc in worker_caches:", "C15.MERGE"),
    ("merge-unsorted-keys", "mutant", C, "        kvs.sort(key=lambda kv: key_order_key(kv[0]))\n", "", "C15.MERGE"),
    ("merge-last-wins", "mutant", C, "                # first_wins → skip later value\n                continue\n", "                pass\n", "C15.MERGE"),
    ("detlru-touch-rotates-right", "mutant", LD, "        try:\n            self._q.remove(key)\n        except ValueError:\n            # If not present in deque (shouldn't happen), append anyway.\n            pass\n        self._q.append(key)\n\n    def _evict_if_needed(self) -> Optional[Tuple[K, V]]:\n", "        q = self._q\n        if q and q[0] == key:\n            q.rotate(1)\n            return\n        try:\n            self._q.remove(key)\n        except ValueError:\n            # If not present in deque (shouldn't happen), append anyway.\n            pass\n        self._q.append(key)\n\n    def _evict_if_needed(self) -> Optional[Tuple[K, V]]:\n", "C15.EVICT"),
    ("detlru-touch-appendleft", "mutant", LD, "        try:\n            self._q.remove(key)\n        except ValueError:\n            # If not present in deque (shouldn't happen), append anyway.\n            pass\n        self._q.append(key)\n\n    def _evict_if_needed(self) -> Optional[Tuple[K, V]]:\n", "        try:\n            self._q.remove(key)\n        except ValueError:\n            # If not present in deque (shouldn't happen), append anyway.\n            pass\n        self._q.appendleft(key)\n\n    def _evict_if_needed(self) -> Optional[Tuple[K, V]]:\n", "C15.EVICT"),
    # twins
    ("detlru-touch-rotate-left-fastpath", "twin", LD, "        try:\n            self._q.remove(key)\n        except ValueError:\n            # If not present in deque (shouldn't happen), append anyway.\n            pass\n        self._q.append(key)\n\n    def _evict_if_needed(self) -> Optional[Tuple[K, V]]:\n", "        q = self._q\n        if q and q[0] == key:\n            q.rotate(-1)\n            return\n        try:\n            self._q.remove(key)\n        except ValueError:\n            # If not present in deque (shouldn't happen), append anyway.\n            pass\n        self._q.append(key)\n\n    def _evict_if_needed(self) -> Optional[Tuple[K, V]]:\n", None),
    ("lock-local-var", "twin", C,
     "    def get(self, key: K) -> Optional[V]:\n        with self._lock:\n            return self._inner.get(key)\n\n    def put(self, key: K, value: V) -> None:",
     "    def get(self, key: K) -> Optional[V]:\n        with self._lock:\n            v = self._inner.get(key)\n            return v\n\n    def put(self, key: K, value: V) -> None:", None),
    ("merge-sorted-copy", "twin", C, "        kvs = list(wc.items())\n        kvs.sort(key=lambda kv: key_order_key(kv[0]))\n", "        kvs = sorted(wc.items(), key=lambda kv: key_order_key(kv[0]))\n", None),
    ("inline-evict-helper", "twin", C, "        self._d.move_to_end(key, last=True)\n        return self._evict_over_cap()",
     "        self._d.move_to_end(key, last=True)\n        ev = 0\n        while len(self._d) > self._max:\n            self._d.popitem(last=False)\n            ev += 1\n        return ev", None),
]
