O = "clematis/engine/orchestrator/core.py"
Q = "clematis/engine/stages/t2/quality.py"
A = "clematis/engine/apply.py"
S = "clematis/engine/snapshot.py"
T = "clematis/engine/stages/t3/trace.py"
L = "clematis/engine/orchestrator/logging.py"
CASES = [
    ("boot-load-narrow-except", "mutant", O, "            except Exception:\n                # Loader must never crash the turn; continue cleanly.\n                pass\n", "            except (OSError, ValueError):\n                pass\n", "C20.ESC"),
    ("gel-block-unguarded", "mutant", O, "                except Exception:\n                    # Never let optional ggelly features break the turn\n                    pass\n", "                except KeyError:\n                    pass\n", "C20.ESC"),
    ("reflection-handler-raises", "mutant", O, "        except Exception:\n            # Reflection must never break the turn\n            pass\n", "        except Exception:\n            raise\n", "C20"),
    ("adapter-build-unguarded", "mutant", O, "                        except Exception as e:\n                            adapter_error = e\n", "                        except ImportError as e:\n                            adapter_error = e\n", "C20.ESC"),
    ("adapter-handler-can-raise", "mutant", O, "                        except Exception as e:\n                            adapter_error = e\n", "                        except Exception as e:\n                            adapter_error = e\n                            state[\"logs\"].append(str(e))\n", "C20.ESC"),
    ("hybrid-out-of-try", "mutant", Q, "        try:\n            new_items, hmetrics = rerank_with_gel(ctx, state, retrieved)\n            retrieved = new_items\n", "        new_items, hmetrics = rerank_with_gel(ctx, state, retrieved)\n        try:\n            retrieved = new_items\n", "C20.ESC"),
    ("shadow-trace-narrow", "mutant", Q, "    except Exception:\n        # Never fail the request due to tracing issues\n        pass\n", "    except OSError:\n        pass\n", "C20.ESC"),
    ("fusion-handler-logs-canonical", "mutant", Q, "    except Exception:\n        q_fusion_used = False\n        q_fusion_meta = {}\n", "    except Exception:\n        q_fusion_used = False\n        q_fusion_meta = {}\n        from ...orchestrator.logging import append_jsonl\n        append_jsonl(\"t2.jsonl\", {\"fusion_error\": True})\n", "C20"),
    ("emit-trace-gate-outside-guard", "mutant", T, "    if not _triple_gate(cfg_snapshot):\n        return\n    try:\n        logs = meta.get(\"state_logs\") if isinstance(meta, dict) else None\n", "    if not _triple_gate(cfg_snapshot):\n        return\n    logs = meta.get(\"state_logs\") if isinstance(meta, dict) else None\n    try:\n", "C20.ESC"),
    ("invalidate-unguarded", "mutant", A, "            except Exception:\n                # never fail apply due to cache invalidation\n                pass\n", "            except KeyError:\n                pass\n", "C20.ESC"),
    ("sidecar-unguarded-body", "mutant", S, "    try:\n        _write_sidecar_meta(path, schema_version=SCHEMA_VERSION)\n    except Exception:\n        pass\n\n    return path\n", "    _write_sidecar_meta(path, schema_version=SCHEMA_VERSION)\n\n    return path\n", "C20.ESC"),
    ("telemetry-append-unguarded", "mutant", L, "    try:\n        append_jsonl(\"t3_reflection.jsonl\", payload)\n    except Exception:\n        # Never crash the turn on logging issues\n        return\n", "    append_jsonl(\"t3_reflection.jsonl\", payload)\n", "C20.ESC"),
    ("gel-handler-returns", "mutant", O, "                except Exception:\n                    # Never let optional ggelly features break the turn\n                    pass\n", "                except Exception:\n                    return TurnResult(line=\"\", events=[])\n", "C20.CONT"),
    # twins
    ("boot-bare-except", "twin", O, "            except Exception:\n                # Loader must never crash the turn; continue cleanly.\n                pass\n", "            except BaseException:\n                pass\n", None),
    ("gel-handler-flag", "twin", O, "                except Exception:\n                    # Never let optional ggelly features break the turn\n                    pass\n", "                except Exception:\n                    _gel_failed = True\n", None),
]
