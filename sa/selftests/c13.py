P = "clematis/engine/stages/t3/policy.py"
L = "clematis/engine/stages/t3/legacy.py"
D = "clematis/engine/stages/t3/dialogue.py"
S = "clematis/engine/policy/sanitize.py"
O = "clematis/engine/orchestrator/core.py"
ZB = "clematis/engine/stages/t3/bundle.py"
ZP = "clematis/engine/stages/t3/policy.py"
ZO = "clematis/engine/orchestrator/core.py"
CASES = [
    ("raw-size-strict-encode", "mutant", S, "    if len(text) > _MAX_RAW_LEN:\n        return False, \"raw output too large\"\n", "    if len(text.encode(\"utf-8\")) > _MAX_RAW_LEN:\n        return False, \"raw output too large\"\n", "C13.TOTAL"),
    ("raw-size-lenient-encode", "twin", S, "    if len(text) > _MAX_RAW_LEN:\n        return False, \"raw output too large\"\n", "    if len(text) > _MAX_RAW_LEN or len(text.encode(\"utf-8\", \"surrogatepass\")) > 4 * _MAX_RAW_LEN:\n        return False, \"raw output too large\"\n", None),
    ("raw-size-strict-encode-guarded", "twin", S, "    if len(text) > _MAX_RAW_LEN:\n        return False, \"raw output too large\"\n", "    try:\n        nbytes = len(text.encode(\"utf-8\"))\n    except Exception:\n        return False, \"raw output not encodable\"\n    if len(text) > _MAX_RAW_LEN or nbytes > 4 * _MAX_RAW_LEN:\n        return False, \"raw output too large\"\n", None),
    ("speak-budget-truthiness", "mutant", "clematis/engine/stages/t3/dialogue.py", [("        utter = core\n        style_used = bool(style_prefix)\n\n    max_tokens = 256\n    if speak_op is not None and getattr(speak_op, \"max_tokens\", None) is not None:  # 0 is a budget, not \"unset\"\n", "        utter = core\n        style_used = bool(style_prefix)\n\n    max_tokens = 256\n    if speak_op and getattr(speak_op, \"max_tokens\", None):\n")], None, "C13.TOK"),
    ("sanitize-plan-unnarrowed", "mutant", "clematis/engine/policy/sanitize.py", "    if plan_dict is not None and not isinstance(plan_dict, dict):\n        # wrong top-level type (an array, a string, a number): reject, never raise\n        errors.append(\"plan must be an object\")\n        return {\"reflection\": False}\n", "", "C13.TOTAL"),
    ("sanitize-plan-narrowed-by-try", "twin", "clematis/engine/policy/sanitize.py", "    out = {} if plan_dict is None else dict(plan_dict)\n", "    try:\n        out = {} if plan_dict is None else dict(plan_dict)\n    except Exception:\n        errors.append(\"plan must be an object\")\n        return {\"reflection\": False}\n", None),
    ("cap-truncation-dropped", "mutant", P, "    if len(ops) > caps_ops:\n        ops = ops[:caps_ops]\n\n    return Plan(version=\"t3-plan-v1\", reflection=False, ops=ops, request_retrieve=None)", "    return Plan(version=\"t3-plan-v1\", reflection=False, ops=ops, request_retrieve=None)", "C13.CAP"),
    ("cap-ignores-slice", "mutant", P, "    caps_ops = min(base_ops, slice_cap)\n    tokens = int(cfg_t3.get(\"tokens\", 256))\n", "    caps_ops = base_ops\n    tokens = int(cfg_t3.get(\"tokens\", 256))\n", "C13.CAP"),
    ("append-after-truncation", "mutant", P, "    if len(ops) > caps_ops:\n        ops = ops[:caps_ops]\n\n    return Plan(version=\"t3-plan-v1\"", "    if len(ops) > caps_ops:\n        ops = ops[:caps_ops]\n    ops.append(SpeakOp(kind=\"Speak\", intent=\"ack\", topic_labels=[], max_tokens=tokens))\n\n    return Plan(version=\"t3-plan-v1\"", "C13.CAP"),
    ("rag-cap-off-by-one", "mutant", L, "    if len(new_ops) > caps_ops:\n        new_ops = new_ops[:caps_ops]\n", "    if len(new_ops) > caps_ops:\n        new_ops = new_ops[: caps_ops + 1]\n", "C13.CAP"),
    ("speak-conditional", "mutant", P, "    ops.append(SpeakOp(kind=\"Speak\", intent=intent, topic_labels=labels, max_tokens=tokens))\n", "    if labels:\n        ops.append(SpeakOp(kind=\"Speak\", intent=intent, topic_labels=labels, max_tokens=tokens))\n", "C13.CAP"),
    ("rr-above-threshold", "mutant", P, "    if s_max < tau_low and len(ops) < caps_ops:\n", "    if len(ops) < caps_ops:\n", "C13.RR"),
    ("rr-high-threshold", "mutant", P, "    if s_max < tau_low and len(ops) < caps_ops:\n", "    if s_max < tau_high and len(ops) < caps_ops:\n", "C13.RR"),
    ("intent-cascade-swapped", "mutant", P, "    if s_max >= tau_high:\n        intent = \"summary\"\n    elif s_max >= tau_low:\n", "    if s_max >= tau_low:\n        intent = \"summary\"\n    elif s_max >= tau_high:\n", "C13.RR"),
    ("rag-in-loop", "mutant", O, "            if requested_retrieve and max_rag_loops >= 1:\n                t0_rag = time.perf_counter()\n                plan, rag_metrics = rag_once(bundle, plan, _retrieve_fn, already_used=False)\n",
     "            for _loop in range(max_rag_loops if requested_retrieve else 0):\n                t0_rag = time.perf_counter()\n                plan, rag_metrics = rag_once(bundle, plan, _retrieve_fn, already_used=False)\n", "C13.ONCE"),
    ("rag-guard-dropped", "mutant", O, "            if requested_retrieve and max_rag_loops >= 1:\n", "            if requested_retrieve:\n", "C13.ONCE"),
    ("retrieve-twice", "mutant", L, "    result = retrieve_fn(payload)\n", "    result = retrieve_fn(payload)\n    if not result:\n        result = retrieve_fn(payload)\n", "C13.ONCE"),
    ("speak-returns-uncapped", "mutant", D, "    return utter_capped, metrics\n", "    return utter, metrics\n", "C13.TOK"),
    ("llm-speak-uncapped-on-error", "mutant", D, "    return text_capped, metrics\n", "    return (text_capped if tokens else text), metrics\n", "C13.TOK"),
    ("truncate-char-slice", "mutant", D, "    out = \" \".join(toks[:max_tokens])\n", "    out = \" \".join(toks[: max_tokens + 1])\n", "C13.TOK"),
    ("speak-limit-constant", "mutant", D, "    utter_capped, truncated, token_count = _truncate_to_tokens(utter, max_tokens)\n", "    utter_capped, truncated, token_count = _truncate_to_tokens(utter, 4096)\n", "C13.TOK"),
    ("planner-writes-bundle", "mutant", P, "    labels = _topic_labels_from_bundle(bundle)\n    if s_max >= tau_high:\n", "    labels = _topic_labels_from_bundle(bundle)\n    bundle.setdefault(\"text\", {})[\"labels_used\"] = labels\n    if s_max >= tau_high:\n", "C13.PURE"),
    ("planner-reads-env", "mutant", P, "    caps_ops = min(base_ops, slice_cap)\n    tokens = int(cfg_t3.get(\"tokens\", 256))\n", "    caps_ops = min(base_ops, slice_cap)\n    tokens = int(os.environ.get(\"CLEMATIS_TOKENS\", cfg_t3.get(\"tokens\", 256)))\n", "C13.PURE"),
    ("sanitiser-isinstance-list-dropped", "mutant", S, "    if not isinstance(plan, list):\n        return False, \"plan must be array\"\n\n", "", "C13.TOTAL"),
    ("sanitiser-dict-check-dropped", "mutant", S, "    if not isinstance(obj, dict):\n        return False, \"top-level must be object\"\n", "", "C13.TOTAL"),
    ("sanitiser-item-order", "mutant", S, "        (not isinstance(x, str))\n        or (len(x) == 0)\n", "        (len(x) == 0)\n        or (not isinstance(x, str))\n", "C13.TOTAL"),
    ("sanitiser-json-unguarded", "mutant", S, "    try:\n        obj = json.loads(candidate)\n    except Exception as e:\n        return False, f\"non-JSON: {e}\"\n", "    obj = json.loads(candidate)\n", "C13.TOTAL"),
    ("sanitiser-required-loop-dropped", "mutant", S, "    for k in (\"plan\", \"rationale\"):\n        if k not in obj:\n            return False, f\"missing key: {k}\"\n", "", "C13"),
    ("limit-retyped", "mutant", S, "        or (len(x) > PLAN_ITEM_MAX_LEN)\n", "        or (len(x) > 2000)\n", "C13.SCHEMA"),
    ("limit-on-stripped", "mutant", S, "        or (len(x) > PLAN_ITEM_MAX_LEN)\n", "        or (len(x.strip()) > PLAN_ITEM_MAX_LEN)\n", "C13.SCHEMA"),
    ("allowed-keys-extra", "mutant", S, "        if k not in (\"plan\", \"rationale\", \"reflection\"):\n", "        if k not in (\"plan\", \"rationale\", \"reflection\", \"notes\"):\n", "C13.SCHEMA"),
    ("bundle-drops-zero-slice-cap", "mutant", ZB, "        if isinstance(caps, dict) and caps.get(\"t3_ops\") is not None:\n            slice_caps[\"t3_ops\"] = int(caps.get(\"t3_ops\"))\n", "        t3_cap = int(caps.get(\"t3_ops\") or 0) if isinstance(caps, dict) else 0\n        if t3_cap > 0:\n            slice_caps[\"t3_ops\"] = t3_cap\n", "C13.CAP"),
    ("bundle-positive-cap-only", "mutant", ZB, "        if isinstance(caps, dict) and caps.get(\"t3_ops\") is not None:\n", "        if isinstance(caps, dict) and caps.get(\"t3_ops\") is not None and int(caps.get(\"t3_ops\")) > 0:\n", "C13.CAP"),
    ("deliberate-zero-cap-or-base", "mutant", ZP, "    try:\n        slice_cap = int(bundle.get(\"slice_caps\", {}).get(\"t3_ops\", base_ops))\n    except Exception:\n        slice_cap = base_ops\n", "    slice_cap = int((bundle.get(\"slice_caps\") or {}).get(\"t3_ops\") or base_ops)\n", "C13.CAP"),
    # twins
    ("deliberate-cap-is-none-form", "twin", ZP, "    try:\n        slice_cap = int(bundle.get(\"slice_caps\", {}).get(\"t3_ops\", base_ops))\n    except Exception:\n        slice_cap = base_ops\n", "    _sc = (bundle.get(\"slice_caps\", {}) or {}).get(\"t3_ops\")\n    try:\n        slice_cap = base_ops if _sc is None else int(_sc)\n    except Exception:\n        slice_cap = base_ops\n", None),
    ("cap-clamp-inline", "twin", P, "    caps_ops = min(base_ops, slice_cap)\n    tokens = int(cfg_t3.get(\"tokens\", 256))\n", "    caps_ops = min(base_ops, slice_cap)\n    tokens = int(cfg_t3.get(\"tokens\", 256))\n    _ = caps_ops\n", None),
    ("speak-return-tuple-var", "twin", D, "    return utter_capped, metrics\n", "    out_text = utter_capped\n    return utter_capped, metrics\n", None),
    ("limit-via-local", "twin", S, "    if len(plan) > PLAN_MAX_ITEMS:\n", "    n_items = len(plan)\n    if n_items > PLAN_MAX_ITEMS:\n", None),
    ("sanitiser-rat-two-ifs", "twin", S, "    if (not isinstance(rat, str)) or (len(rat) == 0) or (len(rat) > RATIONALE_MAX_LEN):\n        return False, \"rationale length/type invalid\"\n",
     "    if not isinstance(rat, str):\n        return False, \"rationale length/type invalid\"\n    if (len(rat) == 0) or (len(rat) > RATIONALE_MAX_LEN):\n        return False, \"rationale length/type invalid\"\n", None),
]
