"""E5 typestate engine: explores the product (CFG node x abstract state) and
returns a witness path when a forbidden (node, state) pair is reachable."""
from __future__ import annotations

from collections import deque
from typing import Callable, Dict, Hashable, Iterable, List, Optional, Set, Tuple

from .cfg import CFG, Node

State = Hashable
# step(node, state, edge_label_out, target) -> iterable of states after leaving `node`
# through an edge with that label (None/'T'/'F' normal, 'exc' exceptional)
Step = Callable[[Node, State, Optional[str], Node], Iterable[State]]
# bad(node, state_on_entry) -> Optional[str]  (message when forbidden)
Bad = Callable[[Node, State], Optional[str]]


def explore(cfg: CFG, init: Iterable[State], step: Step, bad: Bad,
            start: Optional[Node] = None, limit: int = 200000):
    """BFS over (node, state). Returns (visited, witnesses) where witnesses is a
    list of (message, path[List[(Node, state)]]), one per distinct (node, msg)."""
    start = start or cfg.entry
    parent: Dict[Tuple[Node, State], Optional[Tuple[Node, State]]] = {}
    dq = deque()
    for s in init:
        k = (start, s)
        parent[k] = None
        dq.append(k)
    witnesses = []
    reported: Set[Tuple[int, str]] = set()
    while dq:
        k = dq.popleft()
        n, s = k
        msg = bad(n, s)
        if msg is not None and (n.id, msg) not in reported:
            reported.add((n.id, msg))
            path = [k]
            while parent[path[-1]] is not None:
                path.append(parent[path[-1]])
            witnesses.append((msg, list(reversed(path))))
        if len(parent) > limit:
            break
        for t, lab in n.succ:
            for s2 in step(n, s, lab, t):
                k2 = (t, s2)
                if k2 not in parent:
                    parent[k2] = k
                    dq.append(k2)
    return parent, witnesses


def states_at(visited, node: Node) -> Set[State]:
    return {s for (n, s) in visited if n is node}
