"""E3 access-path abstraction for configuration / context / state reads.

An access path is (root, keys): root in {"cfg","ctx","state","env","param:<name>"},
keys a tuple of constant keys ("*" = some element).  The evaluator recognises the
repository's read idioms (cfg.get("k", d), cfg["k"], getattr(ctx, "x", d),
ctx.cfg.t1, (x.get("a") or {}).get("b"), _cfg_get(obj, ["a","b"], d), dict(x),
_ensure_dict(x), per-module _get_cfg(ctx) summarised from their own bodies) and
follows local names through reaching definitions and repo callees through
return-value summaries.
"""
from __future__ import annotations

import ast
from typing import Dict, FrozenSet, List, Optional, Set, Tuple

from .cfg import Node
from .dataflow import Def, ReachingDefs
from .model import Func, const_str, dotted, walk_no_defs

Path = Tuple[str, Tuple[str, ...]]

# value-preserving wrappers: the result still "is" (a view/copy of) the argument
WRAPPERS = {
    "dict", "list", "tuple", "bool", "int", "float", "str", "sorted", "set", "frozenset", "max", "min", "abs", "round",
    "_ensure_dict", "_as_dict", "_to_plain", "_truthy", "deepcopy", "copy.deepcopy", "copy.copy", "_coerce_int",
    "_coerce_float", "_coerce_bool", "_to_attrdict", "vars", "len", "stable_key", "_stable_key", "freeze", "_quality_digest", "type", "id", "repr",
}
PATH_GETTERS = {"_cfg_get", "cfg_get"}

ROOT_PARAMS = {
    "ctx": "ctx", "subctx": "ctx", "state": "state", "base_state": "state",
    "cfg": "cfg", "config": "cfg", "cfg_root": "cfg", "full_cfg": "cfg", "cfg_all": "cfg", "root_cfg": "cfg",
}


def fmt(p: Path) -> str:
    return p[0] + (":" + ".".join(p[1]) if p[1] else "")


def _norm(p: Path) -> Path:
    root, keys = p
    if "__dict__" in keys:
        keys = tuple(k for k in keys if k != "__dict__")
    if root == "ctx" and keys and keys[0] in ("cfg", "config"):
        return ("cfg", keys[1:])
    return p


class PathEval:
    def __init__(self, ctx, depth: int = 3, roots: Optional[Dict[str, str]] = None):
        self.ctx = ctx
        self.depth = depth
        self.roots = dict(ROOT_PARAMS)
        if roots:
            self.roots.update(roots)
        self._ret: Dict[Tuple[str, int], FrozenSet[Path]] = {}
        self._busy: Set[str] = set()
        self._dmemo: Dict[Tuple, FrozenSet[Path]] = {}
        self._in_callee = 0
        self._dep: Dict[Tuple[str, int], FrozenSet[Path]] = {}
        self._busy_dep: Set[str] = set()

    # ------------------------------------------------------------------ API
    def paths(self, fn: Func, e: ast.AST, at: Node, depth: Optional[int] = None) -> FrozenSet[Path]:
        depth = self.depth if depth is None else depth
        return frozenset(_norm(p) for p in self._eval(fn, e, at, depth, {}))

    def atoms(self, fn: Func, e: ast.AST, at: Node, roots=("cfg", "ctx", "state", "env"), control: bool = False,
              depth: Optional[int] = None) -> Set[str]:
        """All maximal access paths the value of e (evaluated at `at`) depends
        on: through local definitions (backward slice, optionally with control
        dependence) and through repo callees (dependency summaries)."""
        ps = self._atoms(fn, [e], at, control, self.depth if depth is None else depth)
        return {fmt(p) for p in _maximal({p for p in ps if p[0] in roots and p[1]})}

    def _atoms(self, fn: Func, exprs, at: Node, control: bool, depth: int) -> Set[Path]:
        out: Set[Path] = set()
        rd = self.ctx.rd(fn)
        sl = rd.slice(exprs, at, control=control)
        for ex, n in sl.exprs:
            funcs = {id(x.func) for x in walk_no_defs(ex) if isinstance(x, ast.Call)}
            # comprehension variables ranging over a constant tuple of keys:  f(cfg.get(k)) for k in ("a", "b")
            self._cbound = {g.target.id: [const_str(y) for y in g.iter.elts] for x in walk_no_defs(ex) if isinstance(x, ast.comprehension) for g in [x]
                            if isinstance(g.target, ast.Name) and isinstance(g.iter, (ast.Tuple, ast.List)) and g.iter.elts and all(const_str(y) is not None for y in g.iter.elts)}
            for x in walk_no_defs(ex):
                if id(x) in funcs and isinstance(x, ast.Attribute):
                    continue
                if isinstance(x, (ast.Call, ast.Attribute, ast.Subscript)):
                    for p in self._eval(fn, x, n, depth, {}):
                        out.add(_norm(p))
                if isinstance(x, ast.Call) and depth > 0:
                    r = self.ctx.prog.callee(fn, x)
                    if r is not None and r[0] == "func":
                        callee = self.ctx.prog.funcs[r[1]]
                        for p in self._dep_summary(callee, depth - 1):
                            for q in self._subst(fn, x, callee, p, n, depth):
                                out.add(_norm(q))
        return out

    def _dep_summary(self, callee: Func, depth: int) -> FrozenSet[Path]:
        key = (callee.qual, depth)
        if key in self._dep:
            return self._dep[key]
        if callee.qual in self._busy_dep:
            return frozenset()
        self._busy_dep.add(callee.qual)
        self._in_callee += 1
        try:
            cfg = self.ctx.cfg(callee)
            out: Set[Path] = set()
            for n in cfg.nodes:
                if n.kind == "stmt" and isinstance(n.ast, ast.Return) and n.ast.value is not None:
                    out |= self._atoms(callee, [n.ast.value], n, True, depth)
            self._dep[key] = frozenset(out)
            return self._dep[key]
        finally:
            self._busy_dep.discard(callee.qual)
            self._in_callee -= 1

    def _subst(self, fn: Func, c: ast.Call, callee: Func, p: Path, at: Node, depth: int) -> Set[Path]:
        root, keys = p
        params = callee.params
        is_method = callee.cls is not None and bool(params) and params[0] in ("self", "cls")

        def keysub(ks):
            res = []
            for k in ks:
                if k.startswith("$p:"):
                    ae = self._actual(c, params, k[3:], is_method)
                    cs = self._const_keys(fn, ae, at) if ae is not None else []
                    res.append(cs[0] if len(cs) == 1 else "*")
                else:
                    res.append(k)
            return tuple(res)

        if root.startswith("param:"):
            ae = self._actual(c, params, root[6:], is_method)
            if ae is None:
                return set()
            return {(r2, k2 + keysub(keys)) for (r2, k2) in self._eval(fn, ae, at, depth, {})}
        return {(root, keysub(keys))}

    # ------------------------------------------------------------- internals
    def _const_keys(self, fn: Func, e: ast.AST, at: Node) -> List[str]:
        s = const_str(e)
        if s is not None:
            return [s]
        if isinstance(e, ast.Name) and e.id in getattr(self, "_cbound", {}):
            return list(self._cbound[e.id])  # comprehension variable over a constant tuple of keys
        if isinstance(e, ast.Name):
            rd = self.ctx.rd(fn)
            out = []
            for d in rd.reaching(e.id, at):
                if d.kind == "param" and self._in_callee > 0:
                    out.append("$p:" + d.name)
                elif d.kind == "for" and isinstance(d.value, (ast.Tuple, ast.List)) and isinstance(d.target, ast.Name):
                    out += [c for c in (const_str(x) for x in d.value.elts) if c is not None]
                elif d.kind == "assign" and d.value is not None and const_str(d.value) is not None:
                    out.append(const_str(d.value))
                else:
                    return []
            return out
        return []

    def _eval(self, fn: Func, e: ast.AST, at: Node, depth: int, bound: Dict[str, FrozenSet[Path]]) -> Set[Path]:
        rd = self.ctx.rd(fn)
        if isinstance(e, ast.Name):
            if e.id in bound:
                return set(bound[e.id])
            ds = rd.reaching(e.id, at)
            out: Set[Path] = set()
            for d in ds:
                out |= self._of_def(fn, d, depth)
            return out
        if isinstance(e, ast.Attribute):
            d = dotted(e)
            if d in ("os.environ", "_os.environ"):
                return {("env", ())}
            base = self._eval(fn, e.value, at, depth, bound)
            return {(r, k + (e.attr,)) for r, k in base}
        if isinstance(e, ast.Subscript):
            base = self._eval(fn, e.value, at, depth, bound)
            keys = self._const_keys(fn, e.slice, at)
            if keys:
                return {(r, k + (kk,)) for r, k in base for kk in keys}
            if isinstance(e.slice, ast.Slice):
                return {(r, k + ("[:]",)) for r, k in base}  # a part of the value (prefix / window), not a walk over all of it
            return {(r, k + ("*",)) for r, k in base}
        if isinstance(e, ast.BoolOp):
            out = set()
            for v in e.values:
                out |= self._eval(fn, v, at, depth, bound)
            return out
        if isinstance(e, ast.IfExp):
            return self._eval(fn, e.body, at, depth, bound) | self._eval(fn, e.orelse, at, depth, bound)
        if isinstance(e, ast.NamedExpr):
            return self._eval(fn, e.value, at, depth, bound)
        if isinstance(e, ast.Starred):
            return self._eval(fn, e.value, at, depth, bound)
        if isinstance(e, ast.Call):
            return self._call(fn, e, at, depth, bound)
        if isinstance(e, (ast.ListComp, ast.SetComp, ast.GeneratorExp, ast.DictComp)):
            b = dict(bound)
            saved = dict(getattr(self, "_cbound", {}))
            self._cbound = dict(saved)
            for g in e.generators:
                it = self._eval(fn, g.iter, at, depth, b)
                el = frozenset((r, k + ("*",)) for r, k in it)
                for t in ast.walk(g.target):
                    if isinstance(t, ast.Name):
                        b[t.id] = el
                if isinstance(g.target, ast.Name) and isinstance(g.iter, (ast.Tuple, ast.List)) and g.iter.elts and all(const_str(x) is not None for x in g.iter.elts):
                    self._cbound[g.target.id] = [const_str(x) for x in g.iter.elts]
            elts = [e.value] if isinstance(e, ast.DictComp) else [e.elt]
            out = set()
            for x in elts:
                out |= self._eval(fn, x, at, depth, b)
            self._cbound = saved
            return out
        if isinstance(e, ast.Dict):
            out = set()
            for v in e.values:
                if v is not None:
                    pass
            return out
        return set()

    def _call(self, fn: Func, c: ast.Call, at: Node, depth: int, bound) -> Set[Path]:
        f = c.func
        d = dotted(f) or ""
        tail = f.attr if isinstance(f, ast.Attribute) else (f.id if isinstance(f, ast.Name) else "")
        # X.get("k", d) / X.pop("k", d) / X.setdefault("k", d)
        if isinstance(f, ast.Attribute) and tail in ("get", "pop", "setdefault") and c.args:
            base = self._eval(fn, f.value, at, depth, bound)
            if d in ("os.environ.get", "_os.environ.get", "os.getenv"):
                base = {("env", ())}
            keys = self._const_keys(fn, c.args[0], at)
            out = {(r, k + (kk,)) for r, k in base for kk in keys} if keys else {(r, k + ("*",)) for r, k in base}
            if len(c.args) > 1:
                out |= self._eval(fn, c.args[1], at, depth, bound)  # nested get as default
            return out
        if d == "os.getenv" and c.args:
            keys = self._const_keys(fn, c.args[0], at)
            return {("env", (k,)) for k in keys} or {("env", ("*",))}
        if d == "getattr" and len(c.args) >= 2:
            base = self._eval(fn, c.args[0], at, depth, bound)
            keys = self._const_keys(fn, c.args[1], at)
            out = {(r, k + (kk,)) for r, k in base for kk in keys} if keys else {(r, k + ("*",)) for r, k in base}
            if len(c.args) > 2:
                out |= self._eval(fn, c.args[2], at, depth, bound)
            return out
        if tail in PATH_GETTERS and len(c.args) >= 2:
            base = self._eval(fn, c.args[0], at, depth, bound)
            ks = c.args[1]
            if isinstance(ks, (ast.List, ast.Tuple)):
                keys = [const_str(x) or "*" for x in ks.elts]
                return {(r, k + tuple(keys)) for r, k in base}
            return {(r, k + ("*",)) for r, k in base}
        if isinstance(f, ast.Attribute) and tail in ("items", "values", "keys", "copy", "lower", "strip", "upper"):
            base = self._eval(fn, f.value, at, depth, bound)
            if tail in ("items", "values"):
                return {(r, k + ("*",)) for r, k in base}
            return base
        if d in WRAPPERS or tail in WRAPPERS:
            out = set()
            for a in c.args:
                out |= self._eval(fn, a, at, depth, bound)
            return out
        # repo callee: return-value summary with parameter substitution
        if depth > 0:
            r = self.ctx.prog.callee(fn, c)
            if r is not None and r[0] == "func":
                callee = self.ctx.prog.funcs[r[1]]
                ret = self._ret_summary(callee, depth - 1)
                out: Set[Path] = set()
                for p in ret:
                    out |= self._subst(fn, c, callee, p, at, depth)
                return out
        return set()

    def _actual(self, c: ast.Call, params: List[str], pname: str, is_method: bool) -> Optional[ast.AST]:
        for k in c.keywords:
            if k.arg == pname:
                return k.value
        try:
            i = params.index(pname)
        except ValueError:
            return None
        if is_method:
            i -= 1
        if 0 <= i < len(c.args):
            return c.args[i]
        return None

    def _of_def(self, fn: Func, d: Def, depth: int) -> Set[Path]:
        key = (fn.qual, id(d), depth, self._in_callee > 0)
        if key in self._dmemo:
            return set(self._dmemo[key])
        self._dmemo[key] = frozenset()  # cycle guard
        out: Set[Path] = set()
        if d.kind == "param":
            root = self.roots.get(d.name)
            if self._in_callee > 0 or root is None:
                out = {("param:" + d.name, ())}
            else:
                out = {(root, ())}
        elif d.kind in ("assign", "walrus", "aug") and d.value is not None:
            out = self._eval(fn, d.value, d.node, depth, {})
        elif d.kind == "unpack" and d.value is not None:
            out = {(r, k + ("*",)) for r, k in self._eval(fn, d.value, d.node, depth, {})}
        elif d.kind == "for" and d.value is not None:
            out = {(r, k + ("*",)) for r, k in self._eval(fn, d.value, d.node, depth, {})}
        elif d.kind == "mutate" and d.value is not None and isinstance(d.target, ast.Call):
            # X.update(Y): X now also views Y
            if d.target.func.attr in ("update",):
                for a in d.target.args:
                    out |= self._eval(fn, a, d.node, depth, {})
        self._dmemo[key] = frozenset(out)
        return out

    def _ret_summary(self, callee: Func, depth: int) -> FrozenSet[Path]:
        key = (callee.qual, depth)
        if key in self._ret:
            return self._ret[key]
        if callee.qual in self._busy:
            return frozenset()
        self._busy.add(callee.qual)
        self._in_callee += 1
        try:
            cfg = self.ctx.cfg(callee)
            out: Set[Path] = set()
            for n in cfg.nodes:
                if n.kind == "stmt" and isinstance(n.ast, ast.Return) and n.ast.value is not None:
                    out |= self._eval(callee, n.ast.value, n, depth, {})
            self._ret[key] = frozenset(out)
            return self._ret[key]
        finally:
            self._busy.discard(callee.qual)
            self._in_callee -= 1


def _maximal(ps: Set[Path]) -> Set[Path]:
    out = set()
    for p in ps:
        if not any(q != p and q[0] == p[0] and q[1][: len(p[1])] == p[1] and len(q[1]) > len(p[1]) for q in ps):
            out.add(p)
    return out
