"""E9 iteration-order typing: which expressions denote a collection whose iteration order is NOT a function of the
program's inputs (hash-seed order of sets, directory-enumeration order of listings), and where such an order is consumed.

Flow-sensitive over reaching definitions: a name bound to an unordered collection stays unordered until a total-key
`.sort()` on it dominates the use; order is inherited through list()/tuple()/comprehensions/enumerate/zip, through
collections filled inside a loop over an unordered collection, through dicts built from one, and (one level) through the
return value of repository functions."""
from __future__ import annotations

import ast
from typing import Dict, Iterator, List, Optional, Set, Tuple

from .model import Func, const_str, dotted, src, walk_no_defs
from .util import call_tail

LISTING_CALLS = {"os.listdir", "os.scandir", "glob.glob", "glob.iglob", "_os.listdir"}
LISTING_TAILS = {"iterdir", "rglob"}  # `.glob(` is also a listing but the tail collides with nothing else here
INHERIT_CALLS = {"list", "tuple", "iter", "enumerate", "reversed", "filter", "zip", "itertools.islice", "islice", "itertools.chain", "chain", "dict.fromkeys"}
VIEWS = {"items", "keys", "values", "copy"}
ORDER_FREE_CALLS = {"sorted", "set", "frozenset", "len", "any", "all", "bool", "isinstance", "math.fsum", "fsum", "Counter", "collections.Counter"}
SET_METHODS_OK = {"add", "update", "discard", "remove", "clear", "union", "intersection", "difference", "symmetric_difference", "issubset", "issuperset",
                  "isdisjoint", "intersection_update", "difference_update", "append", "extend", "insert", "sort", "setdefault", "get", "count", "index", "__contains__"}
FILL = {"append", "extend", "add", "insert", "update", "setdefault", "appendleft"}


def total_key(call: ast.Call) -> bool:
    """sorted(xs) / xs.sort(): no key = elements compared wholly; key=lambda p: E is total when E (or a component of the
    returned tuple) is the element itself / its str / repr / .name"""
    k = None
    for kw in call.keywords:
        if kw.arg == "key":
            k = kw.value
    if k is None:
        return True
    if isinstance(k, ast.Name) and k.id in ("str", "repr"):
        return True
    if not isinstance(k, ast.Lambda) or len(k.args.args) != 1:
        return False
    p = k.args.args[0].arg
    comps = k.body.elts if isinstance(k.body, ast.Tuple) else [k.body]
    for c in comps:
        if isinstance(c, ast.Name) and c.id == p:
            return True
        if isinstance(c, ast.Call) and dotted(c.func) in ("str", "repr") and c.args and isinstance(c.args[0], ast.Name) and c.args[0].id == p:
            return True
        if isinstance(c, ast.Attribute) and isinstance(c.value, ast.Name) and c.value.id == p and c.attr in ("name", "id"):
            return True
    return False


class OrderTyping:
    def __init__(self, ctx, depth: int = 1):
        self.ctx = ctx
        self.depth = depth
        self._ret: Dict[str, Optional[str]] = {}
        self._busy: Set[str] = set()
        self.n_sources = 0
        self._marks: Dict[Tuple[str, str], str] = {}  # (callee qual, param) -> origin, while a callee is examined for an unordered argument
        self._argmemo: Dict[Tuple[str, str], Optional[Tuple[str, str]]] = {}

    # ------------------------------------------------------------------ typing
    def unordered(self, fn: Func, e: ast.AST, at, _seen: Optional[Set[int]] = None) -> Optional[str]:
        """origin description if `e` denotes an unordered collection at node `at`, else None"""
        _seen = _seen if _seen is not None else set()
        if isinstance(e, (ast.Set, ast.SetComp)):
            return "set"
        if isinstance(e, ast.Call):
            d = dotted(e.func) or ""
            tail = call_tail(e)
            if d in ("set", "frozenset"):
                return "set"
            if d in LISTING_CALLS or (isinstance(e.func, ast.Attribute) and tail in LISTING_TAILS):
                return "directory listing"
            if isinstance(e.func, ast.Attribute) and tail == "glob" and d != "glob.glob":
                return "directory listing"
            if d == "sorted":
                if e.args and not total_key(e):
                    o = self.unordered(fn, e.args[0], at, _seen)
                    if o:
                        return o + " (sorted by a key that leaves ties in that order)"
                return None
            if d in INHERIT_CALLS or d == "map":
                for a in (e.args[1:] if d == "map" else e.args):
                    o = self.unordered(fn, a, at, _seen)
                    if o:
                        return o
                return None
            if isinstance(e.func, ast.Attribute) and tail in VIEWS | {"union", "intersection", "difference", "symmetric_difference"}:
                return self.unordered(fn, e.func.value, at, _seen)
            if self.depth > 0:
                cal = self.ctx.prog.callee(fn, e)
                if cal is not None and cal[0] == "func" and cal[1] in self.ctx.prog.funcs:
                    return self._returns(cal[1])
            return None
        if isinstance(e, ast.BinOp) and isinstance(e.op, (ast.BitOr, ast.BitAnd, ast.Sub, ast.BitXor)):
            for side in (e.left, e.right):
                o = self.unordered(fn, side, at, _seen)
                if o:
                    return o
            # dict-view algebra always yields a set: d.keys() - xs, d.keys() & other.keys(), d.items() ^ ...
            if any(isinstance(s, ast.Call) and isinstance(s.func, ast.Attribute) and s.func.attr in ("keys", "items") and not s.args for s in (e.left, e.right)):
                return "set (dict-view algebra)"
            return None
        if isinstance(e, (ast.ListComp, ast.GeneratorExp, ast.DictComp)):
            return self.unordered(fn, e.generators[0].iter, at, _seen)
        if isinstance(e, (ast.List, ast.Tuple)):
            for x in e.elts:
                if isinstance(x, ast.Starred):
                    o = self.unordered(fn, x.value, at, _seen)
                    if o:
                        return o
            return None
        if isinstance(e, ast.IfExp):
            return self.unordered(fn, e.body, at, _seen) or self.unordered(fn, e.orelse, at, _seen)
        if isinstance(e, ast.BoolOp):
            for v in e.values:
                o = self.unordered(fn, v, at, _seen)
                if o:
                    return o
            return None
        if isinstance(e, ast.Name):
            return self._name(fn, e.id, at, _seen)
        return None

    def _name(self, fn: Func, name: str, at, _seen: Set[int]) -> Optional[str]:
        rd = self.ctx.rd(fn)
        cfg = self.ctx.cfg(fn)
        defs = rd.reaching(name, at)
        # discharge: every path from an unordered definition to the use passes a total-key in-place sort of the name or a
        # re-binding to an ordered value (exception edges out of the sanitising statement itself are not followed)
        sanit = set()
        for d in defs:
            if d.kind == "mutate" and isinstance(d.target, ast.Call) and call_tail(d.target) == "sort" and total_key(d.target) and d.node is not at:
                sanit.add(d.node)

        def reaches(d) -> bool:
            if not sanit:
                return True
            if d.node in sanit:
                return False
            return cfg.path([d.node], lambda m: m is at, avoid=lambda m: m in sanit, include_start=False) is not None or d.node is at

        pending = []
        for d in defs:
            if id(d) in _seen:
                continue
            _seen.add(id(d))
            if d.kind == "param" and (fn.qual, name) in self._marks:
                return self._marks[(fn.qual, name)]
            if d.kind in ("assign", "walrus") and d.value is not None:
                o = self.unordered(fn, d.value, d.node, _seen)
                if o:
                    pending.append((d, o))
                else:
                    sanit.add(d.node)
            elif d.kind == "mutate":
                # filled inside a loop over an unordered collection
                tgt = d.target
                is_fill = (isinstance(tgt, ast.Call) and call_tail(tgt) in FILL) or isinstance(tgt, ast.Subscript)
                if not is_fill:
                    continue
                loop = self._enclosing_unordered_loop(fn, d.node, _seen)
                if loop:
                    pending.append((d, loop + " (filled in that order)"))
                    continue
                if isinstance(tgt, ast.Call) and call_tail(tgt) in ("extend", "update") and tgt.args:
                    o = self.unordered(fn, tgt.args[0], d.node, _seen)
                    if o and "set" != self._static_kind(fn, name, at):
                        pending.append((d, o + " (extended in that order)"))
        for d, o in pending:
            if reaches(d):
                return o
        return None

    def _static_kind(self, fn, name, at) -> str:
        for d in self.ctx.rd(fn).reaching(name, at):
            if d.kind == "assign" and isinstance(d.value, (ast.Set, ast.SetComp)) or (d.kind == "assign" and isinstance(d.value, ast.Call) and dotted(d.value.func) in ("set", "frozenset")):
                return "set"
        return "?"

    def _enclosing_unordered_loop(self, fn: Func, node, _seen) -> Optional[str]:
        pm = self.ctx.prog.parents(fn.node)
        cur = node.stmt if getattr(node, "stmt", None) is not None else node.ast
        while cur is not None and id(cur) in pm:
            cur = pm[id(cur)]
            if isinstance(cur, (ast.For, ast.AsyncFor)):
                its = self.ctx.cfg(fn).nodes_of(cur)
                at = its[0] if its else node
                o = self.unordered(fn, cur.iter, at, _seen)
                if o:
                    return o
            if isinstance(cur, (ast.FunctionDef, ast.AsyncFunctionDef, ast.Lambda)):
                break
        return None

    def _returns(self, qual: str) -> Optional[str]:
        if qual in self._ret:
            return self._ret[qual]
        if qual in self._busy:
            return None
        self._busy.add(qual)
        out = None
        try:
            callee = self.ctx.prog.funcs[qual]
            cfg = self.ctx.cfg(callee)
            sub = OrderTyping(self.ctx, depth=self.depth - 1)
            for n in cfg.nodes:
                if n.kind == "stmt" and isinstance(n.ast, ast.Return) and n.ast.value is not None:
                    v = n.ast.value
                    o = sub.unordered(callee, v, n)
                    if o:
                        out = f"{o} returned by {callee.name}"
                        break
        finally:
            self._busy.discard(qual)
        self._ret[qual] = out
        return out

    # ------------------------------------------------------------- consumption
    def consumptions(self, fn: Func) -> Iterator[Tuple[str, ast.AST, str, str]]:
        """(kind, expr, origin, how) for each order-sensitive consumption of an unordered collection in fn"""
        cfg = self.ctx.cfg(fn)
        pm = self.ctx.prog.parents(fn.node)
        reach = cfg.reachable_from_entry()
        for n in cfg.nodes:
            if n not in reach or n.ast is None or n.kind in ("branch", "join", "entry", "exit"):
                continue
            roots: List[ast.AST] = []
            if n.kind == "iter":
                roots = [n.ast.iter]
            elif n.kind == "cond":
                roots = [n.ast]
            elif n.kind == "with":
                roots = [it.context_expr for it in n.ast.items]
            elif n.kind == "stmt":
                roots = [n.ast]
            for r in roots:
                for x in walk_no_defs(r):
                    if not isinstance(x, ast.expr) or isinstance(x, (ast.Constant, ast.Attribute, ast.Subscript, ast.Lambda)):
                        continue
                    if isinstance(x, ast.Name) and not isinstance(x.ctx, ast.Load):
                        continue
                    o = self.unordered(fn, x, n)
                    if not o:
                        continue
                    self.n_sources += 1
                    how = self._consumed(fn, x, pm, n)
                    if how:
                        yield how[0], x, o, how[1]

    def _consumed(self, fn: Func, x: ast.AST, pm, n) -> Optional[Tuple[str, str]]:
        p = pm.get(id(x))
        if p is None:
            return None
        if isinstance(p, ast.Starred):
            return None  # `[*xs]` inherits: judged at the display
        if isinstance(p, ast.keyword):
            p2 = pm.get(id(p))
            return self._call_arg(fn, p2, x) if isinstance(p2, ast.Call) else None
        if isinstance(p, ast.Call):
            if x is p.func:
                return None
            return self._call_arg(fn, p, x)
        if isinstance(p, ast.Attribute) and p.value is x:
            gp = pm.get(id(p))
            if isinstance(gp, ast.Call) and gp.func is p:
                if p.attr == "pop" and not gp.args and "set" in (self.unordered(fn, x, n) or ""):
                    return "pop", "`.pop()` returns an arbitrary element"
                return None
            return None
        if isinstance(p, ast.Subscript) and p.value is x:
            if self._dict_like(fn, x, n):
                return None  # key lookup, not a position
            return "index", f"indexed / sliced (`{src(p)[:40]}`)"
        if isinstance(p, ast.comprehension) and p.iter is x:
            comp = pm.get(id(p))
            if isinstance(comp, ast.SetComp):
                return None
            return None  # the comprehension inherits the order: judged where IT is consumed
        if isinstance(p, (ast.For, ast.AsyncFor)) and p.iter is x:
            return self._loop(fn, p)
        if isinstance(p, ast.FormattedValue):
            return "format", "formatted into a string"
        if isinstance(p, ast.Assign) and p.value is x and self._keeps_order(fn, x, n):
            for t in p.targets:
                if isinstance(t, (ast.Subscript, ast.Attribute)):
                    root = t
                    while isinstance(root, (ast.Subscript, ast.Attribute)):
                        root = root.value
                    if isinstance(root, ast.Name):
                        return "store", f"stored as `{src(t)[:40]}` - a list / dict keeps that order for whoever iterates or serialises it later"
        if isinstance(p, ast.Return):
            return None  # summarised for callers (one level)
        if isinstance(p, ast.Compare):
            return None
        if isinstance(p, (ast.Yield, ast.YieldFrom)):
            return "yield", "yielded in that order"
        return None

    def _keeps_order(self, fn: Func, x: ast.AST, n, depth: int = 0) -> bool:
        """x is a list / dict / tuple (a container that remembers the order it was built in), not a set"""
        if isinstance(x, (ast.ListComp, ast.DictComp, ast.List, ast.Tuple, ast.Dict)):
            return True
        if isinstance(x, ast.Call) and dotted(x.func) in ("list", "tuple", "dict", "OrderedDict", "collections.OrderedDict", "dict.fromkeys"):
            return True
        if isinstance(x, ast.Name) and depth < 3:
            ds = [d for d in self.ctx.rd(fn).reaching(x.id, n) if d.kind in ("assign", "walrus") and d.value is not None]
            return bool(ds) and any(self._keeps_order(fn, d.value, d.node, depth + 1) for d in ds)
        return False

    def _dict_like(self, fn: Func, x: ast.AST, n) -> bool:
        def is_d(v):
            return isinstance(v, (ast.DictComp, ast.Dict)) or (isinstance(v, ast.Call) and dotted(v.func) in ("dict", "defaultdict", "collections.defaultdict", "OrderedDict", "Counter"))
        if is_d(x):
            return True
        if isinstance(x, ast.Name):
            vals = [d.value for d in self.ctx.rd(fn).reaching(x.id, n) if d.kind in ("assign", "walrus")]
            return bool(vals) and all(is_d(v) for v in vals)
        return False

    def _call_arg(self, fn: Func, call: ast.Call, x: ast.AST) -> Optional[Tuple[str, str]]:
        d = dotted(call.func) or ""
        tail = call_tail(call)
        if d in ORDER_FREE_CALLS:
            if d == "sorted" and not total_key(call):
                return None  # typed as still-unordered; judged where the sorted() result is consumed
            return None
        if d in INHERIT_CALLS or d == "map":
            return None  # inherits: judged at the consumer of the result
        if d in ("max", "min"):
            return ("pick", f"`{d}(..., key=...)` picks the first of tied elements") if any(k.arg == "key" for k in call.keywords) else None
        if d == "sum":
            return "sum", "summed in that order (floating-point addition is not associative)"
        if d == "next":
            return "pick", "`next(iter(...))` returns an arbitrary element"
        if isinstance(call.func, ast.Attribute) and tail == "join":
            return "join", "joined into a string"
        if d in ("str", "repr", "print", "json.dumps", "_json.dumps", "format") or tail in ("dumps", "_append_jsonl", "append_jsonl", "write", "encode", "format"):
            return "serialise", f"serialised by `{d or tail}`"
        if isinstance(call.func, ast.Attribute) and tail in SET_METHODS_OK:
            if tail in ("extend", "update") and call.args and call.args[0] is x:
                return None  # the receiver inherits (typed through the mutate def)
            return None
        # an unordered collection handed to a repository function: examine the callee with that parameter typed unordered
        if self.depth > 0:
            cal = self.ctx.prog.callee(fn, call)
            if cal is not None and cal[0] == "func" and cal[1] in self.ctx.prog.funcs:
                callee = self.ctx.prog.funcs[cal[1]]
                params = [p for p in callee.params if p not in ("self", "cls")] if callee.cls is not None else list(callee.params)
                pname = None
                for i, a in enumerate(call.args):
                    if a is x and i < len(params):
                        pname = params[i]
                for kw in call.keywords:
                    if kw.value is x and kw.arg in callee.params:
                        pname = kw.arg
                if pname is not None:
                    k = (callee.qual, pname)
                    if k not in self._argmemo:
                        self._argmemo[k] = None
                        sub = OrderTyping(self.ctx, depth=self.depth - 1)
                        sub._marks[k] = "argument in set / listing order"
                        for kind, y, o, how in sub.consumptions(callee):
                            if "argument in set" in o:
                                self._argmemo[k] = ("callee", f"passed to {callee.name}({pname}) where it is {how}")
                                break
                    return self._argmemo[k]
        return None

    def _loop(self, fn: Func, loop: ast.For) -> Optional[Tuple[str, str]]:
        for st in loop.body:
            for y in walk_no_defs(st):
                if isinstance(y, (ast.Return, ast.Break)):
                    return "first-match", f"loop leaves at the first match (`{src(y)[:30]}`)"
                if isinstance(y, (ast.Yield, ast.YieldFrom)):
                    return "yield", "yielded in that order"
                if isinstance(y, ast.AugAssign) and not isinstance(y.value, ast.Constant) and isinstance(y.op, (ast.Add, ast.Sub, ast.Mult)) and not isinstance(y.target, ast.Subscript):
                    return "accumulate", f"accumulated in that order (`{src(y)[:40]}`)"
                if isinstance(y, ast.Expr) and isinstance(y.value, ast.Call):
                    t = call_tail(y.value)
                    if t in ("_append_jsonl", "append_jsonl", "print", "write", "emit_trace", "log"):
                        return "emit", f"emits in that order (`{src(y.value)[:40]}`)"
        return None
