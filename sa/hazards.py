"""Language-level hazards that keep a program compiling and its happy-path tests green while changing behaviour on one
path only.  Each query is exact about what it reports (a construct and a path), and is used by a property rule as a
necessary condition - never as the property itself:

  unbound_after_handler   `except E as N:` unbinds N when the handler ends; a read of N after the try on a path with no
                          fresh binding raises UnboundLocalError exactly when the exception had happened
  single_use_multi_iter   a one-shot iterator (generator expression, map/filter/zip, generator call) handed to a callee
                          that walks the parameter more than once: every walk after the first sees nothing
  memo_shared_mutation    a memoised function (functools cache) returning a mutable container that a caller mutates in
                          place: the next call with the same key gets the damaged value
  loop_escapes            ways a `while` loop that restores an invariant can end with its condition still true
  pop_needs_nonempty      popitem()/popleft()/pop() in a `while` whose condition does not imply the container is non-empty
"""
from __future__ import annotations

import ast
from typing import Dict, Iterable, List, Optional, Sequence, Set, Tuple

from .cfg import CFG, Node, handler_catches_all
from .dataflow import node_exprs
from .model import Func, dotted, src, walk_no_defs
from .util import MUTATING_TAILS, no_exc


# ------------------------------------------------------------------ except-as
def _loads(n: Node, name: str) -> List[ast.Name]:
    out = []
    for e in node_exprs(n):
        for x in walk_no_defs(e):
            if isinstance(x, ast.Name) and x.id == name and isinstance(x.ctx, ast.Load):
                out.append(x)
    return out


def unbound_after_handler(ctx, fn: Func) -> List[Tuple[ast.ExceptHandler, str, Node, List[Node]]]:
    """(handler, name, use node, path) for each read of a handler-bound name that is reachable from the end of that
    handler without passing a new binding of the name.  Bindings made *inside* the handler do not help: the implicit
    `del name` runs after them."""
    out = []
    if not any(isinstance(t, ast.Try) and any(h.name for h in t.handlers) for t in walk_no_defs(fn.node)):
        return out
    cfg = ctx.cfg(fn)
    rd = ctx.rd(fn)
    for t in walk_no_defs(fn.node):
        if not isinstance(t, ast.Try):
            continue
        for h in t.handlers:
            if not h.name:
                continue
            name = h.name
            inside = set()
            for st in h.body:
                for x in ast.walk(st):
                    inside.add(id(x))
            hnodes = [n for n in cfg.nodes if (n.stmt is not None and id(n.stmt) in inside) or (n.ast is not None and id(n.ast) in inside)]
            if not hnodes:
                continue
            defnodes = {d.node for d in rd.all_defs if d.name == name and d.kind != "mutate" and d.node not in hnodes}

            def avoid(n, defnodes=defnodes, name=name):
                return n in defnodes and not _loads(n, name)

            def goal(n, hn=set(hnodes), name=name):
                return n not in hn and n.kind not in ("handler",) and bool(_loads(n, name))

            # leave the handler on a normal edge first
            exits = [n for n in hnodes if any(s not in hnodes for s, lab in n.succ if lab != "exc")]
            p = cfg.path(exits, goal, avoid=avoid, include_start=False)
            if p is not None:
                out.append((h, name, p[-1], p))
    return out


# ------------------------------------------------------------------ one-shot iterators
ONE_SHOT_BUILTINS = {"map", "filter", "zip", "iter", "reversed", "enumerate"}
MATERIALISERS = {"list", "tuple", "sorted", "set", "frozenset", "dict", "sum", "min", "max", "any", "all", "len"}


def _is_generator_fn(fn: Func) -> bool:
    return any(isinstance(x, (ast.Yield, ast.YieldFrom)) for x in walk_no_defs(fn.node))


def _one_shot_expr(ctx, fn: Func, e: ast.AST, at: Optional[Node], depth: int = 0) -> Optional[str]:
    if isinstance(e, ast.GeneratorExp):
        return "a generator expression"
    if isinstance(e, ast.Call):
        d = dotted(e.func) or ""
        if d in ONE_SHOT_BUILTINS:
            return f"{d}(...)"
        r = ctx.prog.callee(fn, e)
        if r and r[0] == "func" and r[1] in ctx.prog.funcs and _is_generator_fn(ctx.prog.funcs[r[1]]):
            return f"the generator {r[1].split(':')[-1]}()"
        if r and r[0] == "func" and r[1] in ctx.prog.funcs and depth < 3:
            # g(..., reducer=<callable>) where every value g returns is `reducer(...)`: the result is what the callable returns
            g = ctx.prog.funcs[r[1]]
            rets = [x for x in walk_no_defs(g.node) if isinstance(x, ast.Return) and x.value is not None]
            via = {x.value.func.id for x in rets if isinstance(x.value, ast.Call) and isinstance(x.value.func, ast.Name) and x.value.func.id in g.params}
            if rets and len(via) == 1 and all(isinstance(x.value, ast.Call) and isinstance(x.value.func, ast.Name) and x.value.func.id in via for x in rets):
                pn = next(iter(via))
                ps = [p for p in g.params if p not in ("self", "cls")]
                actual = next((k.value for k in e.keywords if k.arg == pn), None)
                if actual is None and pn in ps and ps.index(pn) < len(e.args):
                    actual = e.args[ps.index(pn)]
                if isinstance(actual, ast.Lambda):
                    w = _one_shot_expr(ctx, fn, actual.body, None, depth + 1)
                    if w:
                        return f"{w} (returned by the reducer given to {g.name})"
                if isinstance(actual, ast.Name):
                    h = ctx.prog.funcs.get(f"{fn.qual}.{actual.id}") or ctx.prog.funcs.get(f"{fn.module.name}:{actual.id}")
                    if h is not None:
                        hr = [x for x in walk_no_defs(h.node) if isinstance(x, ast.Return) and x.value is not None]
                        ws = [_one_shot_expr(ctx, h, x.value, (ctx.cfg(h).node_containing(x.value) or [None])[0], depth + 1) for x in hr]
                        if hr and all(ws):
                            return f"{ws[0]} (returned by the reducer {actual.id} given to {g.name})"
    if isinstance(e, ast.Name) and at is not None and depth < 3:
        rd = ctx.rd(fn)
        ds = [d for d in rd.reaching(e.id, at) if d.kind != "mutate"]
        if ds and all(d.kind == "assign" and d.value is not None for d in ds):
            kinds = [_one_shot_expr(ctx, fn, d.value, d.node, depth + 1) for d in ds]
            if all(kinds):
                return kinds[0]
    return None


def _iteration_sites(callee: Func, pname: str) -> List[Tuple[ast.AST, ast.AST]]:
    """(site, iterated expression) where the *parameter value* pname is walked: for / comprehension / materialiser / star."""
    out = []
    for x in walk_no_defs(callee.node):
        if isinstance(x, (ast.For, ast.AsyncFor)) and isinstance(x.iter, ast.Name) and x.iter.id == pname:
            out.append((x, x.iter))
        if isinstance(x, (ast.ListComp, ast.SetComp, ast.DictComp, ast.GeneratorExp)):
            for g in x.generators:
                if isinstance(g.iter, ast.Name) and g.iter.id == pname:
                    out.append((x, g.iter))
        if isinstance(x, ast.Call) and (dotted(x.func) or "") in MATERIALISERS | ONE_SHOT_BUILTINS:
            for a in x.args:
                if isinstance(a, ast.Name) and a.id == pname:
                    out.append((x, a))
        if isinstance(x, ast.Starred) and isinstance(x.value, ast.Name) and x.value.id == pname:
            out.append((x, x.value))
    return out


def param_walks(ctx, callee: Func, pname: str, depth: int = 0) -> Tuple[int, Optional[ast.AST]]:
    """How many times can one call walk the object bound to parameter pname?  returns (2, site) as soon as a second walk is
    possible (a walk inside a loop, or two walks joined by a path), else (n<=1, site)."""
    cfg = ctx.cfg(callee)
    rd = ctx.rd(callee)
    sites = []
    for site, nm in _iteration_sites(callee, pname):
        nodes = cfg.node_containing(nm)
        if not nodes:
            continue
        n = nodes[0]
        ds = rd.reaching(pname, n)
        if not any(d.kind == "param" for d in ds):
            continue  # rebound (e.g. p = list(p)) before this walk
        sites.append((site, n))
    for site, n in sites:
        # walked inside a loop that is not this walk itself
        loop_self = site if isinstance(site, (ast.For, ast.AsyncFor)) else None
        for anc, _ in _ancestors(callee, site):
            if isinstance(anc, (ast.For, ast.AsyncFor, ast.While)) and anc is not loop_self:
                return 2, site
            if isinstance(anc, (ast.ListComp, ast.SetComp, ast.DictComp, ast.GeneratorExp)) and anc is not site:
                return 2, site
    for i, (s1, n1) in enumerate(sites):
        for j, (s2, n2) in enumerate(sites):
            if i != j and n1 is not n2 and cfg.path([n1], lambda m, n2=n2: m is n2, edge_ok=no_exc, include_start=False) is not None:
                return 2, s2
    total = len(sites)
    # forwarded to another function of the program
    if depth < 2:
        for x in walk_no_defs(callee.node):
            if not isinstance(x, ast.Call):
                continue
            for i, a in enumerate(x.args):
                if isinstance(a, ast.Name) and a.id == pname and (dotted(x.func) or "") not in MATERIALISERS | ONE_SHOT_BUILTINS:
                    r = ctx.prog.callee(callee, x)
                    if r and r[0] == "func" and r[1] in ctx.prog.funcs:
                        g = ctx.prog.funcs[r[1]]
                        ps = [p for p in g.params if p not in ("self", "cls")]
                        if i < len(ps):
                            k, s = param_walks(ctx, g, ps[i], depth + 1)
                            if k >= 2:
                                return 2, x
                            total += k
                            if total >= 2:
                                return 2, x
    return total, (sites[0][0] if sites else None)


def _ancestors(fn: Func, node: ast.AST) -> List[Tuple[ast.AST, str]]:
    """lexical ancestors of node inside fn (innermost first)"""
    parents: Dict[int, ast.AST] = {}
    for p in ast.walk(fn.node):
        for c in ast.iter_child_nodes(p):
            parents[id(c)] = p
    out = []
    cur = node
    while id(cur) in parents and cur is not fn.node:
        cur = parents[id(cur)]
        if cur is fn.node:
            break
        out.append((cur, type(cur).__name__))
    return out


def single_use_multi_iter(ctx, fn: Func) -> List[Tuple[ast.Call, ast.AST, str, str, ast.AST]]:
    """(call, argument, what, callee qual, second-walk site) for every call in fn - nested defs included - that hands a
    one-shot iterator to a program function walking that parameter more than once."""
    out = []
    scopes: List[Func] = [fn] + [g for g in ctx.prog.funcs.values() if g.module is fn.module and g.qual.startswith(fn.qual + ".")]
    for sc in scopes:
        cfg = ctx.cfg(sc)
        for x in walk_no_defs(sc.node):
            if not isinstance(x, ast.Call):
                continue
            r = ctx.prog.callee(sc, x)
            if not (r and r[0] == "func" and r[1] in ctx.prog.funcs):
                continue
            callee = ctx.prog.funcs[r[1]]
            ps = [p for p in callee.params if p not in ("self", "cls")]
            pairs = [(ps[i], a) for i, a in enumerate(x.args) if i < len(ps) and not isinstance(a, ast.Starred)]
            pairs += [(k.arg, k.value) for k in x.keywords if k.arg in ps]
            for pname, a in pairs:
                at = (cfg.node_containing(a) or [None])[0]
                what = _one_shot_expr(ctx, sc, a, at)
                if not what:
                    continue
                k, site = param_walks(ctx, callee, pname)
                if k >= 2:
                    out.append((x, a, what, callee.qual, site))
    return out


# ------------------------------------------------------------------ memoised functions
MEMO_DECORATORS = {"lru_cache", "cache", "functools.lru_cache", "functools.cache", "cached_property", "functools.cached_property"}
IMMUTABLE_CALLS = {"tuple", "frozenset", "str", "int", "float", "bool", "bytes", "len", "repr", "MappingProxyType", "types.MappingProxyType"}


def is_memoised(fn: Func) -> bool:
    for d in getattr(fn.node, "decorator_list", []):
        t = d.func if isinstance(d, ast.Call) else d
        if (dotted(t) or "") in MEMO_DECORATORS or (dotted(t) or "").split(".")[-1] in ("lru_cache", "cache"):
            return True
    return False


def _mutable_return(ctx, fn: Func) -> Optional[ast.AST]:
    """a return of fn whose value may be a mutable container"""
    rd = ctx.rd(fn)
    cfg = ctx.cfg(fn)

    def mutable(e: ast.AST, at, depth=0) -> bool:
        if isinstance(e, (ast.List, ast.Dict, ast.Set, ast.ListComp, ast.DictComp, ast.SetComp)):
            return True
        if isinstance(e, ast.Constant) or isinstance(e, (ast.Tuple, ast.JoinedStr, ast.Compare, ast.BoolOp, ast.UnaryOp, ast.BinOp)) and not isinstance(e, ast.BoolOp):
            return False if not isinstance(e, ast.Tuple) else any(mutable(x, at, depth + 1) for x in e.elts)
        if isinstance(e, ast.Call):
            d = (dotted(e.func) or "")
            if d in IMMUTABLE_CALLS or d.split(".")[-1] in ("join", "format", "strip", "lower", "upper", "hexdigest", "encode", "decode"):
                return False
            if d in ("list", "dict", "set", "sorted", "deque", "OrderedDict", "defaultdict", "bytearray"):
                return True
            return True  # unknown call: may be mutable
        if isinstance(e, ast.Name) and depth < 4:
            ds = [d for d in rd.reaching(e.id, at) if d.kind != "mutate"]
            if not ds:
                return True
            return any(d.value is None or mutable(d.value, d.node, depth + 1) for d in ds)
        if isinstance(e, ast.IfExp):
            return mutable(e.body, at, depth + 1) or mutable(e.orelse, at, depth + 1)
        return True

    for n in cfg.nodes:
        if n.kind == "stmt" and isinstance(n.ast, ast.Return) and n.ast.value is not None and mutable(n.ast.value, n):
            return n.ast
    return None


def memo_shared_mutation(ctx, modules: Sequence[str]) -> Tuple[List[Tuple[Func, ast.AST]], List[Tuple[Func, ast.AST, Func]]]:
    """(memoised functions with a mutable return, [(caller, mutating construct, memoised callee)])"""
    memo = []
    for mn in modules:
        for fn in ctx.prog.module(mn).funcs.values():
            if is_memoised(fn):
                r = _mutable_return(ctx, fn)
                if r is not None:
                    memo.append((fn, r))
    hits = []
    mq = {f.qual: f for f, _ in memo}
    if not mq:
        return memo, hits
    for caller in ctx.prog.funcs.values():
        calls = []
        for x in walk_no_defs(caller.node):
            if isinstance(x, ast.Call):
                r = ctx.prog.callee(caller, x)
                if r and r[0] == "func" and r[1] in mq:
                    calls.append((x, mq[r[1]]))
        if not calls:
            continue
        rd = ctx.rd(caller)
        cfg = ctx.cfg(caller)
        # names bound (possibly) to the call result
        for call, target in calls:
            holders: Set[str] = set()
            for d in rd.all_defs:
                if d.kind in ("assign", "walrus") and d.value is call:
                    holders.add(d.name)
            for _ in range(3):
                for d in rd.all_defs:
                    if d.kind == "assign" and isinstance(d.value, ast.Name) and d.value.id in holders:
                        holders.add(d.name)
            for x in walk_no_defs(caller.node):
                root = None
                how = None
                if isinstance(x, ast.Call) and isinstance(x.func, ast.Attribute) and x.func.attr in MUTATING_TAILS:
                    root, how = x.func.value, x
                    if root is call:
                        hits.append((caller, x, target))
                        continue
                elif isinstance(x, (ast.Assign, ast.AugAssign, ast.Delete)):
                    ts = x.targets if isinstance(x, (ast.Assign, ast.Delete)) else [x.target]
                    for t in ts:
                        if isinstance(t, ast.Subscript):
                            root, how = t.value, x
                        elif isinstance(x, ast.AugAssign) and isinstance(t, ast.Name):
                            root, how = t, x  # `keys += [...]` extends a list in place
                if isinstance(root, ast.Name) and root.id in holders:
                    at = (cfg.node_containing(root) or [None])[0]
                    if at is None:
                        continue
                    ds = [d for d in rd.reaching(root.id, at) if d.kind != "mutate"]
                    if any(d.value is call or (isinstance(d.value, ast.Name) and d.value.id in holders) for d in ds if d.value is not None):
                        hits.append((caller, how, target))
    return memo, hits


# ------------------------------------------------------------------ invariant-restoring loops
def loop_escapes(ctx, fn: Func, loop: ast.While, safe_calls: Iterable[str] = ()) -> List[Tuple[str, ast.AST]]:
    """Ways `loop` can end while its condition still holds: a `break`, a `return`, or an exception raised in the body by a
    call to a foreign callable (attribute of self / parameter / callback) that is swallowed by a handler *enclosing* the
    loop - execution then continues after the loop as if it had finished."""
    out: List[Tuple[str, ast.AST]] = []
    body_ids = set()
    for st in loop.body:
        for x in ast.walk(st):
            body_ids.add(id(x))

    def own(x):  # break/continue belong to the innermost loop
        for anc, _ in _ancestors(fn, x):
            if isinstance(anc, (ast.For, ast.While, ast.AsyncFor)):
                return anc is loop
        return False

    for st in loop.body:
        for x in walk_no_defs(st):
            if isinstance(x, ast.Break) and own(x):
                out.append(("break", x))
            if isinstance(x, ast.Return):
                out.append(("return", x))
    # swallowing try around the loop
    swallowing = None
    for anc, _ in _ancestors(fn, loop):
        if isinstance(anc, ast.Try) and any(loop is y or id(loop) in {id(z) for z in ast.walk(y)} for y in anc.body):
            for h in anc.handlers:
                if handler_catches_all(h) and not any(isinstance(z, ast.Raise) for s in h.body for z in ast.walk(s)):
                    swallowing = anc
            if swallowing is not None:
                break
    if swallowing is not None:
        safe = set(safe_calls)
        for st in loop.body:
            for x in walk_no_defs(st):
                if not isinstance(x, ast.Call):
                    continue
                # guarded inside the loop body by its own catch-all?
                inner_guard = False
                for anc, _ in _ancestors(fn, x):
                    if anc is loop:
                        break
                    if isinstance(anc, ast.Try) and any(handler_catches_all(h) for h in anc.handlers) and any(id(x) in {id(z) for z in ast.walk(y)} for y in anc.body):
                        inner_guard = True
                        break
                if inner_guard:
                    continue
                d = dotted(x.func) or ""
                if d in safe or d.split(".")[-1] in safe:
                    continue
                foreign = False
                if isinstance(x.func, ast.Name):
                    rd = ctx.rd(fn)
                    at = (ctx.cfg(fn).node_containing(x) or [None])[0]
                    if x.func.id in fn.params:
                        foreign = True
                    elif at is not None:
                        for dd in rd.reaching(x.func.id, at):
                            v = dd.value
                            if dd.kind == "assign" and isinstance(v, ast.Attribute) and isinstance(v.value, ast.Name) and v.value.id in ("self",):
                                foreign = True  # cb = self.on_evict
                            if dd.kind == "assign" and isinstance(v, ast.Call) and (dotted(v.func) or "") == "getattr":
                                foreign = True
                elif isinstance(x.func, ast.Attribute) and isinstance(x.func.value, ast.Name) and x.func.value.id == "self":
                    # a callable stored on the instance (not a method of the class)
                    cls = fn.qual.split(":")[-1].rsplit(".", 1)[0] if "." in fn.qual.split(":")[-1] else None
                    meth = f"{fn.module.name}:{cls}.{x.func.attr}" if cls else None
                    foreign = meth not in ctx.prog.funcs
                if foreign:
                    out.append(("swallowed-exception", x))
    return out


def nonempty_implied(test: ast.AST, cont: str, nonneg: Iterable[str] = (), pos: Iterable[str] = ()) -> bool:
    """does `test` being true imply that container expression `cont` (source text) is non-empty?  `nonneg` / `pos`: source
    texts of expressions known to be >= 0 / >= 1."""
    nn = set(nonneg)
    ps = set(pos)
    if isinstance(test, ast.BoolOp) and isinstance(test.op, ast.And):
        # a bare truthy conjunct that is known non-negative is >= 1 for the other conjuncts
        ps2 = ps | {src(v) for v in test.values if src(v) in nn}
        return any(nonempty_implied(v, cont, nn, ps2) for v in test.values)
    if isinstance(test, ast.BoolOp) and isinstance(test.op, ast.Or):
        return all(nonempty_implied(v, cont, nn, ps) for v in test.values)
    if src(test) == cont:
        return True
    if isinstance(test, ast.Compare) and len(test.ops) == 1:
        l, op, r = test.left, test.ops[0], test.comparators[0]

        def is_len(e):
            return isinstance(e, ast.Call) and dotted(e.func) == "len" and e.args and src(e.args[0]) == cont

        def lower(e) -> Optional[int]:
            """a proven lower bound of e"""
            if isinstance(e, ast.Constant) and isinstance(e.value, (int, float)) and not isinstance(e.value, bool):
                return int(e.value)
            if src(e) in ps:
                return 1
            if src(e) in nn:
                return 0
            if isinstance(e, ast.Call) and dotted(e.func) == "max":
                ls = [lower(a) for a in e.args]
                ls = [x for x in ls if x is not None]
                return max(ls) if ls else None
            if isinstance(e, ast.Call) and dotted(e.func) == "len":
                return 0
            return None

        if is_len(l):
            lb = lower(r)
            if isinstance(op, ast.Gt) and lb is not None and lb >= 0:
                return True
            if isinstance(op, ast.GtE) and lb is not None and lb >= 1:
                return True
        if is_len(r):
            lb = lower(l)
            if isinstance(op, ast.Lt) and lb is not None and lb >= 0:
                return True
            if isinstance(op, ast.LtE) and lb is not None and lb >= 1:
                return True
    return False


def pops_in_loop(loop: ast.While) -> List[Tuple[ast.Call, str]]:
    """(call, container source) for popitem() / popleft() / pop() with no key on an attribute of self inside the loop body"""
    out = []
    for st in loop.body:
        for x in walk_no_defs(st):
            if isinstance(x, ast.Call) and isinstance(x.func, ast.Attribute) and isinstance(x.func.value, ast.Attribute) and isinstance(x.func.value.value, ast.Name) \
                    and x.func.value.value.id == "self":
                if x.func.attr in ("popitem", "popleft") or (x.func.attr == "pop" and not x.args):
                    out.append((x, src(x.func.value)))
    return out


def init_lower_bounds(ctx, cls_qual: str) -> Dict[str, int]:
    """attributes of self that __init__ provably keeps >= b: `self.a = max(b, ...)`"""
    out: Dict[str, int] = {}
    init = ctx.prog.methods(cls_qual).get("__init__")
    if init is None:
        return out
    for x in walk_no_defs(init.node):
        if isinstance(x, (ast.Assign, ast.AnnAssign)):
            ts = x.targets if isinstance(x, ast.Assign) else [x.target]
            v = x.value
            for t in ts:
                if isinstance(t, ast.Attribute) and isinstance(t.value, ast.Name) and t.value.id == "self" and isinstance(v, ast.Call) and dotted(v.func) == "max":
                    cs = [a.value for a in v.args if isinstance(a, ast.Constant) and isinstance(a.value, int) and not isinstance(a.value, bool)]
                    if cs:
                        out[f"self.{t.attr}"] = max(cs)
    return out


# ------------------------------------------------------------------ state that outlives a call / late binding
_MUT_CTORS = {"list", "dict", "set", "defaultdict", "OrderedDict", "deque", "Counter", "bytearray"}


def _mutable_literal(v: ast.AST) -> bool:
    return isinstance(v, (ast.List, ast.Dict, ast.Set, ast.ListComp, ast.DictComp, ast.SetComp)) or (
        isinstance(v, ast.Call) and (dotted(v.func) or "").split(".")[-1] in _MUT_CTORS)


def _name_mutated_or_kept(fn: Func, name: str) -> Optional[ast.AST]:
    """a construct in fn that edits the object bound to `name` in place, or lets it escape (returned / stored / yielded)"""
    for x in walk_no_defs(fn.node):
        if isinstance(x, ast.Call) and isinstance(x.func, ast.Attribute) and x.func.attr in MUTATING_TAILS and isinstance(x.func.value, ast.Name) and x.func.value.id == name:
            return x
        if isinstance(x, (ast.Assign, ast.AugAssign)):
            for t in (x.targets if isinstance(x, ast.Assign) else [x.target]):
                if isinstance(t, ast.Subscript) and isinstance(t.value, ast.Name) and t.value.id == name:
                    return x
                if isinstance(x, ast.AugAssign) and isinstance(t, ast.Name) and t.id == name:
                    return x
            if isinstance(x, ast.Assign) and isinstance(x.value, ast.Name) and x.value.id == name and any(isinstance(t, (ast.Attribute, ast.Subscript)) for t in x.targets):
                return x
        if isinstance(x, (ast.Return, ast.Yield)) and isinstance(x.value, ast.Name) and x.value.id == name:
            return x
    return None


def mutable_defaults(ctx, fn: Func) -> List[Tuple[str, ast.AST, ast.AST]]:
    """(parameter, default expression, construct) for each parameter whose default is a mutable object created once at
    definition time AND which the body edits in place or lets escape: the object - and whatever one call left in it - is
    shared by every later call in the process"""
    out = []
    a = fn.node.args
    pos = a.posonlyargs + a.args
    pairs = list(zip(pos[len(pos) - len(a.defaults):], a.defaults)) + [(k, d) for k, d in zip(a.kwonlyargs, a.kw_defaults) if d is not None]
    for arg, d in pairs:
        if _mutable_literal(d):
            c = _name_mutated_or_kept(fn, arg.arg)
            if c is not None:
                out.append((arg.arg, d, c))
    return out


def shared_class_state(ctx, modname: str) -> List[Tuple[str, str, ast.AST, Func, ast.AST]]:
    """(class, attribute, definition, method, construct) for each mutable object bound at class level that a method edits
    in place through self / cls / the class name: one object for all instances"""
    out = []
    m = ctx.prog.module(modname)
    for st in ast.walk(m.tree):
        if not isinstance(st, ast.ClassDef):
            continue
        attrs = {}
        for b in st.body:
            if isinstance(b, (ast.Assign, ast.AnnAssign)) and b.value is not None and _mutable_literal(b.value):
                for t in (b.targets if isinstance(b, ast.Assign) else [b.target]):
                    if isinstance(t, ast.Name):
                        attrs[t.id] = b
        if not attrs:
            continue
        for fn in m.funcs.values():
            if fn.cls != st.name and not fn.qual.split(":")[-1].startswith(st.name + "."):
                continue
            rebound = {t.attr for x in walk_no_defs(fn.node) if isinstance(x, ast.Assign) for t in x.targets
                       if isinstance(t, ast.Attribute) and isinstance(t.value, ast.Name) and t.value.id == "self"} if fn.name == "__init__" else set()
            for x in walk_no_defs(fn.node):
                tgt = None
                if isinstance(x, ast.Call) and isinstance(x.func, ast.Attribute) and x.func.attr in MUTATING_TAILS:
                    tgt = x.func.value
                elif isinstance(x, (ast.Assign, ast.AugAssign)):
                    for t in (x.targets if isinstance(x, ast.Assign) else [x.target]):
                        if isinstance(t, ast.Subscript):
                            tgt = t.value
                        elif isinstance(x, ast.AugAssign) and isinstance(t, ast.Attribute):
                            tgt = t  # self.xs += [...] extends the class-level list in place, then binds it on the instance
                if isinstance(tgt, ast.Attribute) and isinstance(tgt.value, ast.Name) and tgt.value.id in ("self", "cls", st.name) and tgt.attr in attrs:
                    out.append((st.name, tgt.attr, attrs[tgt.attr], fn, x))
        # an attribute re-bound per instance in __init__ is not shared
        init = next((f for f in m.funcs.values() if f.name == "__init__" and (f.cls == st.name or f.qual.split(":")[-1].startswith(st.name + "."))), None)
        if init is not None:
            per_inst = {t.attr for x in walk_no_defs(init.node) if isinstance(x, (ast.Assign, ast.AnnAssign)) for t in (x.targets if isinstance(x, ast.Assign) else [x.target])
                        if isinstance(t, ast.Attribute) and isinstance(t.value, ast.Name) and t.value.id == "self"}
            out = [o for o in out if not (o[0] == st.name and o[1] in per_inst)]
    return out


def late_binding_closures(ctx, fn: Func) -> List[Tuple[ast.AST, Set[str], ast.AST]]:
    """(closure, loop variables it reads free, loop) for each lambda / nested def created inside a loop or comprehension
    that reads the loop variable as a free variable and is not called on the spot: all the closures collected over the
    iterations see the variable's LAST value when they finally run (the idiom `lambda S=sh: f(S)` binds per iteration)"""
    out = []
    pm: Dict[int, ast.AST] = {}
    for p in ast.walk(fn.node):
        for c in ast.iter_child_nodes(p):
            pm[id(c)] = p

    def loops():
        for x in ast.walk(fn.node):
            if isinstance(x, (ast.For, ast.AsyncFor)):
                yield x, {y.id for y in ast.walk(x.target) if isinstance(y, ast.Name)}, x.body
            elif isinstance(x, (ast.ListComp, ast.SetComp, ast.DictComp, ast.GeneratorExp)):
                tv = {y.id for g in x.generators for y in ast.walk(g.target) if isinstance(y, ast.Name)}
                yield x, tv, ([x.key, x.value] if isinstance(x, ast.DictComp) else [x.elt])

    for lp, tv, body in loops():
        for b in body:
            for x in ast.walk(b):
                if isinstance(x, ast.Lambda):
                    params = {a.arg for a in x.args.posonlyargs + x.args.args + x.args.kwonlyargs} | ({x.args.vararg.arg} if x.args.vararg else set()) | ({x.args.kwarg.arg} if x.args.kwarg else set())
                    free = {y.id for y in ast.walk(x.body) if isinstance(y, ast.Name) and isinstance(y.ctx, ast.Load)} - params
                    inner = x
                elif isinstance(x, (ast.FunctionDef, ast.AsyncFunctionDef)) and x is not fn.node:
                    params = {a.arg for a in x.args.posonlyargs + x.args.args + x.args.kwonlyargs}
                    stores = {y.id for st in x.body for y in ast.walk(st) if isinstance(y, ast.Name) and isinstance(y.ctx, ast.Store)}
                    free = {y.id for st in x.body for y in ast.walk(st) if isinstance(y, ast.Name) and isinstance(y.ctx, ast.Load)} - params - stores
                    inner = x
                else:
                    continue
                hit = free & tv
                if not hit:
                    continue
                if isinstance(inner, (ast.FunctionDef, ast.AsyncFunctionDef)):
                    # a helper that is only ever called by name inside this iteration runs with the current value - unless
                    # it builds (and hands out) an inner closure that reads the variable later
                    uses = [y for bb in body for y in ast.walk(bb) if isinstance(y, ast.Name) and y.id == inner.name and isinstance(y.ctx, ast.Load)]
                    only_called = bool(uses) and all(isinstance(pm.get(id(y)), ast.Call) and pm[id(y)].func is y for y in uses)
                    builds = any(isinstance(z, (ast.Lambda, ast.FunctionDef)) and z is not inner and
                                 ({w.id for w in ast.walk(z) if isinstance(w, ast.Name) and isinstance(w.ctx, ast.Load)} & hit) for z in ast.walk(inner))
                    if only_called and not builds:
                        continue
                par = pm.get(id(inner))
                if isinstance(par, ast.Call) and par.func is inner:
                    continue  # called on the spot
                if isinstance(par, ast.keyword):
                    gp = pm.get(id(par))
                    if isinstance(gp, ast.Call) and (dotted(gp.func) or "").split(".")[-1] in ("sorted", "sort", "max", "min", "filter", "map") :
                        continue  # a key / predicate consumed inside this iteration
                out.append((inner, hit, lp))
    return out


# ------------------------------------------------------------------ raw writes, iteration under mutation, shared templates
def raw_write_unchecked(ctx, fn: Func) -> List[Tuple[ast.Call, ast.Call]]:
    """(open call, write call) for each `f.write(data)` on a handle opened with buffering=0 whose returned byte count is
    discarded: a raw write may store fewer bytes than asked WITHOUT raising (full disk, size limit, signal, pipe) - a buffered
    handle loops until everything is out or raises"""
    out = []
    raw: Dict[str, ast.Call] = {}
    for x in walk_no_defs(fn.node):
        calls = []
        if isinstance(x, ast.With):
            calls = [(it.context_expr, it.optional_vars) for it in x.items]
        elif isinstance(x, ast.Assign) and len(x.targets) == 1:
            calls = [(x.value, x.targets[0])]
        for c, tgt in calls:
            if isinstance(c, ast.Call) and ((dotted(c.func) or "") in ("open", "io.open") or (isinstance(c.func, ast.Attribute) and c.func.attr == "open")) and isinstance(tgt, ast.Name):
                b = next((k.value for k in c.keywords if k.arg == "buffering"), None)
                if b is None and len(c.args) >= 3:
                    b = c.args[2]
                if isinstance(b, ast.Constant) and b.value == 0:
                    raw[tgt.id] = c
    if not raw:
        return out
    pm: Dict[int, ast.AST] = {}
    for p in ast.walk(fn.node):
        for ch in ast.iter_child_nodes(p):
            pm[id(ch)] = p
    for x in walk_no_defs(fn.node):
        if isinstance(x, ast.Call) and isinstance(x.func, ast.Attribute) and x.func.attr == "write" and isinstance(x.func.value, ast.Name) and x.func.value.id in raw:
            if isinstance(pm.get(id(x)), ast.Expr):
                out.append((raw[x.func.value.id], x))
    return out


_DICT_MUT = {"pop", "popitem", "clear", "update", "setdefault", "add", "discard", "remove", "append", "insert", "extend"}


def mutation_during_iteration(ctx, fn: Func) -> List[Tuple[ast.For, ast.AST, str]]:
    """(loop, construct, container) where the loop walks a container (or its keys()/items()/values() view) directly - no
    list()/tuple()/sorted() copy - and the body adds to or removes from that same container: RuntimeError for dict / set /
    OrderedDict ("changed size during iteration"), silently skipped elements for a list"""
    out = []
    for lp in walk_no_defs(fn.node):
        if not isinstance(lp, (ast.For, ast.AsyncFor)):
            continue
        it = lp.iter
        if isinstance(it, ast.Call) and isinstance(it.func, ast.Attribute) and it.func.attr in ("items", "keys", "values") and not it.args:
            it = it.func.value
        if not isinstance(it, (ast.Name, ast.Attribute)):
            continue
        cont = src(it)
        for st in lp.body:
            for x in walk_no_defs(st):
                hit = None
                if isinstance(x, ast.Delete):
                    for t in x.targets:
                        if isinstance(t, ast.Subscript) and src(t.value) == cont:
                            hit = x
                if isinstance(x, ast.Call) and isinstance(x.func, ast.Attribute) and x.func.attr in _DICT_MUT and src(x.func.value) == cont:
                    hit = x
                if isinstance(x, ast.Assign):
                    for t in x.targets:
                        if isinstance(t, ast.Subscript) and src(t.value) == cont:
                            # storing under the key being visited does not resize; any other key may
                            tv = {y.id for y in ast.walk(lp.target) if isinstance(y, ast.Name)}
                            if not (isinstance(t.slice, ast.Name) and t.slice.id in tv):
                                hit = x
                if hit is not None:
                    # leaving the loop right after the edit is fine (break / return follows in the same block)
                    out.append((lp, hit, cont))
    # drop edits that are immediately followed by break / return in their own block
    keep = []
    for lp, hit, cont in out:
        blk = None
        for b in ast.walk(lp):
            for f in ("body", "orelse", "finalbody"):
                seq = getattr(b, f, None)
                if isinstance(seq, list):
                    for i, st in enumerate(seq):
                        if st is hit or (isinstance(st, ast.Expr) and st.value is hit):
                            blk = (seq, i)
        if blk and any(isinstance(z, (ast.Break, ast.Return)) for z in blk[0][blk[1] + 1:]):
            continue
        keep.append((lp, hit, cont))
    return keep


def _nested_mutable(v: ast.AST) -> bool:
    if isinstance(v, ast.Dict):
        return any(_mutable_literal(x) for x in v.values)
    if isinstance(v, (ast.List, ast.Tuple, ast.Set)):
        return any(_mutable_literal(x) for x in v.elts)
    return False


def shallow_template_copies(ctx, modname: str) -> List[Tuple[Func, ast.AST, str]]:
    """(function, construct, template) where a module-level container that itself holds lists / dicts / sets is handed out
    by a shallow copy (dict(T), T.copy(), {**T}, list(T), copy.copy(T)) or as it is (returned / stored / put in a literal):
    every receiver shares the inner containers, so what one engine state appends is seen by all later ones in the process"""
    m = ctx.prog.module(modname)
    templates: Dict[str, ast.AST] = {}
    for st in m.tree.body:
        if isinstance(st, (ast.Assign, ast.AnnAssign)) and st.value is not None and _nested_mutable(st.value):
            for t in (st.targets if isinstance(st, ast.Assign) else [st.target]):
                if isinstance(t, ast.Name):
                    templates[t.id] = st
    out = []
    if not templates:
        return out
    for fn in m.funcs.values():
        local = {y.id for y in walk_no_defs(fn.node) if isinstance(y, ast.Name) and isinstance(y.ctx, ast.Store)} | set(fn.params)
        pm: Dict[int, ast.AST] = {}
        for p in ast.walk(fn.node):
            for ch in ast.iter_child_nodes(p):
                pm[id(ch)] = p
        for x in walk_no_defs(fn.node):
            if not (isinstance(x, ast.Name) and x.id in templates and x.id not in local and isinstance(x.ctx, ast.Load)):
                continue
            par = pm.get(id(x))
            how = None
            if isinstance(par, ast.Call) and x in par.args and (dotted(par.func) or "") in ("dict", "list", "copy.copy", "OrderedDict", "tuple", "set"):
                how = f"shallow copy `{src(par)[:40]}`"
            elif isinstance(par, ast.Attribute) and par.attr == "copy" and isinstance(pm.get(id(par)), ast.Call):
                how = f"shallow copy `{src(pm[id(par)])[:40]}`"
            elif isinstance(par, ast.Dict) and any(k is None and v is x for k, v in zip(par.keys, par.values)):
                how = "spread into a new dict (`{**T}`)"
            elif isinstance(par, (ast.Return,)) or (isinstance(par, ast.Dict) and x in par.values) or (isinstance(par, (ast.List, ast.Tuple)) and x in par.elts):
                how = "handed out as it is"
            elif isinstance(par, ast.Assign) and par.value is x:
                how = "bound / stored as it is"
            elif isinstance(par, ast.keyword) or (isinstance(par, ast.Call) and x in par.args and (dotted(par.func) or "").split(".")[-1] in ("setdefault", "_set_state_field", "setattr", "update")):
                how = f"passed on as it is (`{src(pm.get(id(par)) if isinstance(par, ast.keyword) else par)[:40]}`)"
            if how:
                out.append((fn, x, f"{x.id}: {how}"))
    return out


# ------------------------------------------------------------------ positive controls (zero-expected rules)
_PROBES = '''
import functools as _hz_functools
def _hz_unbound(f):
    err = None
    try:
        v = f()
    except Exception as err:
        v = None
    return (v, err)
def _hz_unbound_ok(f):
    err = None
    try:
        v = f()
    except Exception as e:
        err = e
        v = None
    return (v, err)
def _hz_twice(rows, keys):
    out = []
    for k in keys:
        for r in rows:
            out.append((k, r))
    return out
def _hz_once(rows, keys):
    rows = list(rows)
    out = []
    for k in keys:
        for r in rows:
            out.append((k, r))
    return out
def _hz_gen(xs, keys):
    return _hz_twice((x for x in xs), keys)
def _hz_gen_ok(xs, keys):
    return _hz_once((x for x in xs), keys), _hz_twice([x for x in xs], keys)
@_hz_functools.lru_cache(maxsize=8)
def _hz_memo(p):
    return p.split(".")
@_hz_functools.lru_cache(maxsize=8)
def _hz_memo_ok(p):
    return tuple(p.split("."))
def _hz_memo_user(p):
    ks = _hz_memo(p)
    last = ks.pop()
    return ks, last
def _hz_memo_user_ok(p):
    ks = list(_hz_memo(p))
    last = ks.pop()
    return ks, last, _hz_memo_ok(p)
def _hz_default(x, acc=[]):
    acc.append(x)
    return acc
def _hz_default_ok(x, acc=None, opts={}):
    acc = [] if acc is None else acc
    acc.append(x)
    return acc, opts.get("k")
def _hz_late(shards, f):
    return [(i, (lambda: f(sh))) for i, sh in enumerate(shards)]
def _hz_late_ok(shards, f):
    return [(i, (lambda S=sh: f(S))) for i, sh in enumerate(shards)], sorted(shards, key=lambda s: s)
_HZ_TEMPLATE = {"schema": "v", "merges": [], "count": 0}
_HZ_FLAT = {"schema": "v", "count": 0}
def _hz_template():
    return {"meta": dict(_HZ_TEMPLATE)}
def _hz_template_ok():
    import copy
    return {"meta": copy.deepcopy(_HZ_TEMPLATE), "flat": dict(_HZ_FLAT), "n": _HZ_TEMPLATE["count"]}
def _hz_prune(d, now):
    for k, ent in d.items():
        if ent < now:
            del d[k]
def _hz_prune_ok(d, now):
    for k, ent in list(d.items()):
        if ent < now:
            del d[k]
    for k in d:
        d[k] = d[k] + 1
def _hz_rawwrite(path, data):
    with open(path, "wb", buffering=0) as f:
        f.write(data)
def _hz_rawwrite_ok(path, data):
    with open(path, "wb", buffering=0) as f:
        view = memoryview(data)
        while len(view):
            n = f.write(view)
            view = view[n:]
    with open(path, "ab") as g:
        g.write(data)
class _HzShared:
    seen = {}
    tags = []
    def __init__(self):
        self.tags = []
    def note(self, k):
        self.seen[k] = True
        self.tags.append(k)
class _HzBox:
    def __init__(self, cap, cb):
        self.cap = cap
        self.cb = cb
        self.d = {}
    def shrink(self):
        try:
            while len(self.d) > self.cap:
                k, v = self.d.popitem()
                self.cb(k, v)
        except Exception:
            pass
    def shrink_ok(self):
        while len(self.d) > max(0, self.cap):
            k, v = self.d.popitem()
            try:
                self.cb(k, v)
            except Exception:
                pass
    def shrink_empty(self):
        while len(self.d) >= self.cap:
            self.d.popitem()


class _HzRing:
    def __init__(self, n):
        self.n = n
        self.items = []

    def __len__(self):
        return len(self.items)

    def add(self, x):
        self.items.append(x)


def _hz_truthy(n, xs):
    ring = _HzRing(n) if n > 0 else None
    out = 0
    for x in xs:
        if ring:
            ring.add(x)
            out += 1
    return out


def _hz_truthy_ok(n, xs):
    ring = _HzRing(n) if n > 0 else None
    out = 0
    for x in xs:
        if ring is not None:
            ring.add(x)
            out += 1
    return out


def _hz_view(state, k):
    g = getattr(state, "graph", None)
    g.setdefault("edges", {})
    rec = g.get("edges", {}).get(k)
    if not isinstance(rec, dict):
        return 0.0
    return rec.get("weight", 0.0)


def _hz_view_ok(state, k):
    from collections.abc import Mapping
    g = getattr(state, "graph", None) or {}
    rec = g.get("edges", {}).get(k)
    if not isinstance(rec, Mapping):
        return 0.0
    out = dict(rec)
    out.setdefault("weight", 0.0)
    return out["weight"]


def _hz_rebind(frontier, entry, cap):
    frontier.append(entry)
    if len(frontier) > cap:
        frontier = sorted(frontier)[:cap]
    return len(frontier)


def _hz_rebind_ok(frontier, entry, cap):
    frontier.append(entry)
    if len(frontier) > cap:
        frontier[:] = sorted(frontier)[:cap]
    return len(frontier)
'''


def controls(ctx, host_module: str, kinds: Sequence[str]) -> str:
    """run the named hazard queries on synthetic functions appended (in memory) to a module of the program; raises
    AnalysisError if a query does not report the broken probe or reports the sound one"""
    from .model import AnalysisError
    from .report import Ctx as _Ctx
    host = ctx.prog.module(host_module)
    q = ctx.prog.with_override(host.rel, host.src + "\n" + _PROBES)
    pc = _Ctx(q, ctx.prop, ctx.tier)
    m = q.module(host_module)
    f = lambda nm: m.funcs[[k for k in m.funcs if k.split(".")[-1] == nm and ("_HzBox" in k) == nm.startswith("shrink")][0]]
    got = {}
    if "unbound" in kinds:
        got["unbound"] = (len(unbound_after_handler(pc, f("_hz_unbound"))), len(unbound_after_handler(pc, f("_hz_unbound_ok"))))
    if "oneshot" in kinds:
        got["oneshot"] = (len(single_use_multi_iter(pc, f("_hz_gen"))), len(single_use_multi_iter(pc, f("_hz_gen_ok"))))
    if "memo" in kinds:
        memo, hits = memo_shared_mutation(pc, [host_module])
        mine = [h for h in hits if h[0].name.startswith("_hz_")]
        got["memo"] = (len([h for h in mine if h[0].name == "_hz_memo_user"]), len([h for h in mine if h[0].name == "_hz_memo_user_ok"]))
    if "loop" in kinds:
        def loops(fn):
            return [x for x in walk_no_defs(fn.node) if isinstance(x, ast.While)]
        a, b, c = f("shrink"), f("shrink_ok"), f("shrink_empty")
        got["loop"] = (len(loop_escapes(pc, a, loops(a)[0])), len(loop_escapes(pc, b, loops(b)[0])))
        got["nonempty"] = (int(not nonempty_implied(loops(c)[0].test, "self.d")), int(not nonempty_implied(loops(b)[0].test, "self.d")))
    if "state" in kinds:
        g = lambda nm: m.funcs[[k for k in m.funcs if k.split(".")[-1] == nm][0]]
        got["default"] = (len(mutable_defaults(pc, g("_hz_default"))), len(mutable_defaults(pc, g("_hz_default_ok"))))
        sh = [o for o in shared_class_state(pc, host_module) if o[0] == "_HzShared"]
        got["classattr"] = (len([o for o in sh if o[1] == "seen"]), len([o for o in sh if o[1] == "tags"]))
    if "io" in kinds:
        g = lambda nm: m.funcs[[k for k in m.funcs if k.split(".")[-1] == nm][0]]
        got["rawwrite"] = (len(raw_write_unchecked(pc, g("_hz_rawwrite"))), len(raw_write_unchecked(pc, g("_hz_rawwrite_ok"))))
    if "iter" in kinds:
        g = lambda nm: m.funcs[[k for k in m.funcs if k.split(".")[-1] == nm][0]]
        got["itermut"] = (len(mutation_during_iteration(pc, g("_hz_prune"))), len(mutation_during_iteration(pc, g("_hz_prune_ok"))))
    if "template" in kinds:
        tc = shallow_template_copies(pc, host_module)
        got["template"] = (len([o for o in tc if o[0].name == "_hz_template"]), len([o for o in tc if o[0].name == "_hz_template_ok"]))
    if "late" in kinds:
        g = lambda nm: m.funcs[[k for k in m.funcs if k.split(".")[-1] == nm][0]]
        got["late"] = (len(late_binding_closures(pc, g("_hz_late"))), len(late_binding_closures(pc, g("_hz_late_ok"))))
    if "truthy" in kinds:
        g = lambda nm: m.funcs[[k for k in m.funcs if k.split(".")[-1] == nm][0]]
        got["truthy"] = (len(optional_container_truthiness(pc, g("_hz_truthy"))), len(optional_container_truthiness(pc, g("_hz_truthy_ok"))))
    if "rebind" in kinds:
        g = lambda nm: m.funcs[[k for k in m.funcs if k.split(".")[-1] == nm][0]]
        got["rebind"] = (len(lost_param_rebinding(pc, g("_hz_rebind"))), len(lost_param_rebinding(pc, g("_hz_rebind_ok"))))
    if "view" in kinds:
        g = lambda nm: m.funcs[[k for k in m.funcs if k.split(".")[-1] == nm][0]]
        a, b = frozen_view_hazards(pc, [(g("_hz_view"), "state")]), frozen_view_hazards(pc, [(g("_hz_view_ok"), "state")])
        got["viewgate"] = (len(a[0]), len(b[0]))
        got["viewmut"] = (len(a[1]), len(b[1]))
    bad = {k: v for k, v in got.items() if not (v[0] >= 1 and v[1] == 0)}
    if bad:
        raise AnalysisError(f"hazard positive control failed: {bad}")
    return ", ".join(f"{k}: broken probe reported {v[0]}x, sound probe 0x" for k, v in sorted(got.items()))


_CONTAINER_TYPES = {"dict", "list", "tuple", "set"}
_CONTAINER_MUTATORS = {"setdefault", "append", "extend", "update", "pop", "popitem", "clear", "insert", "remove", "add", "sort", "reverse", "discard"}


def _view_derivation(prog, fn: Func, roots, derived0, _depth: int = 0):
    """(derived names, rooted) for fn when the parameters `roots` hold the viewed object and `derived0` values taken out of it"""
    derived = set(derived0)

    def rooted(e: ast.AST) -> int:
        """0 = unrelated, 1 = the viewed object itself, 2 = a value taken out of it"""
        if isinstance(e, ast.Name):
            return 2 if e.id in derived else (1 if e.id in roots else 0)
        if isinstance(e, (ast.Attribute, ast.Subscript)):
            return 2 if rooted(e.value) else 0
        if isinstance(e, ast.Call):
            f = e.func
            if isinstance(f, ast.Name) and f.id == "getattr" and e.args:
                return 2 if rooted(e.args[0]) else 0
            if isinstance(f, ast.Attribute) and f.attr in ("get", "items", "values"):
                return 2 if rooted(f.value) else 0
            # a program function that hands back (part of) what it was given
            if _depth < 2 and any(rooted(a) for a in e.args if not isinstance(a, ast.Starred)):
                r = prog.callee(fn, e)
                if r and r[0] == "func" and prog.has_func(r[1]):
                    cal = prog.func(r[1])
                    ps = [p for p in cal.params if p not in ("self", "cls")]
                    nr = {ps[i] for i, a in enumerate(e.args) if i < len(ps) and not isinstance(a, ast.Starred) and rooted(a) == 1}
                    nd = {ps[i] for i, a in enumerate(e.args) if i < len(ps) and not isinstance(a, ast.Starred) and rooted(a) == 2}
                    _, rt = _view_derivation(prog, cal, frozenset(nr), frozenset(nd), _depth + 1)
                    if any(isinstance(y, ast.Return) and y.value is not None and rt(y.value) for y in walk_no_defs(cal.node)):
                        return 2
            return 0
        if isinstance(e, ast.BoolOp):
            return max(rooted(v) for v in e.values)
        if isinstance(e, ast.IfExp):
            return max(rooted(e.body), rooted(e.orelse))
        if isinstance(e, ast.NamedExpr):
            return rooted(e.value)
        return 0

    for _ in range(3):
        for x in walk_no_defs(fn.node):
            if isinstance(x, ast.Assign) and len(x.targets) == 1 and isinstance(x.targets[0], ast.Name) and rooted(x.value) == 2:
                derived.add(x.targets[0].id)
            elif isinstance(x, ast.AnnAssign) and isinstance(x.target, ast.Name) and x.value is not None and rooted(x.value) == 2:
                derived.add(x.target.id)
            elif isinstance(x, ast.NamedExpr) and isinstance(x.target, ast.Name) and rooted(x.value) == 2:
                derived.add(x.target.id)
            elif isinstance(x, (ast.For, ast.comprehension)) and rooted(x.iter) == 2:
                names = [y for y in ast.walk(x.target) if isinstance(y, ast.Name)]
                # `for k, v in d.items()`: only the value is taken out of the view
                if isinstance(x.iter, ast.Call) and isinstance(x.iter.func, ast.Attribute) and x.iter.func.attr == "items" and isinstance(x.target, ast.Tuple) and len(x.target.elts) == 2:
                    names = [y for y in ast.walk(x.target.elts[1]) if isinstance(y, ast.Name)]
                derived |= {y.id for y in names}
        derived -= set(roots)
    return derived, rooted


def frozen_view_hazards(ctx, entries: Sequence[Tuple[Func, str]], depth: int = 3, within: Sequence[str] = ()):
    """A facade that hands out the containers of an object as read-only VIEWS (mappings that are not dicts, sequences that
    are not lists, no mutators) breaks two kinds of reader code, silently: (a) a test of the EXACT container type
    (`isinstance(v, dict)`) on a value taken out of the viewed object - the false branch treats real data as absent; (b) an
    in-place completion of such a value (`v.setdefault(...)`, `v[k] = ...`) - it raises on the view (and edits the caller's
    object when it does not).  `entries` are (function, parameter) pairs naming where the viewed object enters; values derived
    from it are followed through assignments, loops over them, program functions that hand them back and calls into program
    functions (to `depth`, inside the module prefixes `within`).
    Returns (gates, mutations): lists of (Func, node, text of the value)."""
    prog = ctx.prog
    gates, muts = [], []
    seen = set()
    work = [(fn, frozenset([p]), frozenset(), 0) for fn, p in entries]
    while work:
        fn, roots, derived0, d = work.pop()
        key = (fn.qual, roots, derived0)
        if key in seen:
            continue
        seen.add(key)
        derived, rooted = _view_derivation(prog, fn, roots, derived0)
        for x in walk_no_defs(fn.node):
            if isinstance(x, ast.Call) and isinstance(x.func, ast.Name) and x.func.id == "isinstance" and len(x.args) == 2 and rooted(x.args[0]) == 2:
                tys = x.args[1].elts if isinstance(x.args[1], ast.Tuple) else [x.args[1]]
                names = {dotted(t) or "" for t in tys}
                if names and names <= _CONTAINER_TYPES:
                    gates.append((fn, x, src(x.args[0])))
            elif isinstance(x, ast.Call) and isinstance(x.func, ast.Attribute) and x.func.attr in _CONTAINER_MUTATORS and rooted(x.func.value) == 2:
                muts.append((fn, x, src(x.func.value)))
            elif isinstance(x, (ast.Assign, ast.AugAssign, ast.Delete)):
                tg = x.targets if isinstance(x, (ast.Assign, ast.Delete)) else [x.target]
                for t in tg:
                    if isinstance(t, ast.Subscript) and rooted(t.value) == 2:
                        muts.append((fn, x, src(t.value)))
        if d >= depth:
            continue
        for x in walk_no_defs(fn.node):
            if not isinstance(x, ast.Call):
                continue
            r = prog.callee(fn, x)
            if not r or r[0] != "func" or not prog.has_func(r[1]):
                continue
            cal = prog.func(r[1])
            if within and not any(cal.module.name.startswith(w) for w in within):
                continue
            ps = [p for p in cal.params if p not in ("self", "cls")]
            nr, nd = set(), set()
            for i, a in enumerate(x.args):
                if i < len(ps) and not isinstance(a, ast.Starred):
                    k = rooted(a)
                    (nr if k == 1 else nd if k == 2 else set()).add(ps[i])
            for kw in x.keywords:
                if kw.arg in ps:
                    k = rooted(kw.value)
                    (nr if k == 1 else nd if k == 2 else set()).add(kw.arg)
            if nr or nd:
                work.append((cal, frozenset(nr), frozenset(nd), d + 1))
    # one report per site
    uniq = lambda rows: list({(f.qual, getattr(n, "lineno", 0), getattr(n, "col_offset", 0)): (f, n, t) for f, n, t in rows}.values())
    return uniq(gates), uniq(muts)


def conversions_under_loop_wide_try(ctx, fn) -> List[Tuple[ast.AST, ast.Try, ast.AST]]:
    """numeric conversions (float / int of a non-constant) of an element's field that sit in the body of a loop whose only
    guard is a try wrapped around the WHOLE loop with a handler that swallows: the first element that fails to convert ends
    the loop, and every later element is silently missing from what the loop was building.  Returns (conversion, try, loop)."""
    out = []
    for t in [x for x in walk_no_defs(fn.node) if isinstance(x, ast.Try)]:
        swallow = [h for h in t.handlers if not any(isinstance(y, (ast.Raise, ast.Return)) for st in h.body for y in ast.walk(st))]
        if not swallow:
            continue
        for lp in [st for st in t.body if isinstance(st, (ast.For, ast.While))] + [y for st in t.body if isinstance(st, ast.If) for y in ast.walk(st) if isinstance(y, (ast.For, ast.While))]:
            fills = any(isinstance(y, ast.Assign) and any(isinstance(tt, ast.Subscript) for tt in y.targets) or (isinstance(y, ast.Call) and isinstance(y.func, ast.Attribute) and y.func.attr in ("append", "add", "extend"))
                        for st in lp.body for y in ast.walk(st))
            if not fills:
                continue
            inner_guarded = set()
            for st in lp.body:
                for y in ast.walk(st):
                    if isinstance(y, ast.Try):
                        for b in y.body:
                            inner_guarded |= {id(z) for z in ast.walk(b)}
            # names that hold (parts of) the current element
            elem = {y.id for y in ast.walk(lp.target) if isinstance(y, ast.Name)} if isinstance(lp, ast.For) else set()
            for _ in range(2):
                for st in lp.body:
                    for y in ast.walk(st):
                        if isinstance(y, ast.Assign) and any(isinstance(z, ast.Name) and z.id in elem for z in ast.walk(y.value)):
                            elem |= {tt.id for tt in y.targets if isinstance(tt, ast.Name)}
            for st in lp.body:
                for y in ast.walk(st):
                    if isinstance(y, ast.Call) and isinstance(y.func, ast.Name) and y.func.id in ("float", "int") and y.args and not isinstance(y.args[0], ast.Constant) and id(y) not in inner_guarded \
                            and any(isinstance(z, ast.Name) and z.id in elem for z in ast.walk(y.args[0])):
                        out.append((y, t, lp))
    return out


def sized_classes(ctx) -> Set[str]:
    """names of the program's classes whose instances can be falsy while they exist: they define __len__ or __bool__"""
    out = set()
    for f in ctx.prog.funcs.values():
        if f.cls and f.name in ("__len__", "__bool__"):
            out.add(f.cls.split(".")[-1])
    return out


def optional_container_truthiness(ctx, fn) -> List[Tuple[ast.AST, str, str]]:
    """`if x:` / `x and ...` where x is either None or an instance of a class that defines __len__ / __bool__: the test means
    "x was configured", but an empty container is falsy too - right after construction the branch that uses x is skipped, x is
    never filled, and the feature it implements never engages.  Returns (test operand, name, class)."""
    from .zero import truthy_operands
    sized = sized_classes(ctx)
    if not sized:
        return []
    cfg = ctx.cfg(fn)
    rd = ctx.rd(fn)
    out = []

    def cls_of(v: ast.AST, optional: List[bool]) -> Optional[str]:
        if isinstance(v, ast.IfExp):
            a, b = cls_of(v.body, optional), cls_of(v.orelse, optional)
            return a or b
        if isinstance(v, ast.Constant) and v.value is None:
            optional.append(True)
            return None
        if isinstance(v, ast.Call):
            t = (dotted(v.func) or "").split(".")[-1]
            return t if t in sized else None
        return None

    for n in cfg.nodes:
        tests = []
        if n.kind in ("cond", "branch") and n.ast is not None and not isinstance(n.ast, (ast.For, ast.While)):
            tests.append(n.ast)
        elif n.kind == "branch" and isinstance(n.ast, ast.While):
            tests.append(n.ast.test)
        for e in node_exprs_safe(n):
            for x in ast.walk(e):
                if isinstance(x, ast.IfExp):
                    tests.append(x.test)
        for t in tests:
            for op in truthy_operands(t):
                if not isinstance(op, ast.Name):
                    continue
                optional: List[bool] = []
                classes = set()
                ds = [d for d in rd.reaching(op.id, n) if d.kind != "mutate"]
                if not ds:
                    # a free variable of a closure: look at the enclosing function's definitions
                    par = fn.parent
                    if par is not None:
                        ds = [d for d in ctx.rd(par).all_defs if d.name == op.id and d.kind != "mutate"]
                for d in ds:
                    if d.value is None:
                        continue
                    c = cls_of(d.value, optional)
                    if c:
                        classes.add(c)
                if classes and optional and not any(o[0] is op for o in out):
                    out.append((op, op.id, sorted(classes)[0]))
    return out


def node_exprs_safe(n):
    from .dataflow import node_exprs
    try:
        return node_exprs(n)
    except Exception:
        return []


def lost_param_rebinding(ctx, fn) -> List[Tuple[str, ast.AST]]:
    """a function edits the object a parameter refers to in place (append / heappush / subscript store ...) and ALSO re-binds
    that parameter name to a new object derived from it (`p = sorted(p)[:n]`, `p = nsmallest(n, p)`) without returning it or
    writing it back through the old object (`p[:] = ..`): the caller still holds the old object, so everything done from the
    re-binding on - the trim, the filter, the reorder - is lost.  Returns (parameter, rebinding statement)."""
    out = []
    params = [p for p in fn.params if p not in ("self", "cls")]
    if not params:
        return out
    returned = set()
    for r in [x for x in walk_no_defs(fn.node) if isinstance(x, ast.Return) and x.value is not None]:
        # handed back as the object itself (or as an element of a returned tuple / list), not merely measured (len(p))
        vals = [r.value] + (list(r.value.elts) if isinstance(r.value, (ast.Tuple, ast.List)) else [])
        returned |= {y.id for y in vals if isinstance(y, ast.Name)}
    cfg = ctx.cfg(fn)

    def mutates(x: ast.AST, p: str) -> bool:
        if isinstance(x, ast.Call):
            if isinstance(x.func, ast.Attribute) and x.func.attr in MUTATING_TAILS and isinstance(x.func.value, ast.Name) and x.func.value.id == p:
                return True
            if (dotted(x.func) or "").split(".")[-1] in ("heappush", "heappop", "heapify", "heapreplace", "heappushpop", "shuffle", "insort") and x.args and isinstance(x.args[0], ast.Name) and x.args[0].id == p:
                return True
        if isinstance(x, (ast.Assign, ast.AugAssign)):
            for t in (x.targets if isinstance(x, ast.Assign) else [x.target]):
                if isinstance(t, ast.Subscript) and isinstance(t.value, ast.Name) and t.value.id == p:
                    return True
        return False

    for p in params:
        if p in returned:
            continue
        if any(isinstance(y, (ast.Nonlocal, ast.Global)) and p in y.names for y in walk_no_defs(fn.node)):
            continue  # the re-binding is visible to the owner of the name
        mut_nodes = [n for n in cfg.nodes if n.ast is not None and n.kind in ("stmt", "cond", "iter") and any(mutates(x, p) for x in (walk_no_defs(n.ast) if n.kind == "stmt" else ast.walk(n.ast)))]
        for n in cfg.nodes:
            x = n.ast
            if n.kind == "stmt" and isinstance(x, ast.Assign) and any(isinstance(t, ast.Name) and t.id == p for t in x.targets) and any(isinstance(y, ast.Name) and y.id == p for y in ast.walk(x.value)) \
                    and not isinstance(x.value, ast.Name):
                # the caller's object was edited BEFORE the name moved on: the caller was meant to see this function's work
                if any(n in cfg.reach([m], include_start=False) for m in mut_nodes if m is not n):
                    out.append((p, x))
    return out
