"""E10 zero-is-a-value discipline: values for which 0 is meaningful (provenance indices, budgets, caps) must be told apart
from "absent" by identity (`is None`), never by truthiness and never by a positivity test that routes 0 to the
"absent" arm.  On-demand taint from rule-supplied sources; reports the construct that conflates 0 with None."""
from __future__ import annotations

import ast
from typing import Callable, Dict, Iterator, List, Optional, Set, Tuple

from .dataflow import Taint
from .model import Func, dotted, src, walk_no_defs

KEEP_CALLS = {"min", "max", "int", "float", "abs", "round"}


def truthy_operands(test: ast.AST) -> List[ast.AST]:
    """sub-expressions whose *truthiness* (not identity / ordering) decides `test`"""
    if isinstance(test, ast.UnaryOp) and isinstance(test.op, ast.Not):
        return truthy_operands(test.operand)
    if isinstance(test, ast.BoolOp):
        return [y for v in test.values for y in truthy_operands(v)]
    if isinstance(test, (ast.Name, ast.Attribute, ast.Subscript)):
        return [test]
    if isinstance(test, ast.Call):
        d = dotted(test.func) or ""
        if d == "bool" and test.args:
            return truthy_operands(test.args[0])
        if d in KEEP_CALLS or (isinstance(test.func, ast.Attribute) and test.func.attr == "get"):
            return [test]
    return []


def _zero_compare(test: ast.AST) -> Optional[Tuple[ast.AST, str]]:
    """`v > 0`, `v >= 1`, `v != 0`, `0 < v`: true for every value except 0 (and negatives) -> (v, text)"""
    if not (isinstance(test, ast.Compare) and len(test.ops) == 1):
        return None
    l, op, r = test.left, test.ops[0], test.comparators[0]

    def const(e):
        return e.value if isinstance(e, ast.Constant) and isinstance(e.value, (int, float)) and not isinstance(e.value, bool) else None

    if const(r) is not None and const(l) is None:
        c = const(r)
        if (isinstance(op, ast.Gt) and c == 0) or (isinstance(op, ast.GtE) and c == 1) or (isinstance(op, ast.NotEq) and c == 0):
            return l, src(test)
    if const(l) is not None and const(r) is None:
        c = const(l)
        if (isinstance(op, ast.Lt) and c == 0) or (isinstance(op, ast.LtE) and c == 1) or (isinstance(op, ast.NotEq) and c == 0):
            return r, src(test)
    return None


class ZeroIsValue:
    def __init__(self, ctx, fn: Func, source: Callable[[ast.AST], bool], opt_params: Set[str] = frozenset(), label: str = "Z", coll_params: Set[str] = frozenset()):
        self.ctx, self.fn, self.label = ctx, fn, label
        self.cfg = ctx.cfg(fn)
        self.rd = ctx.rd(fn)
        L, LS = label, label + "S"

        def src_fn(e, n):
            return {L} if source(e) else set()

        def cleanse(e, at, labels):
            if L not in labels and LS not in labels:
                return labels
            if isinstance(e, ast.Compare) or (isinstance(e, ast.BinOp) and not isinstance(e.op, (ast.Add, ast.Sub))):
                return set(labels) - {L, LS}
            if isinstance(e, (ast.Attribute, ast.Subscript)) and not source(e):
                return set(labels) - {L, LS}  # a field / element / slice of something is not the value itself
            if isinstance(e, ast.Call):
                d = dotted(e.func) or ""
                is_src = source(e)
                if not is_src and d not in KEEP_CALLS and d not in ("list", "tuple", "sorted"):
                    return set(labels) - {L, LS}
                if d in ("min", "max") and LS in labels:
                    return (set(labels) - {LS}) | {L}
            if isinstance(e, (ast.List, ast.Tuple, ast.Set, ast.ListComp, ast.SetComp, ast.GeneratorExp, ast.Dict, ast.DictComp)) and L in labels:
                return (set(labels) - {L}) | {LS}
            return labels

        self.taint = Taint(self.rd, src_fn, cleanse=cleanse, param_labels=lambda nm: {L} if nm in opt_params else ({LS} if nm in coll_params else set()))
        self._source = source
        self.n_sources = 0

    def callee_conflations(self, depth: int = 1) -> Iterator[Tuple[ast.AST, str, str]]:
        """labelled values handed to a repository helper: the helper is examined with the receiving parameters labelled
        (a *varargs parameter receives a collection of labelled values)"""
        if depth <= 0:
            return
        L = self.label
        for n in self.cfg.nodes:
            if n.ast is None or n.kind not in ("stmt", "cond"):
                continue
            for c in [x for x in walk_no_defs(n.ast) if isinstance(x, ast.Call)]:
                cal = self.ctx.prog.callee(self.fn, c)
                if cal is None or cal[0] != "func" or cal[1] not in self.ctx.prog.funcs or cal[1] == self.fn.qual:
                    continue
                callee = self.ctx.prog.funcs[cal[1]]
                a = callee.node.args
                pos = [x.arg for x in a.posonlyargs + a.args]
                if callee.cls is not None and pos and pos[0] in ("self", "cls"):
                    pos = pos[1:]
                opt, coll = set(), set()
                for i, arg in enumerate(c.args):
                    if L in self.taint.of(arg, n):
                        if i < len(pos):
                            opt.add(pos[i])
                        elif a.vararg is not None:
                            coll.add(a.vararg.arg)
                for kw in c.keywords:
                    if kw.arg and L in self.taint.of(kw.value, n):
                        opt.add(kw.arg)
                if not opt and not coll:
                    continue
                sub = ZeroIsValue(self.ctx, callee, self._source, opt_params=opt, label=self.label, coll_params=coll)
                for e, t, k in sub.conflations():
                    yield c, f"{callee.name}: {t}", k + f" inside {callee.name}"

    def conflations(self, positivity: bool = True) -> Iterator[Tuple[ast.AST, str, str]]:
        """(expression, enclosing test text, kind) for every truthiness / positivity test of a labelled value"""
        L, LS = self.label, self.label + "S"
        t = self.taint
        reach = self.cfg.reachable_from_entry()
        for n in self.cfg.nodes:
            if n not in reach or n.ast is None:
                continue
            tests: List[Tuple[ast.AST, dict]] = []
            if n.kind == "cond":
                tests.append((n.ast, {}))
            roots = [n.ast] if n.kind in ("stmt", "cond") else ([n.ast.iter] if n.kind == "iter" else [])
            for e in roots:
                for x in walk_no_defs(e):
                    if isinstance(x, ast.IfExp):
                        tests.append((x.test, {}))
                    if isinstance(x, ast.BoolOp) and not (n.kind == "cond" and x is n.ast):
                        for v in x.values[:-1]:
                            tests.append((v, {}))
                    if isinstance(x, (ast.ListComp, ast.SetComp, ast.GeneratorExp, ast.DictComp)):
                        b: Dict[str, frozenset] = {}
                        for g in x.generators:
                            lab = set(t.of(g.iter, n, b))
                            if LS in lab:
                                lab = (lab - {LS}) | {L}
                            for nm in ast.walk(g.target):
                                if isinstance(nm, ast.Name):
                                    b[nm.id] = frozenset(lab)
                            for cond in g.ifs:
                                tests.append((cond, dict(b)))
            # loop variables over a collection of labelled values are labelled values
            loopb: Dict[str, frozenset] = {}
            cur = getattr(n, "stmt", None)
            pm = self.ctx.prog.parents(self.fn.node)
            anc = n.ast
            while anc is not None and id(anc) in pm:
                anc = pm[id(anc)]
                if isinstance(anc, (ast.For, ast.AsyncFor)) and isinstance(anc.target, ast.Name):
                    hn = self.cfg.nodes_of(anc)
                    lab = set(t.of(anc.iter, hn[0] if hn else n))
                    if LS in lab or L in lab:
                        loopb[anc.target.id] = frozenset({L})
            tests = [(tt, {**loopb, **bb}) for tt, bb in tests]
            for test, b in tests:
                for op in truthy_operands(test):
                    if L in t.of(op, n, b):
                        yield op, src(test), "truthiness"
                if positivity:
                    stack = [test]
                    while stack:
                        y = stack.pop()
                        if isinstance(y, ast.BoolOp):
                            stack += list(y.values)
                        elif isinstance(y, ast.UnaryOp) and isinstance(y.op, ast.Not):
                            stack.append(y.operand)
                        else:
                            zc = _zero_compare(y)
                            if zc is not None and L in t.of(zc[0], n, b):
                                yield zc[0], zc[1], "positivity"


BUDGET_KEYS = {"t3_ops", "t2_k", "t1_iters", "t1_pops"}


def budget_source(fn: Func) -> Callable[[ast.AST], bool]:
    """reads of a per-slice work budget: `.get("<key>")`, `[...]["<key>"]`, and `.get(k)` / `[k]` with k bound by a `for`
    over a literal tuple that contains budget keys"""
    from .model import const_str
    from .util import call_tail
    loop_keys: Set[str] = set()
    for x in walk_no_defs(fn.node):
        if isinstance(x, ast.For) and isinstance(x.target, ast.Name) and isinstance(x.iter, (ast.Tuple, ast.List)):
            ks = {const_str(e) for e in x.iter.elts}
            if ks & BUDGET_KEYS:
                loop_keys.add(x.target.id)

    def key_ok(k: ast.AST) -> bool:
        return const_str(k) in BUDGET_KEYS or (isinstance(k, ast.Name) and k.id in loop_keys)

    def source(e: ast.AST) -> bool:
        if isinstance(e, ast.Call) and call_tail(e) == "get" and e.args and key_ok(e.args[0]):
            return True
        if isinstance(e, ast.Subscript) and key_ok(e.slice):
            return True
        return False

    return source


def zero_budget_rule(ctx, rule: str, modules: List[str], floor: int) -> None:
    """a per-slice budget of 0 is legal and must bind like any other value: no reader tests a budget by truthiness or by a
    positivity compare (both send 0 down the 'no budget' arm)"""
    n_readers = 0
    for mod in modules:
        if mod not in ctx.prog.modules:
            continue
        ctx.analysed_modules.add(mod)
        for fn in ctx.prog.module(mod).funcs.values():
            source = budget_source(fn)
            if not any(source(x) for x in walk_no_defs(fn.node)):
                continue
            n_readers += 1
            z = ZeroIsValue(ctx, fn, source)
            bad = list(z.conflations())
            ctx.check(not bad, rule, f"{fn.qual}/zero-budget-binds", fn.loc(bad[0][0]) if bad else fn.loc(),
                      "slice budgets are told apart from 'absent' by `is None` only",
                      (f"`{src(bad[0][0])[:40]}` (a per-slice budget) is tested by {bad[0][2]} in `{bad[0][1][:50]}`: the legal budget 0 is treated as 'no budget', "
                       "so a zero-budget slice plans / retrieves / propagates up to the per-turn cap and the boundary check never fires") if bad else "")
    ctx.floor(rule, "functions reading per-slice budgets", n_readers, floor)


# ------------------------------------------------------------------ a cap binds before the work it limits
def _cap_compare(e: ast.AST):
    """(counter source, cap source) if e is `C >= CAP` / `C > CAP` / `CAP <= C` / `CAP < C` with C = len(X) or a name"""
    if not (isinstance(e, ast.Compare) and len(e.ops) == 1):
        return None
    l, op, r = e.left, e.ops[0], e.comparators[0]
    if isinstance(op, (ast.LtE, ast.Lt)):
        l, r = r, l
    elif not isinstance(op, (ast.GtE, ast.Gt)):
        return None

    def counter(x):
        if isinstance(x, ast.Call) and dotted(x.func) == "len" and len(x.args) == 1 and isinstance(x.args[0], (ast.Name, ast.Attribute)):
            return ("len", src(x.args[0]))
        if isinstance(x, ast.Name):
            return ("num", x.id)
        return None

    c = counter(l)
    if c is None or isinstance(r, ast.Constant):
        return None
    return c, src(r)


def cap_tested_after_only(ctx, fn: Func) -> List[Tuple[ast.AST, str, str]]:
    """(growth construct, counter, cap) where a loop stops with `if <counter> >= <cap>: break` but the unit of work that grows
    the counter (X.append / n += 1) can be reached from the head of the budgeted loop without passing any test of that
    comparison: with cap 0 (a legal 'nothing' budget) one unit of work is still done"""
    cfg = ctx.cfg(fn)
    out = []
    groups: Dict[Tuple[Tuple[str, str], str], List] = {}
    for n in cfg.nodes:
        if n.kind != "cond" or n.ast is None:
            continue
        for e in ast.walk(n.ast):
            cc = _cap_compare(e)
            if cc is not None:
                groups.setdefault(cc, []).append(n)
    if not groups:
        return out
    pm: Dict[int, ast.AST] = {}
    for p in ast.walk(fn.node):
        for ch in ast.iter_child_nodes(p):
            pm[id(ch)] = p

    def loops_of(a):
        res = []
        cur = a
        while id(cur) in pm:
            cur = pm[id(cur)]
            if isinstance(cur, (ast.For, ast.While, ast.AsyncFor)):
                res.append(cur)
            if isinstance(cur, (ast.FunctionDef, ast.AsyncFunctionDef, ast.Lambda)):
                break
        return res

    for ((kind, cname), cap), conds in groups.items():
        # only budgets that stop a loop: some guard's true-branch leads to a break / return / stop flag
        stops = [c for c in conds if isinstance(c.stmt, ast.If) and any(isinstance(z, (ast.Break, ast.Return)) or (isinstance(z, ast.Assign) and isinstance(z.value, ast.Constant) and z.value.value is True)
                                                                       for b in c.stmt.body for z in ast.walk(b))]
        if not stops:
            continue
        cond_loops = [l for c in stops for l in loops_of(c.stmt)]
        growth = []
        for n in cfg.nodes:
            if n.kind != "stmt" or n.ast is None:
                continue
            a = n.ast
            if kind == "len" and isinstance(a, ast.Expr) and isinstance(a.value, ast.Call) and isinstance(a.value.func, ast.Attribute) and a.value.func.attr in ("append", "add", "extend", "appendleft") \
                    and src(a.value.func.value) == cname:
                growth.append(n)
            if kind == "num" and isinstance(a, ast.AugAssign) and isinstance(a.op, ast.Add) and isinstance(a.target, ast.Name) and a.target.id == cname:
                growth.append(n)
        for g in growth:
            gl = loops_of(g.ast)
            shared = [l for l in gl if any(l is cl for cl in cond_loops)]
            if not shared:
                continue
            outer = shared[-1]
            heads = [h for h in cfg.nodes if h.kind == "iter" and h.ast is outer] or [h for h in cfg.nodes if h.kind == "cond" and h.stmt is outer]
            if not heads:
                continue
            p = cfg.path(heads, lambda m: m is g, avoid=lambda m: m in conds, include_start=True)
            if p is not None:
                out.append((g.ast, f"{'len(' + cname + ')' if kind == 'len' else cname}", cap))
    return out


def zero_cap_rule(ctx, rule: str, quals: List[str], floor: int) -> None:
    """for the named functions: every loop budget `if <counter> >= <cap>: break` is also tested before the unit of work it
    limits - unless the validator never lets the cap be 0 (minimum read from its own `< N -> error` tests) or every return of
    the collected list is cut to the cap.  A budget of 0 is a legal setting ("caps incl. 0"): testing it only after the first
    unit of work lets one unit through."""
    from .rules.c14 import _validator_minimum
    n_groups = 0
    for q in quals:
        fn = ctx.func(q)
        cfg = ctx.cfg(fn)
        n_groups += sum(1 for n in cfg.nodes if n.kind == "cond" and n.ast is not None and any(_cap_compare(e) is not None for e in ast.walk(n.ast)))
        seen = set()
        for g, counter, cap in cap_tested_after_only(ctx, fn):
            if (counter, cap) in seen:
                continue
            seen.add((counter, cap))
            leaf = cap.replace("int(", "").replace("float(", "").strip("()").split(".")[-1]
            vmin, n_sites = _validator_minimum(ctx, leaf)
            key = f"{fn.qual}/zero-cap-binds:{leaf}"
            if vmin is not None and vmin >= 1:
                ctx.holds(rule, key, fn.loc(g), f"`{cap}` is tested after the first `{src(g)[:30]}` only, but the validator keeps {leaf} >= {vmin}", nontrivial=False)
                continue
            # every return of the collected list is cut to the cap
            cname = counter[4:-1] if counter.startswith("len(") else None
            rets = [r for r in walk_no_defs(fn.node) if isinstance(r, ast.Return) and r.value is not None and cname and any(isinstance(y, ast.Name) and y.id == cname for y in ast.walk(r.value))]
            if cname and rets and all(isinstance(r.value, ast.Subscript) and isinstance(r.value.slice, ast.Slice) and r.value.slice.upper is not None and leaf in src(r.value.slice.upper) for r in rets):
                ctx.holds(rule, key, fn.loc(g), f"`{cap}` is tested after the append only, but every return cuts `{cname}` to it", nontrivial=False)
                continue
            ctx.violation(rule, key, fn.loc(g), f"`{src(g)[:40]}` can be reached from the head of the budgeted loop without passing a test of `{counter} >= {cap}` (the test follows the work): "
                          f"with {leaf} = 0 - a legal 'nothing' budget - one unit of work is still done")
    ctx.floor(rule, "loop budget tests (counter >= cap) in the examined functions", n_groups, floor)
