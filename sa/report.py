"""Verdict model, known findings, evidence and the per-run context."""
from __future__ import annotations

import ast
import json
import os
import time
from dataclasses import dataclass, field
from typing import Any, Callable, Dict, Iterable, List, Optional, Sequence

from .cfg import CFG, Node, fmt_path
from .dataflow import ReachingDefs
from .model import AnalysisError, AnchorVanished, Func, Program

VERIF = os.path.dirname(os.path.dirname(os.path.abspath(__file__)))
KNOWN_FILE = os.path.join(VERIF, "known_findings.json")
EVIDENCE_DIR = os.path.join(VERIF, "evidence")

HOLDS = "HOLDS"
VIOLATION = "VIOLATION"
UNDECIDED = "UNDECIDED"
INFO = "INFO"

TRUSTED_BASE = [
    "A1: test-patch indirections (_get_stage_callable/_get_orch_callable/_get_logging_callable) resolve to their default target",
    "A2: no eval/exec or setattr-on-module outside the orchestrator facade (checked by rule SYS.DYN)",
    "A3: os.replace is atomic within one directory; a single write(2) on an O_APPEND descriptor is not interleaved (POSIX)",
    "A4: CPython dict insertion order; list.sort/sorted are stable",
    "A5: third-party/stdlib callees (numpy, json, hashlib, heapq, tempfile, os) behave as documented",
    "Python semantics as modelled by the statement CFG (sa/cfg.py): context managers do not swallow exceptions; "
    "comprehension bodies are single nodes",
]


@dataclass
class Result:
    rule: str
    status: str
    key: str  # construct key (qualified function + normalised atom); never a line number
    where: str  # file:line, for the human
    msg: str
    witness: List[str] = field(default_factory=list)
    nontrivial: bool = True

    def as_dict(self) -> Dict[str, Any]:
        d = {"rule": self.rule, "status": self.status, "key": self.key, "where": self.where, "msg": self.msg}
        if self.witness:
            d["witness"] = self.witness
        return d


class Ctx:
    """Per-run context shared by the rules of one property."""

    def __init__(self, prog: Program, prop: str, tier: str):
        self.prog = prog
        self.prop = prop
        self.tier = tier
        self.results: List[Result] = []
        self._cfg: Dict[str, CFG] = {}
        self._rd: Dict[str, ReachingDefs] = {}
        self._ordinals: Dict[str, int] = {}
        self.analysed_funcs: set = set()
        self.analysed_modules: set = set()
        self.cfg_nodes = 0
        self.paths_checked = 0
        self.notes: List[str] = []

    # ------------------------------------------------------------ engine
    def func(self, qual: str) -> Func:
        f = self.prog.func(qual)
        self.analysed_funcs.add(f.qual)
        self.analysed_modules.add(f.module.name)
        return f

    def cfg(self, fn: Func) -> CFG:
        c = self._cfg.get(fn.qual)
        if c is None:
            c = CFG(fn.node)
            self._cfg[fn.qual] = c
            self.cfg_nodes += len(c.nodes)
            self.analysed_funcs.add(fn.qual)
            self.analysed_modules.add(fn.module.name)
        return c

    def rd(self, fn: Func) -> ReachingDefs:
        r = self._rd.get(fn.qual)
        if r is None:
            r = ReachingDefs(self.cfg(fn))
            self._rd[fn.qual] = r
        return r

    # ----------------------------------------------------------- verdicts
    def okey(self, base: str) -> str:
        """stable instance key: `base#<ordinal>` in analysis order (no line numbers, no local spellings)"""
        n = self._ordinals.get(base, 0) + 1
        self._ordinals[base] = n
        return f"{base}#{n}"

    def holds(self, rule: str, key: str, where: str, msg: str, nontrivial: bool = True) -> None:
        self.results.append(Result(rule, HOLDS, key, where, msg, [], nontrivial))

    def violation(self, rule: str, key: str, where: str, msg: str, witness: Optional[Sequence[str]] = None) -> None:
        self.results.append(Result(rule, VIOLATION, key, where, msg, list(witness or [])))

    def undecided(self, rule: str, key: str, where: str, msg: str) -> None:
        self.results.append(Result(rule, UNDECIDED, key, where, msg, [], False))

    def info(self, rule: str, key: str, where: str, msg: str) -> None:
        self.results.append(Result(rule, INFO, key, where, msg, [], False))

    def floor(self, rule: str, what: str, count: int, minimum: int) -> None:
        """Vacuity backstop: fewer instances than confirmed by hand on the
        pinned tree means the anchors moved; the run is broken, not green."""
        if count < minimum:
            raise AnalysisError(f"instance-floor rule={rule} {what}: matched {count} < confirmed {minimum}")

    def check(self, cond: bool, rule: str, key: str, where: str, ok: str, bad: str,
              witness: Optional[Sequence[str]] = None, nontrivial: bool = True) -> bool:
        if cond:
            self.holds(rule, key, where, ok, nontrivial)
        else:
            self.violation(rule, key, where, bad, witness)
        return cond

    def path_witness(self, fn: Func, path: Optional[List[Node]]) -> List[str]:
        if not path:
            return []
        return [f"in {fn.qual} ({fn.module.rel})"] + fmt_path(fn, path)


def load_known() -> Dict[str, Any]:
    if not os.path.exists(KNOWN_FILE):
        return {"findings": [], "fixed": []}
    with open(KNOWN_FILE, "r", encoding="utf-8") as f:
        return json.load(f)


def known_index(prop: str) -> Dict[tuple, Dict[str, Any]]:
    out = {}
    for e in load_known().get("findings", []):
        if e.get("property") == prop:
            out[(e["rule"], e["key"])] = e
    return out


def write_evidence(ctx: Ctx, wall: float, fresh: List[Result], known: List[Result], seed: int,
                   extra: Optional[Dict[str, Any]] = None, explanation: str = "", rules_doc: Optional[Dict[str, str]] = None) -> str:
    os.makedirs(EVIDENCE_DIR, exist_ok=True)
    res = ctx.results
    obligations = [r for r in res if r.status in (HOLDS, VIOLATION)]
    discharged = [r for r in res if r.status == HOLDS]
    undecided = [r for r in res if r.status == UNDECIDED]
    distinct = {(r.rule, r.key) for r in obligations if r.nontrivial}
    by_rule: Dict[str, Dict[str, int]] = {}
    for r in res:
        d = by_rule.setdefault(r.rule, {})
        d[r.status] = d.get(r.status, 0) + 1
    samples = []
    seen_rules = set()
    for r in res:
        if r.status == VIOLATION or (r.rule not in seen_rules and r.status == HOLDS):
            samples.append(r.as_dict())
            seen_rules.add(r.rule)
    cov = {
        "explanation": explanation
        or "static analysis of /repo's current source: each obligation is one rule instance (function, call site, "
        "read site, writer or path set) decided over the statement CFG / def-use slices / call graph; nothing is executed",
        "obligations": len(obligations),
        "discharged": len(discharged),
        "undecided": len(undecided),
        "known_findings": len(known),
        "fresh_violations": len(fresh),
        "evaluations": len(res),
        "distinct_nontrivial": len(distinct),
        "rule": "one evaluation per rule instance; an instance is non-trivial when it was decided by a path, dominance, "
        "def-use or effect query (not a bare presence test); distinct = distinct (rule, construct-key) pairs",
        "samples": samples[:60],
        "by_rule": by_rule,
        "rules": rules_doc or {},
        "checker_cmd": f"/venv/bin/python -m sa.check {ctx.prop} --tier {ctx.tier}",
        "trusted_base": TRUSTED_BASE,
        "analysed": {
            "repo_modules_parsed": len(ctx.prog.modules),
            "repo_functions_indexed": len(ctx.prog.funcs),
            "modules_consulted": sorted(ctx.analysed_modules),
            "functions_consulted": len(ctx.analysed_funcs),
            "cfg_nodes_built": ctx.cfg_nodes,
            "source_digest": ctx.prog.digest(ctx.analysed_modules),
        },
        "undecided_list": [r.as_dict() for r in undecided][:40],
        "known_finding_list": [r.as_dict() for r in known][:80],
        "info": [r.as_dict() for r in res if r.status == INFO][:60],
        "notes": ctx.notes,
        "exhaustive": False,
    }
    if extra:
        cov.update(extra)
    ev = {
        "property_id": ctx.prop,
        "tier": ctx.tier,
        "seed": seed,
        "level": "other",
        "coverage": cov,
        "assumptions": TRUSTED_BASE,
        "wall_s": round(wall, 3),
        "violations": len(fresh),
    }
    path = os.path.join(EVIDENCE_DIR, f"{ctx.prop}.json")
    tmp = path + ".tmp"
    with open(tmp, "w", encoding="utf-8") as f:
        json.dump(ev, f, indent=1, sort_keys=False)
        f.write("\n")
    os.replace(tmp, path)
    return path
