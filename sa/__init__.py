"""Static-analysis engine for vecipher/Clematis3 (properties C01-C20).

Nothing in this package imports or executes code from /repo: every verdict is
computed from the source text of the repository's current working tree.
"""
