"""E4 effect analysis: which objects a function (transitively) mutates, which
I/O it performs and which nondeterminism / environment sources it reads.

Every mutation is attributed to the *origin* of the mutated object's root,
expressed relative to the analysed function:

  param:<name>    an argument (or something reachable from it: attribute,
                  element, .get() result, iteration element)
  self            the receiver
  global:<m:n>    a module-level object
  free:<name>     a variable of an enclosing function (closure)
  fresh           an object created in this activation (literal, constructor,
                  comprehension, list()/dict()/sorted()/deepcopy() copy)
  unknown         result of an unresolved call

Callee effects are mapped through the actual arguments (bounded depth, memoised,
recursion cut).  Receiver classes that cannot be resolved lexically can be given
as hints (`{"store": "pkg.mod:Class"}`); hints apply to parameter names.
"""
from __future__ import annotations

import ast
from dataclasses import dataclass
from typing import Dict, FrozenSet, List, Optional, Sequence, Set, Tuple

from .cfg import Node
from .dataflow import node_exprs
from .model import Func, const_str, dotted, src, walk_no_defs, _flatten_target
from .util import call_tail, node_calls, open_mode, WRITE_MODES

MUTATING_METHODS = {
    "append", "extend", "update", "setdefault", "pop", "clear", "remove", "insert", "sort", "add", "discard", "popleft",
    "appendleft", "move_to_end", "reverse", "popitem", "__setitem__", "__delitem__", "extendleft", "difference_update",
    "intersection_update", "symmetric_difference_update",
    # repository mutators
    "upsert_nodes", "upsert_edges", "apply_deltas", "ensure", "put", "set", "stage", "invalidate_namespace", "invalidate_all",
    "add_many", "delete", "write",
}
# .get/.add on numpy etc. are not distinguished; "add"/"set"/"put" are mutators of repo containers.

FRESH_CALLS = {
    "list", "dict", "set", "tuple", "frozenset", "sorted", "str", "int", "float", "bool", "bytes", "bytearray", "len", "abs", "min", "max",
    "sum", "round", "range", "enumerate", "zip", "map", "filter", "reversed", "repr", "format", "isinstance", "hasattr", "type", "id", "hash",
    "copy.deepcopy", "deepcopy", "copy.copy", "json.loads", "json.dumps", "math.sqrt", "math.fsum", "sqrt", "defaultdict",
    "collections.defaultdict", "OrderedDict", "collections.OrderedDict", "deque", "collections.deque", "SimpleNamespace", "types.SimpleNamespace",
    "heapq.nlargest", "heapq.nsmallest", "any", "all", "divmod", "pow", "ord", "chr", "iter", "next", "vars", "object", "Counter",
    "collections.Counter", "hashlib.sha1", "hashlib.sha256", "hashlib.md5", "os.path.join", "os.path.exists", "os.path.dirname", "Path",
    "pathlib.Path", "re.compile", "re.sub", "re.match", "re.search", "re.findall", "np.asarray", "np.array", "np.zeros", "np.dot", "numpy.asarray",
    "callable", "slice", "complex", "bin", "hex", "oct", "print", "math.isfinite", "math.isnan", "math.exp", "math.log", "math.pow", "math.floor",
    "math.ceil", "replace", "dataclasses.replace", "asdict", "dataclasses.asdict", "locals", "super",
}
# methods whose result is a fresh value irrespective of the receiver
FRESH_METHODS = {
    "copy", "lower", "upper", "strip", "split", "join", "format", "encode", "decode", "replace", "startswith", "endswith", "keys", "count",
    "index", "find", "isdigit", "tolist", "astype", "hexdigest", "digest", "lstrip", "rstrip", "splitlines", "title", "casefold", "items",
    "values", "difference", "union", "intersection", "isdisjoint", "issubset", "total_seconds", "isoformat", "timestamp",
}
# NOTE: .items()/.values() give views whose *elements* alias the container; the
# element origin is handled at `for` definitions (iteration keeps the origin).
ELEMENT_VIEWS = {"items", "values"}

NONDET = {
    "time.time", "time.perf_counter", "time.monotonic", "time.time_ns", "time.perf_counter_ns", "time.monotonic_ns", "time.process_time",
    "datetime.now", "datetime.utcnow", "datetime.datetime.now", "datetime.datetime.utcnow", "datetime.today", "date.today",
    "_dt.now", "_dt.utcnow", "dt.now", "dt.utcnow",
    "uuid.uuid1", "uuid.uuid4", "os.urandom", "os.getpid", "threading.get_ident", "secrets.token_hex", "secrets.token_bytes",
}
NONDET_PREFIX = ("random.", "np.random.", "numpy.random.", "secrets.")
IO_CALLS = {"print", "os.replace", "os.rename", "os.remove", "os.unlink", "os.makedirs", "os.mkdir", "os.chmod", "shutil.rmtree", "shutil.copy",
            "shutil.copyfile", "shutil.move", "sys.stdout.write", "sys.stderr.write", "os.fsync", "os.write", "os.truncate"}
IO_TAILS = {"write_text", "write_bytes", "unlink", "mkdir", "touch", "rmdir"}
LOG_TAILS = {"append_jsonl", "_append_jsonl", "_append_jsonl_unbuffered", "log_t3_reflection", "write_or_capture", "emit_trace", "_append_unbuffered"}


@dataclass(frozen=True)
class Effect:
    kind: str  # mutate | io | nondet | env | global-write | setattr
    origin: str
    desc: str
    where: str
    via: Tuple[str, ...] = ()

    def fmt(self) -> str:
        v = (" via " + " -> ".join(self.via)) if self.via else ""
        return f"{self.kind}[{self.origin}] {self.desc} @ {self.where}{v}"


class Effects:
    def __init__(self, ctx, depth: int = 4, hints: Optional[Dict[str, str]] = None, skip: Sequence[str] = (),
                 extra_mutators: Sequence[str] = (), non_mutators: Sequence[str] = ()):
        self.ctx = ctx
        self.depth = depth
        self.hints = dict(hints or {})
        self.skip = set(skip)  # callee quals not descended into (reported as nothing)
        self.mutators = (set(MUTATING_METHODS) | set(extra_mutators)) - set(non_mutators)
        self._memo: Dict[Tuple[str, int], List[Effect]] = {}
        self._busy: Set[str] = set()
        self._retmemo: Dict[str, FrozenSet[str]] = {}
        self._retbusy: Set[str] = set()
        self.unresolved: List[str] = []

    # ------------------------------------------------------------ origins
    def origin(self, fn: Func, e: ast.AST, at: Node, _seen: Optional[Set[int]] = None, bound: Optional[Dict[str, FrozenSet[str]]] = None) -> FrozenSet[str]:
        _seen = _seen if _seen is not None else set()
        bound = bound or {}
        rd = self.ctx.rd(fn)
        if isinstance(e, ast.Name):
            if e.id in bound:
                return bound[e.id]
            if e.id == "self" and fn.cls is not None:
                return frozenset({"self"})
            ds = rd.reaching(e.id, at)
            if not ds:
                if e.id in rd.local_names and e.id not in rd.global_names and e.id not in rd.nonlocal_names:
                    return frozenset({"fresh"})  # defined later / unreachable def
                return frozenset({self._nonlocal_origin(fn, e.id)})
            out: Set[str] = set()
            for d in ds:
                if id(d) in _seen:
                    continue
                _seen.add(id(d))
                if e.id in rd.global_names:
                    out.add(f"global:{fn.module.name}:{e.id}")
                    continue
                if e.id in rd.nonlocal_names:
                    out.add(f"free:{e.id}")
                    continue
                if d.kind == "param":
                    out.add("self" if (d.name in ("self", "cls") and fn.cls is not None) else f"param:{d.name}")
                elif d.kind in ("assign", "walrus", "with") and d.value is not None:
                    out |= self.origin(fn, d.value, d.node, _seen)
                elif d.kind in ("for", "unpack") and d.value is not None:
                    out |= self._element_origin(fn, d.value, d.node, _seen)
                elif d.kind == "aug":
                    out.add("fresh")
                elif d.kind == "mutate":
                    continue
                elif d.kind in ("import", "def", "except"):
                    out.add("fresh")
                else:
                    out.add("fresh")
            return frozenset(out or {"fresh"})
        if isinstance(e, (ast.Attribute, ast.Subscript, ast.Starred)):
            d = dotted(e)
            if d in ("os.environ",):
                return frozenset({"global:os.environ"})
            return self.origin(fn, e.value, at, _seen, bound)
        if isinstance(e, ast.BoolOp):
            out = set()
            for v in e.values:
                out |= self.origin(fn, v, at, _seen, bound)
            return frozenset(out)
        if isinstance(e, ast.IfExp):
            return self.origin(fn, e.body, at, _seen, bound) | self.origin(fn, e.orelse, at, _seen, bound)
        if isinstance(e, ast.NamedExpr):
            return self.origin(fn, e.value, at, _seen, bound)
        if isinstance(e, ast.Call):
            return self._call_origin(fn, e, at, _seen, bound)
        if isinstance(e, ast.Await):
            return frozenset({"unknown"})
        return frozenset({"fresh"})

    def _element_origin(self, fn, e, at, _seen, bound=None) -> FrozenSet[str]:
        # elements of a fresh container built from X still belong to X
        if isinstance(e, ast.Call):
            d = dotted(e.func) or ""
            t = call_tail(e)
            if d in ("sorted", "list", "tuple", "reversed", "enumerate", "zip", "set", "iter", "filter") or (isinstance(e.func, ast.Attribute) and t in ELEMENT_VIEWS):
                out: Set[str] = set()
                srcs = list(e.args) if d else []
                if isinstance(e.func, ast.Attribute) and t in ELEMENT_VIEWS:
                    srcs = [e.func.value]
                for a in srcs:
                    out |= self._element_origin(fn, a, at, _seen, bound)
                return frozenset(out or {"fresh"})
            if d == "range":
                return frozenset({"fresh"})
        if isinstance(e, (ast.List, ast.Tuple, ast.Set)):
            out = set()
            for x in e.elts:
                out |= self.origin(fn, x, at, _seen, bound)
            return frozenset(out or {"fresh"})
        if isinstance(e, (ast.ListComp, ast.SetComp, ast.GeneratorExp)):
            b = dict(bound or {})
            for g in e.generators:
                el = self._element_origin(fn, g.iter, at, _seen, b)
                for t in ast.walk(g.target):
                    if isinstance(t, ast.Name):
                        b[t.id] = el
            return self.origin(fn, e.elt, at, _seen, b)
        return self.origin(fn, e, at, _seen, bound)

    def _nonlocal_origin(self, fn: Func, name: str) -> str:
        f = fn.parent
        while f is not None:
            rd = self.ctx.rd(f)
            if name in rd.local_names:
                return f"free:{name}"
            f = f.parent
        r = self.ctx.prog.resolve_symbol(fn.module, name)
        if r is None:
            return "fresh"  # builtin constant etc.
        if r[0] == "global":
            return f"global:{r[1]}"
        if r[0] in ("module", "ext"):
            return f"global:{r[1]}"
        return "fresh"  # functions / classes are not mutable data

    def _call_origin(self, fn, c: ast.Call, at, _seen, bound) -> FrozenSet[str]:
        d = dotted(c.func) or ""
        t = call_tail(c)
        if d in FRESH_CALLS or (not isinstance(c.func, ast.Attribute) and t in FRESH_CALLS):
            return frozenset({"fresh"})
        if d == "getattr" and c.args:
            out = set(self.origin(fn, c.args[0], at, _seen, bound))
            if len(c.args) > 2:
                out |= self.origin(fn, c.args[2], at, _seen, bound)
            return frozenset(out)
        if isinstance(c.func, ast.Attribute):
            if t in ("get", "setdefault", "pop") and c.args:
                out = set(self.origin(fn, c.func.value, at, _seen, bound))
                if len(c.args) > 1:
                    out |= self.origin(fn, c.args[1], at, _seen, bound)
                return frozenset(out)
            if t in FRESH_METHODS:
                return frozenset({"fresh"})
        r = self._resolve(fn, c, at)
        if r is not None and r[0] == "class":
            return frozenset({"fresh"})
        if r is not None and r[0] == "func":
            callee = self.ctx.prog.funcs[r[1]]
            ret = self._ret_origins(callee)
            out = set()
            # `x = f(x, y)` in a loop: the origin of the argument leads back to this very call; the second visit adds nothing
            busy = self.__dict__.setdefault("_call_busy", set())
            if id(c) in busy:
                return frozenset()
            busy.add(id(c))
            try:
                for o in ret:
                    out |= self._map_origin(fn, c, callee, o, at, _seen, bound)
            finally:
                busy.discard(id(c))
            return frozenset(out or {"fresh"})
        if r is not None and r[0] == "ext":
            return frozenset({"fresh"})
        if isinstance(c.func, ast.Attribute):
            # unresolved method: assume the result may alias the receiver
            return frozenset(set(self.origin(fn, c.func.value, at, _seen, bound)) | {"unknown"})
        return frozenset({"unknown"})

    def _ret_origins(self, callee: Func) -> FrozenSet[str]:
        if callee.qual in self._retmemo:
            return self._retmemo[callee.qual]
        if callee.qual in self._retbusy:
            return frozenset()
        self._retbusy.add(callee.qual)
        try:
            cfg = self.ctx.cfg(callee)
            out: Set[str] = set()
            for n in cfg.nodes:
                if n.kind == "stmt" and isinstance(n.ast, ast.Return) and n.ast.value is not None:
                    v = n.ast.value
                    vals = v.elts if isinstance(v, ast.Tuple) else [v]
                    for x in vals:
                        out |= self.origin(callee, x, n)
            self._retmemo[callee.qual] = frozenset(out)
            return self._retmemo[callee.qual]
        finally:
            self._retbusy.discard(callee.qual)

    def _actual(self, c: ast.Call, callee: Func, pname: str) -> Optional[ast.AST]:
        params = callee.params
        is_method = callee.cls is not None and bool(params) and params[0] in ("self", "cls") and isinstance(c.func, ast.Attribute)
        for k in c.keywords:
            if k.arg == pname:
                return k.value
        try:
            i = params.index(pname)
        except ValueError:
            return None
        if is_method:
            i -= 1
        if any(isinstance(a, ast.Starred) for a in c.args[: i + 1]):
            return None
        if 0 <= i < len(c.args):
            return c.args[i]
        return None

    def _map_origin(self, fn, c: ast.Call, callee: Func, o: str, at, _seen=None, bound=None) -> FrozenSet[str]:
        if o.startswith("param:"):
            ae = self._actual(c, callee, o[6:])
            if ae is None:
                return frozenset({"fresh"})  # default value of the parameter
            return self.origin(fn, ae, at, set(), bound)
        if o == "self":
            if isinstance(c.func, ast.Attribute):
                return self.origin(fn, c.func.value, at, set(), bound)
            return frozenset({"fresh"})  # constructor call: self is the new object
        if o.startswith("free:"):
            # closure variable of the callee's definer; if that is us, it is our local
            nm = o[5:]
            f = callee.parent
            while f is not None:
                if f is fn:
                    return self.origin(fn, ast.Name(id=nm, ctx=ast.Load()), at, set(), bound)
                f = f.parent
            return frozenset({o})
        return frozenset({o})

    def _resolve(self, fn: Func, c: ast.Call, at: Node):
        r = self.ctx.prog.callee(fn, c)
        if r is not None:
            return r
        f = c.func
        # A1: test-patch indirections resolve to their default target:  _get_stage_callable("name", default)(...)
        if isinstance(f, ast.Call) and call_tail(f) in ("_get_stage_callable", "_get_orch_callable") and len(f.args) >= 2:
            d = dotted(f.args[1])
            if d:
                rr = self.ctx.prog.resolve_dotted(fn.module, d, fn)
                if rr is not None:
                    return rr
        if isinstance(f, ast.Name):
            # a local bound to such an indirection:  fn2 = _get_orch_callable("x", default)
            rd = self.ctx.rd(fn)
            for dd in rd.reaching(f.id, at):
                v = dd.value
                if dd.kind == "assign" and isinstance(v, ast.Call) and call_tail(v) in ("_get_stage_callable", "_get_orch_callable") and len(v.args) >= 2:
                    d = dotted(v.args[1])
                    if d:
                        rr = self.ctx.prog.resolve_dotted(fn.module, d, fn)
                        if rr is not None:
                            return rr
        if isinstance(f, ast.Attribute) and isinstance(f.value, ast.Name):
            recv = f.value.id
            cls = self.hints.get(recv)
            if cls is None:
                # local constructed from a repo class:  x = Cls(...)
                rd = self.ctx.rd(fn)
                ds = rd.reaching(recv, at)
                for d in ds:
                    if d.kind == "assign" and isinstance(d.value, ast.Call):
                        rr = self.ctx.prog.callee(fn, d.value)
                        if rr is not None and rr[0] == "class":
                            cls = rr[1]
            if cls is not None:
                mod, _, local = cls.partition(":")
                m = self.ctx.prog.modules.get(mod)
                if m is not None:
                    return self.ctx.prog._method(m, local, f.attr)
        return None

    # ------------------------------------------------------------- effects
    def of(self, fn: Func, depth: Optional[int] = None) -> List[Effect]:
        depth = self.depth if depth is None else depth
        key = (fn.qual, depth)
        if key in self._memo:
            return self._memo[key]
        if fn.qual in self._busy:
            return []
        self._busy.add(fn.qual)
        try:
            out = self._compute(fn, depth)
        finally:
            self._busy.discard(fn.qual)
        # dedupe
        seen = set()
        res = []
        for e in out:
            k = (e.kind, e.origin, e.desc, e.where)
            if k not in seen:
                seen.add(k)
                res.append(e)
        self._memo[key] = res
        return res

    def _compute(self, fn: Func, depth: int) -> List[Effect]:
        cfg = self.ctx.cfg(fn)
        rd = self.ctx.rd(fn)
        out: List[Effect] = []
        reach = cfg.reachable_from_entry()

        def add(kind, origins, desc, node_ast, via=()):
            for o in sorted(origins):
                out.append(Effect(kind, o, desc, fn.loc(node_ast), tuple(via)))

        for n in cfg.nodes:
            if n not in reach:
                continue
            a = n.ast
            if n.kind == "stmt" and isinstance(a, (ast.Assign, ast.AugAssign, ast.AnnAssign, ast.Delete)):
                tgts = a.targets if isinstance(a, (ast.Assign, ast.Delete)) else [a.target]
                for t in tgts:
                    for tt in _flatten_target(t):
                        if isinstance(tt, (ast.Attribute, ast.Subscript)):
                            add("mutate", self.origin(fn, tt.value, n), f"store `{src(tt)[:50]}`", tt)
                        elif isinstance(tt, ast.Name) and (tt.id in rd.global_names):
                            add("global-write", {f"global:{fn.module.name}:{tt.id}"}, f"rebinding global `{tt.id}`", tt)
                        elif isinstance(tt, ast.Name) and tt.id in rd.nonlocal_names:
                            add("mutate", {f"free:{tt.id}"}, f"rebinding nonlocal `{tt.id}`", tt)
            for c in node_calls(n):
                d = dotted(c.func) or ""
                t = call_tail(c)
                # --- builtin effects
                if d in ("setattr", "delattr") and c.args:
                    add("mutate", self.origin(fn, c.args[0], n), f"{d}({src(c.args[0])[:30]}, {src(c.args[1])[:30] if len(c.args) > 1 else ''})", c)
                    continue
                if d in NONDET or d.startswith(NONDET_PREFIX) or (t in ("now", "utcnow", "today") and "datetime" in d.lower() + src(c.func).lower()):
                    add("nondet", {"clock/rng"}, f"`{src(c)[:50]}`", c)
                    continue
                if d in ("os.getenv", "os.environ.get", "_os.environ.get", "_os.getenv"):
                    add("env", {"env"}, f"`{src(c)[:50]}`", c)
                    continue
                if d in ("open", "io.open", "builtins.open") or (isinstance(c.func, ast.Attribute) and t == "open" and d not in ("os.open",)):
                    m = open_mode(c)
                    if m is None or (set(m) & WRITE_MODES):
                        add("io", {"fs"}, f"`{src(c)[:50]}` (write mode)", c)
                    else:
                        add("io-read", {"fs"}, f"`{src(c)[:50]}`", c)
                    continue
                if d in IO_CALLS or (isinstance(c.func, ast.Attribute) and t in IO_TAILS and not d.startswith("str.")):
                    add("io", {"fs"}, f"`{src(c)[:50]}`", c)
                    continue
                if t in LOG_TAILS:
                    add("io", {"log"}, f"`{src(c)[:50]}`", c)
                    continue
                # --- resolved repo callee
                r = self._resolve(fn, c, n)
                if r is not None and r[0] == "func":
                    callee = self.ctx.prog.funcs[r[1]]
                    if callee.qual in self.skip:
                        continue
                    if depth > 0:
                        for e in self.of(callee, depth - 1):
                            if e.kind in ("mutate",):
                                for o in self._map_origin(fn, c, callee, e.origin, n):
                                    out.append(Effect(e.kind, o, e.desc, e.where, (f"{callee.qual}@{fn.loc(c)}",) + e.via))
                            else:
                                out.append(Effect(e.kind, e.origin, e.desc, e.where, (f"{callee.qual}@{fn.loc(c)}",) + e.via))
                    else:
                        self.unresolved.append(f"{fn.qual}: depth bound at {callee.qual}")
                    continue
                if r is not None and r[0] == "class":
                    # constructor: __init__/__post_init__ effects on arguments
                    mod, _, local = r[1].partition(":")
                    init = self.ctx.prog.modules[mod].funcs.get(f"{local}.__init__")
                    if init is not None and depth > 0 and init.qual not in self.skip:
                        for e in self.of(init, depth - 1):
                            if e.kind == "mutate":
                                if e.origin == "self":
                                    continue
                                for o in self._map_init_origin(fn, c, init, e.origin, n):
                                    out.append(Effect(e.kind, o, e.desc, e.where, (f"{init.qual}@{fn.loc(c)}",) + e.via))
                            else:
                                out.append(Effect(e.kind, e.origin, e.desc, e.where, (f"{init.qual}@{fn.loc(c)}",) + e.via))
                    continue
                # --- unresolved method call with a mutating name
                if isinstance(c.func, ast.Attribute) and t in self.mutators:
                    recv = c.func.value
                    if t in ("get",):
                        continue
                    if t == "write" and isinstance(recv, ast.Name):
                        add("io", {"fs"}, f"`{src(c)[:50]}`", c)
                        continue
                    # str.join / "".format style receivers are constants
                    if isinstance(recv, ast.Constant):
                        continue
                    add("mutate", self.origin(fn, recv, n), f"`{src(c)[:50]}`", c)
                    continue
                if isinstance(c.func, ast.Attribute) and r is None and not d.split(".")[0] in fn.module.imports:
                    self.unresolved.append(f"{fn.qual}: {src(c.func)[:40]}")
        return out

    def _map_init_origin(self, fn, c, init: Func, o: str, at) -> FrozenSet[str]:
        if o.startswith("param:"):
            params = init.params[1:]
            pname = o[6:]
            for k in c.keywords:
                if k.arg == pname:
                    return self.origin(fn, k.value, at)
            if pname in params:
                i = params.index(pname)
                if i < len(c.args):
                    return self.origin(fn, c.args[i], at)
            return frozenset({"fresh"})
        return frozenset({o})

    # -------------------------------------------------------------- queries
    def mutations(self, fn: Func, origins_prefix: Sequence[str] = ("param:", "self", "global:", "free:")) -> List[Effect]:
        return [e for e in self.of(fn) if e.kind in ("mutate", "global-write") and e.origin.startswith(tuple(origins_prefix))]

    def kinds(self, fn: Func, kinds: Sequence[str]) -> List[Effect]:
        return [e for e in self.of(fn) if e.kind in kinds]
