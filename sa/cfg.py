"""E2 statement-level control-flow graph with exception edges, branch
pseudo-nodes (so that edge dominance = node dominance), dominators,
post-dominators and path queries with witnesses.

Modelled statement kinds: simple statements, if/elif/else, for/while (+else,
break, continue), try/except/else/finally (finally bodies are duplicated per
pending jump kind), with, return, raise, nested def/class (as one node).
`match` and `async` constructs mark the CFG as unsupported (rules then report
UNDECIDED, never HOLDS).
"""
from __future__ import annotations

import ast
from collections import deque
from typing import Callable, Dict, Iterable, List, Optional, Sequence, Set, Tuple

from .model import walk_no_defs


class Node:
    __slots__ = ("id", "kind", "ast", "stmt", "succ", "pred", "label", "note")

    def __init__(self, id: int, kind: str, a: Optional[ast.AST], stmt: Optional[ast.AST], note: str = ""):
        self.id = id
        self.kind = kind  # entry exit raise stmt cond iter with branch handler join
        self.ast = a
        self.stmt = stmt
        self.succ: List[Tuple["Node", Optional[str]]] = []
        self.pred: List[Tuple["Node", Optional[str]]] = []
        self.label: Optional[str] = None  # for branch nodes: 'T' / 'F'
        self.note = note

    @property
    def lineno(self) -> int:
        return getattr(self.ast, "lineno", 0) or getattr(self.stmt, "lineno", 0) or 0

    def __repr__(self) -> str:  # pragma: no cover
        s = ""
        if self.ast is not None:
            try:
                s = ast.unparse(self.ast).split("\n")[0][:60]
            except Exception:
                s = type(self.ast).__name__
        return f"<{self.id}:{self.kind}{'/' + self.label if self.label else ''} L{self.lineno} {s}>"


_CATCH_ALL = {"Exception", "BaseException"}


def handler_names(h: ast.ExceptHandler) -> List[str]:
    if h.type is None:
        return ["*"]
    ts = h.type.elts if isinstance(h.type, ast.Tuple) else [h.type]
    out = []
    for t in ts:
        n = t
        while isinstance(n, ast.Attribute):
            n = ast.Name(id=n.attr)
        out.append(n.id if isinstance(n, ast.Name) else "?")
    return out


def handler_catches_all(h: ast.ExceptHandler) -> bool:
    ns = handler_names(h)
    return "*" in ns or bool(_CATCH_ALL & set(ns))


_RAISING = (
    ast.Call,
    ast.Subscript,
    ast.Attribute,
    ast.BinOp,
    ast.Await,
    ast.Starred,
    ast.ListComp,
    ast.SetComp,
    ast.DictComp,
    ast.GeneratorExp,
    ast.Compare,
    ast.JoinedStr,
    ast.Yield,
    ast.YieldFrom,
)


def may_raise(a: Optional[ast.AST]) -> bool:
    if a is None:
        return False
    if isinstance(a, (ast.Pass, ast.Break, ast.Continue, ast.Global, ast.Nonlocal)):
        return False
    if isinstance(a, (ast.Raise, ast.Assert, ast.Import, ast.ImportFrom, ast.Delete)):
        return True
    if isinstance(a, (ast.FunctionDef, ast.AsyncFunctionDef, ast.ClassDef)):
        return bool(a.decorator_list)
    for n in walk_no_defs(a):
        if isinstance(n, _RAISING):
            return True
        if isinstance(n, ast.UnaryOp) and not isinstance(n.op, ast.Not):
            return True
        if isinstance(n, ast.AugAssign):
            return True
    return False


class _Frame:
    def __init__(self, kind: str, **kw):
        self.kind = kind  # 'loop' | 'try' | 'finally'
        self.__dict__.update(kw)
        self.copies: Dict[Tuple, Node] = {}


class CFG:
    def __init__(self, fn_node: ast.AST):
        self.fn = fn_node
        self.nodes: List[Node] = []
        self.unsupported: List[str] = []
        self.entry = self._new("entry", None, None)
        self.exit = self._new("exit", None, None)
        self.raise_ = self._new("raise", None, None)
        self._stack: List[_Frame] = []
        body = fn_node.body if isinstance(fn_node.body, list) else [ast.Return(value=fn_node.body)]
        if isinstance(fn_node, ast.AsyncFunctionDef):
            self.unsupported.append("async def")
        out = self._seq(body, [(self.entry, None)])
        self._connect(out, self.exit)
        self._by_ast: Dict[int, List[Node]] = {}
        for n in self.nodes:
            if n.ast is not None:
                self._by_ast.setdefault(id(n.ast), []).append(n)
        self._dom: Optional[Dict[Node, int]] = None
        self._reach: Optional[Set[Node]] = None

    # ----------------------------------------------------------- building
    def _new(self, kind, a, stmt, note="") -> Node:
        n = Node(len(self.nodes), kind, a, stmt, note)
        self.nodes.append(n)
        return n

    def _edge(self, a: Node, b: Node, label: Optional[str]) -> None:
        for t, l in a.succ:
            if t is b and l == label:
                return
        a.succ.append((b, label))
        b.pred.append((a, label))

    def _connect(self, dangling, node: Node) -> None:
        for src, lab in dangling:
            self._edge(src, node, lab)

    def _seq(self, stmts: Sequence[ast.stmt], dangling):
        for st in stmts:
            if not dangling:
                # unreachable code is still built (so anchors can be found),
                # but stays disconnected from entry.
                pass
            dangling = self._stmt(st, dangling)
        return dangling

    # routing of non-local jumps through finally frames --------------------
    def _route(self, kind: str, src_dangling, depth: int, loop: Optional[_Frame] = None) -> None:
        """Connect dangling edges performing a jump of `kind` starting just
        inside stack[:depth]."""
        i = depth - 1
        while i >= 0:
            fr = self._stack[i]
            if fr.kind == "finally":
                key = (kind, id(loop) if loop else 0)
                ent = fr.copies.get(key)
                if ent is None:
                    ent = self._new("join", None, fr.stmt, note=f"finally[{kind}]")
                    fr.copies[key] = ent
                    saved = self._stack
                    self._stack = saved[:i]
                    out = self._seq(fr.body, [(ent, None)])
                    self._route(kind, out, i, loop)
                    self._stack = saved
                self._connect(src_dangling, ent)
                return
            if fr.kind == "try" and kind == "raise":
                for h in fr.handlers:
                    self._connect([(s, "exc") for s, _ in src_dangling], h)
                if fr.catch_all:
                    return
            if fr.kind == "loop" and kind in ("break", "continue") and fr is loop:
                if kind == "break":
                    fr.breaks.extend(src_dangling)
                else:
                    self._connect(src_dangling, fr.head)
                return
            i -= 1
        if kind == "return":
            self._connect(src_dangling, self.exit)
        elif kind == "raise":
            self._connect([(s, "exc") for s, _ in src_dangling], self.raise_)
        # break/continue outside a loop: syntactically impossible

    def _raise_from(self, node: Node) -> None:
        self._route("raise", [(node, "exc")], len(self._stack))

    def _simple(self, kind: str, a: ast.AST, st: ast.AST, dangling) -> Node:
        n = self._new(kind, a, st)
        self._connect(dangling, n)
        if may_raise(a):
            self._raise_from(n)
        return n

    def _branches(self, c: Node) -> Tuple[Node, Node]:
        t = self._new("branch", c.ast, c.stmt)
        t.label = "T"
        f = self._new("branch", c.ast, c.stmt)
        f.label = "F"
        self._edge(c, t, "T")
        self._edge(c, f, "F")
        return t, f

    def _stmt(self, st: ast.stmt, dangling):
        if isinstance(st, ast.If):
            c = self._simple("cond", st.test, st, dangling)
            t, f = self._branches(c)
            cv = _const_truth(st.test)
            tout = self._seq(st.body, [(t, None)] if cv is not False else [])
            fout = self._seq(st.orelse, [(f, None)] if cv is not True else [])
            if cv is False:
                self._drop(c, t)
            if cv is True:
                self._drop(c, f)
            return list(tout) + list(fout)
        if isinstance(st, (ast.For, ast.AsyncFor)):
            if isinstance(st, ast.AsyncFor):
                self.unsupported.append("async for")
            pre = self._simple("stmt", st.iter, st, dangling)  # evaluates the iterable once
            pre.note = "for-iter-eval"
            head = self._new("iter", st, st)
            self._edge(pre, head, None)
            t, f = self._branches(head)
            fr = _Frame("loop", head=head, breaks=[])
            self._stack.append(fr)
            bout = self._seq(st.body, [(t, None)])
            self._stack.pop()
            self._connect(bout, head)
            eout = self._seq(st.orelse, [(f, None)])
            return list(eout) + list(fr.breaks)
        if isinstance(st, ast.While):
            head = self._new("cond", st.test, st)
            self._connect(dangling, head)
            if may_raise(st.test):
                self._raise_from(head)
            t, f = self._branches(head)
            cv = _const_truth(st.test)
            fr = _Frame("loop", head=head, breaks=[])
            self._stack.append(fr)
            bout = self._seq(st.body, [(t, None)])
            self._stack.pop()
            self._connect(bout, head)
            if cv is True:
                self._drop(head, f)
                eout = []
            else:
                eout = self._seq(st.orelse, [(f, None)])
            return list(eout) + list(fr.breaks)
        if isinstance(st, (ast.With, ast.AsyncWith)):
            if isinstance(st, ast.AsyncWith):
                self.unsupported.append("async with")
            w = self._new("with", st, st)
            self._connect(dangling, w)
            self._raise_from(w)
            return self._seq(st.body, [(w, None)])
        if isinstance(st, ast.Try) or (hasattr(ast, "TryStar") and isinstance(st, getattr(ast, "TryStar"))):
            return self._try(st, dangling)
        if hasattr(ast, "Match") and isinstance(st, ast.Match):
            self.unsupported.append("match")
            n = self._simple("stmt", st, st, dangling)
            return [(n, None)]
        if isinstance(st, ast.Return):
            n = self._simple("stmt", st, st, dangling)
            self._route("return", [(n, None)], len(self._stack))
            return []
        if isinstance(st, ast.Raise):
            n = self._new("stmt", st, st)
            self._connect(dangling, n)
            self._raise_from(n)
            return []
        if isinstance(st, (ast.Break, ast.Continue)):
            n = self._new("stmt", st, st)
            self._connect(dangling, n)
            loop = None
            for fr in reversed(self._stack):
                if fr.kind == "loop":
                    loop = fr
                    break
            self._route("break" if isinstance(st, ast.Break) else "continue", [(n, None)], len(self._stack), loop)
            return []
        n = self._simple("stmt", st, st, dangling)
        return [(n, None)]

    def _drop(self, a: Node, b: Node) -> None:
        a.succ = [(t, l) for t, l in a.succ if t is not b]
        b.pred = [(s, l) for s, l in b.pred if s is not a]

    def _try(self, st, dangling):
        fin = _Frame("finally", body=st.finalbody, stmt=st) if st.finalbody else None
        if fin:
            self._stack.append(fin)
        hnodes = []
        for h in st.handlers:
            hn = self._new("handler", h, st)
            hnodes.append(hn)
        catch_all = any(handler_catches_all(h) for h in st.handlers)
        tr = _Frame("try", handlers=hnodes, catch_all=catch_all, stmt=st)
        if st.handlers:
            self._stack.append(tr)
        bout = self._seq(st.body, dangling)
        if st.handlers:
            self._stack.pop()
        eout = self._seq(st.orelse, bout)
        outs = list(eout)
        for h, hn in zip(st.handlers, hnodes):
            outs += self._seq(h.body, [(hn, None)])
        if fin:
            self._stack.pop()
            j = self._new("join", None, st, note="finally[normal]")
            self._connect(outs, j)
            return self._seq(st.finalbody, [(j, None)])
        return outs

    # ---------------------------------------------------------- queries
    def nodes_of(self, a: ast.AST) -> List[Node]:
        return [n for n in self._by_ast.get(id(a), []) if n.kind != "branch"]

    def node_containing(self, inner: ast.AST) -> List[Node]:
        """CFG nodes whose own expression/statement contains `inner`."""
        out = []
        for n in self.nodes:
            if n.ast is None or n.kind == "branch":
                continue
            root = n.ast
            if n.kind in ("iter",):
                roots = [root.target]
            elif n.kind == "with":
                roots = [i for i in root.items]
            elif n.kind == "handler":
                roots = [root.type] if root.type is not None else []
            elif n.kind == "stmt" and isinstance(root, (ast.FunctionDef, ast.AsyncFunctionDef, ast.ClassDef)):
                roots = list(root.decorator_list)
            else:
                roots = [root]
            for r in roots:
                if r is inner or any(x is inner for x in walk_no_defs(r)):
                    out.append(n)
                    break
        return out

    def reachable_from_entry(self) -> Set[Node]:
        if self._reach is None:
            self._reach = self.reach([self.entry])
        return self._reach

    def reach(self, starts: Iterable[Node], avoid: Optional[Callable[[Node], bool]] = None,
              edge_ok: Optional[Callable[[Node, Node, Optional[str]], bool]] = None,
              include_start: bool = True) -> Set[Node]:
        seen: Set[Node] = set()
        dq = deque()
        for s in starts:
            if include_start:
                if avoid and avoid(s):
                    continue
                if s not in seen:
                    seen.add(s)
                    dq.append(s)
            else:
                for t, l in s.succ:
                    if edge_ok and not edge_ok(s, t, l):
                        continue
                    if avoid and avoid(t):
                        continue
                    if t not in seen:
                        seen.add(t)
                        dq.append(t)
        while dq:
            n = dq.popleft()
            for t, l in n.succ:
                if edge_ok and not edge_ok(n, t, l):
                    continue
                if t in seen:
                    continue
                if avoid and avoid(t):
                    continue
                seen.add(t)
                dq.append(t)
        return seen

    def path(self, starts: Iterable[Node], goal: Callable[[Node], bool],
             avoid: Optional[Callable[[Node], bool]] = None,
             edge_ok: Optional[Callable[[Node, Node, Optional[str]], bool]] = None,
             include_start: bool = True) -> Optional[List[Node]]:
        """Shortest path (BFS) from any start to a goal node avoiding `avoid`
        nodes; the witness for must-pass-through violations."""
        parent: Dict[Node, Optional[Node]] = {}
        dq = deque()
        for s in starts:
            if include_start:
                if avoid and avoid(s):
                    continue
                if s not in parent:
                    parent[s] = None
                    dq.append(s)
            else:
                for t, l in s.succ:
                    if edge_ok and not edge_ok(s, t, l):
                        continue
                    if avoid and avoid(t):
                        continue
                    if t not in parent:
                        parent[t] = s
                        dq.append(t)
        start_set = set(starts)
        while dq:
            n = dq.popleft()
            if goal(n) and (include_start or n not in start_set or parent[n] is not None):
                out = [n]
                while parent.get(out[-1]) is not None:
                    out.append(parent[out[-1]])
                    if out[-1] in start_set and not include_start:
                        break
                return list(reversed(out))
            for t, l in n.succ:
                if edge_ok and not edge_ok(n, t, l):
                    continue
                if t in parent:
                    continue
                if avoid and avoid(t):
                    continue
                parent[t] = n
                dq.append(t)
        return None

    # dominators -----------------------------------------------------------
    def dominators(self) -> Dict[Node, int]:
        """node -> bitset (int) of dominator node ids (incl. itself); only for
        nodes reachable from entry."""
        if self._dom is not None:
            return self._dom
        reach = self.reachable_from_entry()
        order = self._rpo(self.entry, lambda n: [t for t, _ in n.succ])
        full = 0
        for n in order:
            full |= 1 << n.id
        dom = {n: full for n in order}
        dom[self.entry] = 1 << self.entry.id
        changed = True
        while changed:
            changed = False
            for n in order:
                if n is self.entry:
                    continue
                acc = full
                for p, _ in n.pred:
                    if p in reach:
                        acc &= dom[p]
                acc |= 1 << n.id
                if acc != dom[n]:
                    dom[n] = acc
                    changed = True
        self._dom = dom
        return dom

    def dominates(self, a: Node, b: Node) -> bool:
        d = self.dominators().get(b)
        return d is not None and bool(d >> a.id & 1)

    def postdominators(self, exits: Sequence[Node], edge_ok=None) -> Dict[Node, int]:
        """Post-dominators w.r.t. a virtual sink joined to `exits` (edges can be
        filtered, e.g. to ignore exception edges)."""
        succs = {}
        preds: Dict[Node, List[Node]] = {n: [] for n in self.nodes}
        for n in self.nodes:
            ss = [t for t, l in n.succ if not edge_ok or edge_ok(n, t, l)]
            succs[n] = ss
            for t in ss:
                preds[t].append(n)
        # nodes that can reach an exit
        can: Set[Node] = set(exits)
        dq = deque(exits)
        while dq:
            n = dq.popleft()
            for p in preds[n]:
                if p not in can:
                    can.add(p)
                    dq.append(p)
        full = 0
        for n in can:
            full |= 1 << n.id
        pd = {n: full for n in can}
        for e in exits:
            pd[e] = 1 << e.id
        ex = set(exits)
        changed = True
        order = [n for n in reversed(self.nodes) if n in can]
        while changed:
            changed = False
            for n in order:
                if n in ex:
                    continue
                acc = full
                any_s = False
                for s in succs[n]:
                    if s in can:
                        acc &= pd[s]
                        any_s = True
                if not any_s:
                    acc = 0
                acc |= 1 << n.id
                if acc != pd[n]:
                    pd[n] = acc
                    changed = True
        return pd

    def _rpo(self, start: Node, succ_fn) -> List[Node]:
        seen = set()
        out = []
        stack = [(start, iter(succ_fn(start)))]
        seen.add(start)
        while stack:
            n, it = stack[-1]
            adv = False
            for t in it:
                if t not in seen:
                    seen.add(t)
                    stack.append((t, iter(succ_fn(t))))
                    adv = True
                    break
            if not adv:
                out.append(n)
                stack.pop()
        out.reverse()
        return out

    # guards ---------------------------------------------------------------
    def guards(self, n: Node) -> List[Tuple[ast.AST, bool, Node]]:
        """(test expression, polarity, branch node) for every branch pseudo-node
        that dominates n.  For an `iter` head polarity True = 'loop body'."""
        d = self.dominators().get(n)
        if d is None:
            return []
        out = []
        for b in self.nodes:
            if b.kind == "branch" and (d >> b.id) & 1 and b is not n:
                test = b.ast
                if isinstance(test, (ast.For, ast.AsyncFor)):
                    continue
                out.append((test, b.label == "T", b))
        return out

    def facts(self, n: Node) -> Set[Tuple[str, bool]]:
        """Atomic facts (unparsed expr, truth) implied by the dominating guards."""
        out: Set[Tuple[str, bool]] = set()
        for test, pol, _ in self.guards(n):
            _decompose(test, pol, out)
        return out

    def in_loop(self, n: Node) -> bool:
        """n lies on a cycle of the CFG."""
        return n in self.reach([n], include_start=False)


def _const_truth(e: ast.AST) -> Optional[bool]:
    if isinstance(e, ast.Constant) and isinstance(e.value, (bool, int)) and not isinstance(e.value, str):
        return bool(e.value)
    return None


def _decompose(test: ast.AST, pol: bool, out: Set[Tuple[str, bool]]) -> None:
    if isinstance(test, ast.UnaryOp) and isinstance(test.op, ast.Not):
        _decompose(test.operand, not pol, out)
        return
    if isinstance(test, ast.BoolOp):
        if isinstance(test.op, ast.And) and pol:
            for v in test.values:
                _decompose(v, True, out)
            return
        if isinstance(test.op, ast.Or) and not pol:
            for v in test.values:
                _decompose(v, False, out)
            return
    out.add((ast.unparse(test), pol))


def decompose(test: ast.AST, pol: bool = True) -> Set[Tuple[str, bool]]:
    out: Set[Tuple[str, bool]] = set()
    _decompose(test, pol, out)
    return out


def fmt_path(fn, path: List[Node], limit: int = 14) -> List[str]:
    out = []
    for n in path:
        if n.kind in ("join",):
            continue
        if n.kind == "branch":
            if out:
                out[-1] += f" [{n.label}]"
            continue
        if n.kind in ("entry", "exit", "raise"):
            out.append(n.kind.upper())
            continue
        try:
            s = ast.unparse(n.ast).split("\n")[0][:70] if n.kind != "iter" else "for " + ast.unparse(n.ast.target)
        except Exception:
            s = type(n.ast).__name__
        out.append(f"L{n.lineno} {n.kind}: {s}")
    if len(out) > limit:
        out = out[: limit // 2] + [f"... ({len(out) - limit} more) ..."] + out[-limit // 2 :]
    return out
