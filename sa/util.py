"""Shared query helpers used by the rule modules."""
from __future__ import annotations

import ast
from typing import Callable, Dict, Iterable, Iterator, List, Optional, Sequence, Set, Tuple

from .cfg import CFG, Node, handler_catches_all, handler_names
from .dataflow import ReachingDefs, node_exprs
from .model import (Func, Program, arg, calls_in, const_str, dotted, kwarg, src, stmt_blocks, walk_no_defs)


# ------------------------------------------------------------------ calls
def node_calls(n: Node) -> List[ast.Call]:
    out: List[ast.Call] = []
    for e in node_exprs(n):
        out += calls_in(e)
    return out


def find_calls(ctx, fn: Func, pred: Callable[[ast.Call, str], bool], reachable_only: bool = True) -> List[Tuple[Node, ast.Call]]:
    """(node, call) for every call in fn's own CFG whose resolved callee name
    satisfies pred(call, name)."""
    cfg = ctx.cfg(fn)
    reach = cfg.reachable_from_entry() if reachable_only else None
    out = []
    for n in cfg.nodes:
        if reach is not None and n not in reach:
            continue
        for c in node_calls(n):
            nm = ctx.prog.callee_name(fn, c)
            if pred(c, nm):
                out.append((n, c))
    return out


def name_is(*names: str) -> Callable[[ast.Call, str], bool]:
    s = set(names)
    tails = {x.rsplit(":", 1)[-1].rsplit(".", 1)[-1] for x in s}

    def p(call: ast.Call, nm: str) -> bool:
        return nm in s

    return p


def tail_is(*tails: str) -> Callable[[ast.Call, str], bool]:
    """Match by the last component of the callee (method / function name)."""
    s = set(tails)

    def p(call: ast.Call, nm: str) -> bool:
        f = call.func
        if isinstance(f, ast.Attribute):
            return f.attr in s
        if isinstance(f, ast.Name):
            return f.id in s or nm.rsplit(":", 1)[-1].rsplit(".", 1)[-1] in s
        return False

    return p


def call_tail(call: ast.Call) -> str:
    f = call.func
    if isinstance(f, ast.Attribute):
        return f.attr
    if isinstance(f, ast.Name):
        return f.id
    return ""


# ---------------------------------------------------------- lexical context
def enclosing(prog: Program, fn: Func, node: ast.AST) -> List[Tuple[ast.AST, str]]:
    """Lexically enclosing compound statements of `node` inside fn, innermost
    first, each with the field through which it is reached
    ('body','orelse','finalbody','handler','test','iter','items')."""
    pm = prog.parents(fn.node)
    out = []
    cur = node
    while id(cur) in pm:
        p = pm[id(cur)]
        if p is fn.node:
            break
        if isinstance(p, ast.ExceptHandler):
            # report the Try with part 'handler'
            t = pm.get(id(p))
            out.append((t, "handler"))
            cur = t
            continue
        if isinstance(p, (ast.If, ast.For, ast.While, ast.Try, ast.With, ast.AsyncFor, ast.AsyncWith)):
            part = "?"
            for f in ("body", "orelse", "finalbody"):
                b = getattr(p, f, None)
                if isinstance(b, list) and any(x is cur for x in b):
                    part = f
            if part == "?":
                if getattr(p, "test", None) is cur:
                    part = "test"
                elif getattr(p, "iter", None) is cur:
                    part = "iter"
                elif isinstance(p, (ast.With, ast.AsyncWith)):
                    part = "items"
            out.append((p, part))
        cur = p
    return out


def stmt_of(prog: Program, fn: Func, node: ast.AST) -> ast.AST:
    pm = prog.parents(fn.node)
    cur = node
    while not isinstance(cur, ast.stmt) and id(cur) in pm:
        cur = pm[id(cur)]
    return cur


def guarded_by_catch_all(prog: Program, fn: Func, node: ast.AST) -> Optional[ast.Try]:
    """Innermost enclosing try whose *body* contains node and which has a
    handler catching Exception/BaseException/bare."""
    for st, part in enclosing(prog, fn, node):
        if isinstance(st, ast.Try) and part == "body":
            if any(handler_catches_all(h) for h in st.handlers):
                return st
    return None


def in_loop_lexical(prog: Program, fn: Func, node: ast.AST) -> bool:
    for st, part in enclosing(prog, fn, node):
        if isinstance(st, (ast.For, ast.While, ast.AsyncFor)) and part in ("body", "test", "iter"):
            if part != "iter":
                return True
    pm = prog.parents(fn.node)
    cur = node
    while id(cur) in pm:
        cur = pm[id(cur)]
        if isinstance(cur, (ast.ListComp, ast.SetComp, ast.DictComp, ast.GeneratorExp)):
            return True
    return False


# ------------------------------------------------------ must-pass-through
def must_pass(cfg: CFG, starts: Iterable[Node], goals: Callable[[Node], bool], through: Callable[[Node], bool],
              edge_ok=None, include_start: bool = True) -> Optional[List[Node]]:
    """None if every path from starts to a goal node passes a `through` node;
    otherwise a shortest offending path."""
    return cfg.path(list(starts), goals, avoid=through, edge_ok=edge_ok, include_start=include_start)


def no_exc(a: Node, b: Node, lab: Optional[str]) -> bool:
    return lab != "exc"


def handler_cannot_raise(h: ast.ExceptHandler, allow_calls: Sequence[str] = ()) -> Tuple[bool, Optional[ast.AST]]:
    """A handler body that only contains pass / constant or name assignments /
    continue / break / statements themselves wrapped in a catch-all try whose
    handlers cannot raise.  Returns (ok, offending node)."""
    return _block_cannot_raise(h.body, set(allow_calls))


_SAFE_CALLS = {"str", "repr", "dict", "list", "tuple", "set", "bool", "isinstance", "type", "len"}


def _expr_cannot_raise(e: ast.AST, allow: Set[str]) -> Optional[ast.AST]:
    for x in walk_no_defs(e):
        if isinstance(x, ast.Call):
            d = dotted(x.func)
            if d in allow:
                continue
            if d in ("str", "repr", "type") and len(x.args) == 1 and isinstance(x.args[0], ast.Name):
                continue  # str(e) on an exception object
            if d in ("dict", "list", "set", "tuple") and not x.args and not x.keywords:
                continue
            return x
        if isinstance(x, (ast.Subscript, ast.BinOp, ast.Await, ast.Starred, ast.ListComp, ast.DictComp, ast.SetComp, ast.GeneratorExp)):
            if isinstance(x, ast.Subscript) and isinstance(x.ctx, ast.Store):
                return x
            if isinstance(x, ast.Subscript):
                return x
            return x
        if isinstance(x, ast.Attribute) and isinstance(x.ctx, ast.Load):
            # attribute load on a plain name bound to the exception is fine
            # (e.__class__.__name__); anything else may raise AttributeError.
            root = x
            while isinstance(root, ast.Attribute):
                root = root.value
            if not isinstance(root, ast.Name):
                return x
    return None


def _block_cannot_raise(body: List[ast.stmt], allow: Set[str]) -> Tuple[bool, Optional[ast.AST]]:
    for st in body:
        if isinstance(st, (ast.Pass, ast.Continue, ast.Break, ast.Global, ast.Nonlocal)):
            continue
        if isinstance(st, ast.Raise):
            return False, st
        if isinstance(st, ast.Return):
            if st.value is not None:
                bad = _expr_cannot_raise(st.value, allow)
                if bad is not None:
                    return False, bad
            continue
        if isinstance(st, (ast.Assign, ast.AnnAssign)):
            tgts = st.targets if isinstance(st, ast.Assign) else [st.target]
            for t in tgts:
                for x in ast.walk(t):
                    if isinstance(x, (ast.Subscript,)):
                        # d[k] = v on a local dict literal is fine; unknown container may raise
                        pass
            if st.value is not None:
                bad = _expr_cannot_raise(st.value, allow)
                if bad is not None:
                    return False, bad
            for t in tgts:
                if isinstance(t, ast.Attribute):
                    return False, t  # setattr may raise (read-only state)
            continue
        if isinstance(st, ast.Expr):
            if isinstance(st.value, ast.Constant):
                continue
            bad = _expr_cannot_raise(st.value, allow)
            if bad is not None:
                return False, bad
            continue
        if isinstance(st, ast.Try):
            if any(handler_catches_all(h) for h in st.handlers):
                ok = True
                for h in st.handlers:
                    ok2, bad = _block_cannot_raise(h.body, allow)
                    if not ok2:
                        return False, bad
                ok2, bad = _block_cannot_raise(st.orelse, allow)
                if not ok2:
                    return False, bad
                ok2, bad = _block_cannot_raise(st.finalbody, allow)
                if not ok2:
                    return False, bad
                continue
            return False, st
        if isinstance(st, ast.For) and isinstance(st.iter, ast.Name) and not st.orelse:
            ok2, bad = _block_cannot_raise(st.body, allow)
            if not ok2:
                return False, bad
            continue
        if isinstance(st, ast.AugAssign) and isinstance(st.target, ast.Name):
            bad = _expr_cannot_raise(st.value, allow)
            if bad is not None:
                return False, bad
            continue
        if isinstance(st, ast.If):
            bad = _expr_cannot_raise(st.test, allow)
            if bad is not None:
                return False, bad
            for blk in (st.body, st.orelse):
                ok2, bad = _block_cannot_raise(blk, allow)
                if not ok2:
                    return False, bad
            continue
        return False, st
    return True, None


def func_total(ctx, fn: Func, depth: int = 1) -> Tuple[bool, Optional[ast.AST]]:
    """Every may-raise statement of fn's body lies inside a catch-all try whose handlers cannot raise (calls to helpers
    that are total themselves are allowed, depth-bounded)."""
    allow = total_helpers(ctx, fn, depth - 1) if depth > 0 else set()
    body = [st for st in fn.node.body if not (isinstance(st, ast.Expr) and isinstance(st.value, ast.Constant))]
    return _block_cannot_raise(body, allow)


def total_helpers(ctx, fn: Func, depth: int = 1) -> Set[str]:
    """dotted names called in fn that resolve to program functions which cannot raise (see func_total)"""
    out: Set[str] = set()
    for x in walk_no_defs(fn.node):
        if isinstance(x, ast.Call):
            r = ctx.prog.callee(fn, x)
            if r and r[0] == "func" and r[1] in ctx.prog.funcs and r[1] != fn.qual:
                ok, _ = func_total(ctx, ctx.prog.funcs[r[1]], depth)
                if ok:
                    out.add(dotted(x.func))
    return out


# -------------------------------------------------------------- file ops
WRITE_MODES = set("wax+")


def open_mode(call: ast.Call) -> Optional[str]:
    """Mode of an open()/Path.open()/io.open() call ('r' default), None when
    the mode is not a constant."""
    f = call.func
    is_method = isinstance(f, ast.Attribute) and f.attr == "open" and dotted(f) not in ("io.open", "os.open", "codecs.open", "gzip.open")
    pos = 0 if is_method else 1
    m = arg(call, pos, "mode")
    if m is None:
        return "r"
    return const_str(m)


class FileOp:
    __slots__ = ("node", "call", "kind", "target", "mode", "extra")

    def __init__(self, node, call, kind, target, mode=None, extra=None):
        self.node = node
        self.call = call
        self.kind = kind  # open-w open-r replace rename unlink remove truncate write_text write_bytes mkdir chmod touch rmtree copy
        self.target = target  # expression naming the path acted on (destination)
        self.mode = mode
        self.extra = extra  # e.g. source of a replace/rename


def file_ops(ctx, fn: Func) -> List[FileOp]:
    out: List[FileOp] = []
    cfg = ctx.cfg(fn)
    for n in cfg.nodes:
        for c in node_calls(n):
            d = dotted(c.func) or ""
            t = call_tail(c)
            if d in ("open", "io.open", "builtins.open", "codecs.open"):
                m = open_mode(c)
                k = "open-w" if (m is None or (set(m) & WRITE_MODES)) else "open-r"
                out.append(FileOp(n, c, k, arg(c, 0, "file"), m))
            elif isinstance(c.func, ast.Attribute) and t == "open" and d not in ("os.open", "gzip.open", "bz2.open", "lzma.open"):
                m = open_mode(c)
                k = "open-w" if (m is None or (set(m) & WRITE_MODES)) else "open-r"
                out.append(FileOp(n, c, k, c.func.value, m))
            elif d in ("os.replace", "os.rename", "shutil.move", "os.renames"):
                out.append(FileOp(n, c, "replace" if d == "os.replace" else "rename", arg(c, 1, "dst"), extra=arg(c, 0, "src")))
            elif d in ("os.remove", "os.unlink"):
                out.append(FileOp(n, c, "unlink", arg(c, 0, "path")))
            elif d in ("os.truncate",):
                out.append(FileOp(n, c, "truncate", arg(c, 0, "path")))
            elif d in ("shutil.rmtree",):
                out.append(FileOp(n, c, "rmtree", arg(c, 0)))
            elif d in ("shutil.copy", "shutil.copy2", "shutil.copyfile"):
                out.append(FileOp(n, c, "copy", arg(c, 1, "dst"), extra=arg(c, 0, "src")))
            elif d == "os.chmod":
                out.append(FileOp(n, c, "chmod", arg(c, 0)))
            elif d in ("os.makedirs", "os.mkdir"):
                out.append(FileOp(n, c, "mkdir", arg(c, 0)))
            elif isinstance(c.func, ast.Attribute) and t in ("write_text", "write_bytes", "unlink", "rename", "replace", "touch", "mkdir", "chmod", "rmdir", "truncate") \
                    and not d.startswith(("os.", "shutil.", "str.", "re.")):
                if t == "replace" and (len(c.args) != 1 or c.keywords):
                    continue  # str.replace(a, b)
                if t in ("rename", "replace"):
                    out.append(FileOp(n, c, "rename-from", c.func.value, extra=arg(c, 0)))
                    out.append(FileOp(n, c, "rename", arg(c, 0), extra=c.func.value))
                else:
                    out.append(FileOp(n, c, t, c.func.value))
    return out


# ------------------------------------------------------------- misc shape
def is_sorted_call(e: ast.AST) -> bool:
    return isinstance(e, ast.Call) and dotted(e.func) == "sorted"


def strip_wrappers(e: ast.AST, names=("list", "tuple", "dict", "float", "int", "str")) -> ast.AST:
    while isinstance(e, ast.Call) and dotted(e.func) in names and len(e.args) == 1 and not e.keywords:
        e = e.args[0]
    return e


def names_in(e: ast.AST) -> Set[str]:
    return {x.id for x in walk_no_defs(e) if isinstance(x, ast.Name)}


def returns_of(fn: Func) -> List[ast.Return]:
    return [x for x in walk_no_defs(fn.node) if isinstance(x, ast.Return)]


def all_stmts(fn_node: ast.AST) -> Iterator[ast.stmt]:
    for x in walk_no_defs(fn_node):
        if isinstance(x, ast.stmt) and x is not fn_node:
            yield x


# ------------------------------------------------------------ implied atoms
def implied_atoms(ctx, fn: Func, node: Node, depth: int = 4) -> List[Tuple[ast.AST, bool, Node]]:
    """Atomic conditions known at `node`, as (expression, truth, node where the
    expression is evaluated).  Dominating branch tests are decomposed through
    not/and/or, names are followed through their unique plain assignment,
    bool()/_truthy() wrappers are removed and comparisons with True/False/None
    constants are folded into the polarity.  A disjunction known to be true (or
    a conjunction known to be false) implies nothing about its operands and is
    emitted only as a whole."""
    cfg = ctx.cfg(fn)
    rd = ctx.rd(fn)
    out: List[Tuple[ast.AST, bool, Node]] = []
    seen = set()
    work: List[Tuple[ast.AST, bool, Node, int]] = []
    for test, pol, b in cfg.guards(node):
        cn = b.pred[0][0] if b.pred else b
        work.append((test, pol, cn, depth))
    while work:
        e, pol, at, d = work.pop()
        k = (id(e), pol, at.id)
        if k in seen:
            continue
        seen.add(k)
        if isinstance(e, ast.UnaryOp) and isinstance(e.op, ast.Not):
            work.append((e.operand, not pol, at, d))
            continue
        if isinstance(e, ast.BoolOp):
            if (isinstance(e.op, ast.And) and pol) or (isinstance(e.op, ast.Or) and not pol):
                for v in e.values:
                    work.append((v, pol, at, d))
                continue
            out.append((e, pol, at))
            continue
        if isinstance(e, ast.Call) and dotted(e.func) in ("bool", "_truthy", "core._truthy") and len(e.args) == 1 and not e.keywords:
            work.append((e.args[0], pol, at, d))
            out.append((e, pol, at))
            continue
        if isinstance(e, ast.Compare) and len(e.ops) == 1 and isinstance(e.comparators[0], ast.Constant) \
                and (e.comparators[0].value is True or e.comparators[0].value is False or e.comparators[0].value is None):
            c = e.comparators[0].value
            op = e.ops[0]
            if c is None:
                out.append((e, pol, at))
                continue
            same = isinstance(op, (ast.Eq, ast.Is))
            diff = isinstance(op, (ast.NotEq, ast.IsNot))
            if same or diff:
                p2 = pol if (bool(c) == same) else (not pol)
                work.append((e.left, p2, at, d))
                continue
        if isinstance(e, ast.Name) and d > 0:
            uv = rd.unique_value(e.id, at)
            out.append((e, pol, at))
            if uv is not None:
                work.append((uv[0], pol, uv[1], d - 1))
            continue
        out.append((e, pol, at))
    return out


def gate_on(ctx, fn: Func, node: Node, pe, gate_atom: str) -> bool:
    """True when some condition known to be *true* at `node` is a read of the
    gate atom (e.g. 'cfg:t4.enabled')."""
    for e, pol, at in implied_atoms(ctx, fn, node):
        if not pol:
            continue
        if isinstance(e, ast.BoolOp):
            continue
        if gate_atom in pe.atoms(fn, e, at):
            # a leaf that merely mixes the gate with other data (x or gate) was
            # already excluded; an IfExp/default wrapper around the read is fine
            return True
    return False


MUTATING_TAILS = {"append", "extend", "add", "update", "setdefault", "insert", "pop", "clear", "popitem", "remove", "discard", "appendleft", "sort", "reverse"}


def module_state_writes(ctx, modname: str, ignore: Sequence[str] = ()) -> List[Tuple[Func, ast.AST, str, str]]:
    """(function, node, name, how) for every write to module-level state from inside a function of the module:
    `global X` followed by a (re)binding of X, or a mutation of a module-level name bound to a container."""
    m = ctx.prog.module(modname)
    containers: Set[str] = set()
    for st in m.tree.body:
        if isinstance(st, (ast.Assign, ast.AnnAssign)) and st.value is not None:
            v = st.value
            is_c = isinstance(v, (ast.Dict, ast.List, ast.Set, ast.DictComp, ast.ListComp, ast.SetComp, ast.Tuple)) or (
                isinstance(v, ast.Call) and (dotted(v.func) or "").split(".")[-1] in ("dict", "list", "set", "defaultdict", "OrderedDict", "deque", "Counter"))
            for t in (st.targets if isinstance(st, ast.Assign) else [st.target]):
                if isinstance(t, ast.Name) and is_c and not t.id.startswith("__"):
                    containers.add(t.id)
    out: List[Tuple[Func, ast.AST, str, str]] = []
    for fn in m.funcs.values():
        globs: Set[str] = set()
        for x in walk_no_defs(fn.node):
            if isinstance(x, ast.Global):
                globs.update(x.names)
        local_store = {y.id for y in walk_no_defs(fn.node) if isinstance(y, ast.Name) and isinstance(y.ctx, ast.Store)} - globs
        params = set(fn.params)
        for x in walk_no_defs(fn.node):
            if isinstance(x, (ast.Assign, ast.AugAssign, ast.AnnAssign)):
                for t in (x.targets if isinstance(x, ast.Assign) else [x.target]):
                    for tt in ([t] if not isinstance(t, (ast.Tuple, ast.List)) else t.elts):
                        if isinstance(tt, ast.Name) and tt.id in globs and tt.id not in ignore:
                            out.append((fn, x, tt.id, "rebinds (global statement)"))
                        if isinstance(tt, (ast.Subscript, ast.Attribute)):
                            root = tt
                            while isinstance(root, (ast.Subscript, ast.Attribute)):
                                root = root.value
                            if isinstance(root, ast.Name) and root.id in containers and root.id not in local_store and root.id not in params and root.id not in ignore:
                                out.append((fn, x, root.id, "stores into"))
            if isinstance(x, ast.Call) and isinstance(x.func, ast.Attribute) and x.func.attr in MUTATING_TAILS:
                root = x.func.value
                while isinstance(root, (ast.Subscript, ast.Attribute)):
                    root = root.value
                if isinstance(root, ast.Name) and root.id in containers and root.id not in local_store and root.id not in params and root.id not in ignore:
                    out.append((fn, x, root.id, f"mutates (.{x.func.attr})"))
    return out



def separator_joined_ids(fn) -> list:
    """f-strings of the form f"{a}<sep>{b}..." in fn that join two or more dynamic parts with a constant separator and whose
    dynamic parts are not passed through an escaping call: the separator may occur inside a part, so two different tuples of
    parts can give the same text ("a→b","c" / "a","b→c").  Returns (JoinedStr, separator)."""
    import ast as _ast
    from .model import walk_no_defs as _w
    out = []
    for x in _w(fn.node):
        if not isinstance(x, _ast.JoinedStr):
            continue
        dyn = [v for v in x.values if isinstance(v, _ast.FormattedValue)]
        seps = [str(v.value) for v in x.values if isinstance(v, _ast.Constant) and str(v.value)]
        if len(dyn) < 2 or not seps:
            continue
        escaped = all(isinstance(v.value, _ast.Call) and not (isinstance(v.value.func, _ast.Name) and v.value.func.id in ("str", "repr", "int")) for v in dyn)
        if not escaped:
            out.append((x, seps[0]))
    return out
