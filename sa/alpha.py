"""E11 behaviour-preserving twins at scale: alpha-rename every purely local variable of one function (in memory).  A fresh
VIOLATION on such a twin is a false alarm of the rule (it keys on a spelling); a vanished anchor is brittle.  The thorough
tier runs this for every function a rule instance of the property is anchored in."""
from __future__ import annotations

import ast

def local_names(fn_node: ast.AST):
    """names bound only by plain assignment / for / with / comprehension-free stores in this function, never referenced
    in a nested scope, not parameters, not global/nonlocal"""
    params = set()
    a = fn_node.args
    for x in a.posonlyargs + a.args + a.kwonlyargs:
        params.add(x.arg)
    if a.vararg:
        params.add(a.vararg.arg)
    if a.kwarg:
        params.add(a.kwarg.arg)
    stores, banned = set(), set(params)
    nested_refs = set()

    def walk(node, depth):
        for ch in ast.iter_child_nodes(node):
            if isinstance(ch, (ast.FunctionDef, ast.AsyncFunctionDef, ast.Lambda, ast.ClassDef, ast.ListComp, ast.SetComp, ast.DictComp, ast.GeneratorExp)):
                if isinstance(ch, (ast.FunctionDef, ast.AsyncFunctionDef, ast.ClassDef)):
                    banned.add(ch.name)
                for y in ast.walk(ch):
                    if isinstance(y, ast.Name):
                        nested_refs.add(y.id)
                    if isinstance(y, ast.arg):
                        nested_refs.add(y.arg)
                continue
            if isinstance(ch, (ast.Global, ast.Nonlocal)):
                banned.update(ch.names)
            if isinstance(ch, ast.Name) and isinstance(ch.ctx, ast.Store):
                stores.add(ch.id)
            if isinstance(ch, (ast.Import, ast.ImportFrom)):
                for al in ch.names:
                    banned.add((al.asname or al.name).split(".")[0])
            if isinstance(ch, ast.ExceptHandler) and ch.name:
                banned.add(ch.name)
            if isinstance(ch, ast.Call) and isinstance(ch.func, ast.Name) and ch.func.id in ("locals", "vars", "eval", "exec", "globals"):
                banned.add("*")
            walk(ch, depth + 1)

    walk(fn_node, 0)
    if "*" in banned:
        return set()
    return {n for n in stores if n not in banned and n not in nested_refs and not n.startswith("__")}


def rename_in_source(src: str, fn_node: ast.AST, names) -> str:
    lines = src.split("\n")
    blines = [ln.encode("utf-8") for ln in lines]
    edits = []  # (line idx, col, old)

    def walk(node):
        for ch in ast.iter_child_nodes(node):
            if isinstance(ch, (ast.FunctionDef, ast.AsyncFunctionDef, ast.Lambda, ast.ClassDef, ast.ListComp, ast.SetComp, ast.DictComp, ast.GeneratorExp)):
                continue
            if isinstance(ch, ast.Name) and ch.id in names:
                edits.append((ch.lineno - 1, ch.col_offset, ch.id))
            walk(ch)

    walk(fn_node)
    for li, col, old in sorted(set(edits), key=lambda t: (t[0], -t[1])):
        b = blines[li]
        ob = old.encode("utf-8")
        if b[col:col + len(ob)] != ob:
            return ""
        blines[li] = b[:col] + ob + b"_zq" + b[col + len(ob):]
    return "\n".join(b.decode("utf-8") for b in blines)




# ------------------------------------------------------------------ structural twins (AST level, behaviour-preserving)
import copy as _copy


class _IfSwap(ast.NodeTransformer):
    """`if c: A else: B`  ->  `if not (c): B else: A`   (plain else only; elif chains are left alone)"""

    def __init__(self):
        self.n = 0

    def visit_FunctionDef(self, node):
        return node  # nested functions are separate units

    visit_AsyncFunctionDef = visit_FunctionDef
    visit_Lambda = visit_FunctionDef

    def visit_If(self, node):
        self.generic_visit(node)
        if node.orelse and not (len(node.orelse) == 1 and isinstance(node.orelse[0], ast.If)):
            self.n += 1
            return ast.copy_location(ast.If(test=ast.UnaryOp(op=ast.Not(), operand=node.test), body=node.orelse, orelse=node.body), node)
        return node


class _RetTmp(ast.NodeTransformer):
    """`return <expr>`  ->  `_rv_zq = <expr>; return _rv_zq`   (expr not a bare name / constant)"""

    def __init__(self):
        self.n = 0

    def visit_FunctionDef(self, node):
        return node

    visit_AsyncFunctionDef = visit_FunctionDef
    visit_Lambda = visit_FunctionDef

    def visit_Return(self, node):
        if node.value is None or isinstance(node.value, (ast.Name, ast.Constant)):
            return node
        self.n += 1
        a = ast.copy_location(ast.Assign(targets=[ast.Name(id="_rv_zq", ctx=ast.Store())], value=node.value, lineno=node.lineno), node)
        r = ast.copy_location(ast.Return(value=ast.Name(id="_rv_zq", ctx=ast.Load())), node)
        return [a, r]


def structural_variant(module_src: str, fn_node: ast.AST, kind: str) -> str:
    """source of the module with ONE function rewritten by the behaviour-preserving transformation `kind`
    ("ifswap" | "rettmp"); "" if the transformation does not apply"""
    tree = ast.parse(module_src)
    target = None
    for x in ast.walk(tree):
        if isinstance(x, (ast.FunctionDef, ast.AsyncFunctionDef)) and x.name == fn_node.name and x.lineno == fn_node.lineno:
            target = x
    if target is None:
        return ""
    if any(isinstance(y, ast.Call) and isinstance(y.func, ast.Name) and y.func.id in ("locals", "vars", "eval", "exec") for y in ast.walk(target)):
        return ""
    tr = _IfSwap() if kind == "ifswap" else _RetTmp()
    new_body = []
    for st in target.body:
        r = tr.visit(st)
        new_body += r if isinstance(r, list) else [r]
    if tr.n == 0:
        return ""
    target.body = new_body
    ast.fix_missing_locations(tree)
    try:
        return ast.unparse(tree)
    except Exception:
        return ""
