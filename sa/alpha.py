"""E11 behaviour-preserving twins at scale: alpha-rename every purely local variable of one function (in memory).  A fresh
VIOLATION on such a twin is a false alarm of the rule (it keys on a spelling); a vanished anchor is brittle.  The thorough
tier runs this for every function a rule instance of the property is anchored in."""
from __future__ import annotations

import ast

def local_names(fn_node: ast.AST):
    """names bound only by plain assignment / for / with / comprehension-free stores in this function, never referenced
    in a nested scope, not parameters, not global/nonlocal"""
    params = set()
    a = fn_node.args
    for x in a.posonlyargs + a.args + a.kwonlyargs:
        params.add(x.arg)
    if a.vararg:
        params.add(a.vararg.arg)
    if a.kwarg:
        params.add(a.kwarg.arg)
    stores, banned = set(), set(params)
    nested_refs = set()

    def walk(node, depth):
        for ch in ast.iter_child_nodes(node):
            if isinstance(ch, (ast.FunctionDef, ast.AsyncFunctionDef, ast.Lambda, ast.ClassDef, ast.ListComp, ast.SetComp, ast.DictComp, ast.GeneratorExp)):
                if isinstance(ch, (ast.FunctionDef, ast.AsyncFunctionDef, ast.ClassDef)):
                    banned.add(ch.name)
                for y in ast.walk(ch):
                    if isinstance(y, ast.Name):
                        nested_refs.add(y.id)
                    if isinstance(y, ast.arg):
                        nested_refs.add(y.arg)
                continue
            if isinstance(ch, (ast.Global, ast.Nonlocal)):
                banned.update(ch.names)
            if isinstance(ch, ast.Name) and isinstance(ch.ctx, ast.Store):
                stores.add(ch.id)
            if isinstance(ch, (ast.Import, ast.ImportFrom)):
                for al in ch.names:
                    banned.add((al.asname or al.name).split(".")[0])
            if isinstance(ch, ast.ExceptHandler) and ch.name:
                banned.add(ch.name)
            if isinstance(ch, ast.Call) and isinstance(ch.func, ast.Name) and ch.func.id in ("locals", "vars", "eval", "exec", "globals"):
                banned.add("*")
            walk(ch, depth + 1)

    walk(fn_node, 0)
    if "*" in banned:
        return set()
    return {n for n in stores if n not in banned and n not in nested_refs and not n.startswith("__")}


def rename_in_source(src: str, fn_node: ast.AST, names) -> str:
    lines = src.split("\n")
    blines = [ln.encode("utf-8") for ln in lines]
    edits = []  # (line idx, col, old)

    def walk(node):
        for ch in ast.iter_child_nodes(node):
            if isinstance(ch, (ast.FunctionDef, ast.AsyncFunctionDef, ast.Lambda, ast.ClassDef, ast.ListComp, ast.SetComp, ast.DictComp, ast.GeneratorExp)):
                continue
            if isinstance(ch, ast.Name) and ch.id in names:
                edits.append((ch.lineno - 1, ch.col_offset, ch.id))
            walk(ch)

    walk(fn_node)
    for li, col, old in sorted(set(edits), key=lambda t: (t[0], -t[1])):
        b = blines[li]
        ob = old.encode("utf-8")
        if b[col:col + len(ob)] != ob:
            return ""
        blines[li] = b[:col] + ob + b"_zq" + b[col + len(ob):]
    return "\n".join(b.decode("utf-8") for b in blines)


