"""Entry point:  python -m sa.check <PROP> --tier quick|thorough [--replay <witness>]

Exit 0: every decided obligation holds (known findings are printed, not alarms)
Exit 1: a fresh violation ("VIOLATION property=<id> replay=<path>")
Exit 2: the analysis itself is broken ("ANALYSIS-ERROR ...") - never a violation.
"""
from __future__ import annotations

import argparse
import importlib
import json
import os
import sys
import time
import traceback

from .model import AnalysisError, Program, REPO
from .report import (Ctx, EVIDENCE_DIR, HOLDS, UNDECIDED, VIOLATION, known_index, write_evidence)

PROPS = [f"C{i:02d}" for i in range(1, 21)]


def run_property(prop: str, tier: str, repo: str = REPO, prog: Program = None) -> Ctx:
    if prog is None:
        prog = Program(repo)
    ctx = Ctx(prog, prop, tier)
    mod = importlib.import_module(f"sa.rules.{prop.lower()}")
    mod.run(ctx)
    return ctx


def classify(ctx: Ctx):
    known = known_index(ctx.prop)
    fresh, kn = [], []
    for r in ctx.results:
        if r.status != VIOLATION:
            continue
        if (r.rule, r.key) in known:
            kn.append(r)
        else:
            fresh.append(r)
    return fresh, kn, known


def main(argv=None) -> int:
    ap = argparse.ArgumentParser()
    ap.add_argument("prop")
    ap.add_argument("--tier", default=os.environ.get("VERIF_TIER", "quick"), choices=["quick", "thorough"])
    ap.add_argument("--replay", default=None)
    ap.add_argument("--repo", default=REPO)
    ap.add_argument("--no-evidence", action="store_true")
    ap.add_argument("-v", "--verbose", action="store_true")
    a = ap.parse_args(argv)
    prop = a.prop.upper()
    seed = int(os.environ.get("VERIF_SEED", "0") or 0)
    t0 = time.time()
    try:
        if prop not in PROPS:
            raise AnalysisError(f"unknown property {prop}")
        ctx = run_property(prop, a.tier, a.repo)
        extra = {}
        fresh, kn, known = classify(ctx)
        if a.tier == "thorough" and not a.replay:
            from . import selftest

            try:
                extra = selftest.run_for(prop)
            except AnalysisError as e:
                if not fresh:
                    raise
                # the tree under test already violates the property: the corpus (anchored on the clean tree) may not apply;
                # the violation is the verdict, the self-test problem is reported as a note
                print(f"SELFTEST-NOTE property={prop} {e}")
                extra = {"selftest": {"note": str(e)[:400]}}
        mod = importlib.import_module(f"sa.rules.{prop.lower()}")
        if a.replay:
            with open(a.replay, "r", encoding="utf-8") as f:
                w = json.load(f)
            hit = [r for r in ctx.results if r.status == VIOLATION and r.rule == w.get("rule") and r.key == w.get("key")]
            if hit:
                for r in hit:
                    print(f"REPLAY reproduced: {r.rule} {r.key} at {r.where}: {r.msg}")
                    for l in r.witness:
                        print("    " + l)
                return 1
            print(f"REPLAY: witness {w.get('rule')} {w.get('key')} no longer reproduces on the current tree")
            return 0
        wall = time.time() - t0
        n_h = sum(1 for r in ctx.results if r.status == HOLDS)
        n_u = sum(1 for r in ctx.results if r.status == UNDECIDED)
        print(f"[{prop}] tier={a.tier} repo={a.repo} rules={len({r.rule for r in ctx.results})} "
              f"instances={len(ctx.results)} holds={n_h} undecided={n_u} known={len(kn)} fresh={len(fresh)} "
              f"funcs={len(ctx.analysed_funcs)} cfg_nodes={ctx.cfg_nodes} wall={wall:.2f}s")
        if a.verbose:
            for r in ctx.results:
                print(f"  {r.status:9s} {r.rule:14s} {r.key}  [{r.where}] {r.msg}")
        for r in kn:
            e = known[(r.rule, r.key)]
            print(f"KNOWN-FINDING: property={prop} rule={r.rule} key={r.key} at {r.where}: {e.get('what', r.msg)}")
        os.makedirs(os.path.join(EVIDENCE_DIR, "witness"), exist_ok=True)
        for i, r in enumerate(fresh):
            wp = os.path.join(EVIDENCE_DIR, "witness", f"{prop}-{i}.json")
            with open(wp, "w", encoding="utf-8") as f:
                json.dump({"property": prop, **r.as_dict()}, f, indent=1)
            print(f"  {r.rule} {r.key} at {r.where}: {r.msg}")
            for l in r.witness:
                print("      " + l)
            print(f"VIOLATION property={prop} replay={wp}")
        if not a.no_evidence:
            write_evidence(ctx, wall, fresh, kn, seed, extra=extra,
                           explanation=getattr(mod, "EXPLANATION", ""), rules_doc=getattr(mod, "RULES", None))
        return 1 if fresh else 0
    except AnalysisError as e:
        print(f"ANALYSIS-ERROR property={prop} {type(e).__name__}: {e}")
        return 2
    except Exception as e:  # internal bug in the checker: never looks like a violation
        traceback.print_exc()
        print(f"ANALYSIS-ERROR property={prop} internal {type(e).__name__}: {e}")
        return 2


if __name__ == "__main__":
    sys.exit(main())
