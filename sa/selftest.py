"""Checker validation (thorough tier).

Each property carries a corpus of *mutants* (one construct broken; the program
still parses/imports) and *twins* (behaviour-preserving refactors).  A mutant
must produce a fresh VIOLATION of the expected rule; a twin must produce no
violation that the unmodified tree does not already have.  The edits are applied
to an in-memory overlay of the parsed program: nothing is written to /repo,
/verif or a scratch directory.

A mutant whose anchor text no longer occurs exactly once in the file is skipped
(`stale`): the corpus validates the checker on the pinned tree's idioms; it does
not decide the property.  An unkilled mutant or an alarming twin is an
ANALYSIS-ERROR (the checker is wrong, not the repository).
"""
from __future__ import annotations

import importlib
import os
from concurrent.futures import ProcessPoolExecutor
from typing import Any, Dict, List, Optional, Tuple

from .model import AnalysisError, Program, REPO
from .report import Ctx, VIOLATION

# (id, kind 'mutant'|'twin', file, old, new, expected rule prefix or None)
Case = Tuple[str, str, str, str, str, Optional[str]]

_BASE: Optional[Program] = None


def _viol(prop: str, prog: Program):
    ctx = Ctx(prog, prop, "quick")
    mod = importlib.import_module(f"sa.rules.{prop.lower()}")
    mod.run(ctx)
    return {(r.rule, r.key) for r in ctx.results if r.status == VIOLATION}, ctx


def _run_case(args) -> Dict[str, Any]:
    prop, case, repo = args
    cid, kind, rel, old, new, expect = case
    global _BASE
    if _BASE is None or _BASE.repo != repo:
        _BASE = Program(repo)
    base = _BASE
    m = base.modules.get(rel[:-3].replace("/", "."))
    if m is None:
        return {"id": cid, "kind": kind, "status": "stale", "why": f"{rel} missing"}
    edits = [(old, new)] if isinstance(old, str) else list(old)
    text = m.src
    for o, nw in edits:
        if text.count(o) != 1:
            return {"id": cid, "kind": kind, "status": "stale", "why": f"anchor occurs {text.count(o)}x: {o[:40]!r}"}
        text = text.replace(o, nw)
    try:
        prog = base.with_override(rel, text)
        b, _ = _viol(prop, base)
        v, ctx = _viol(prop, prog)
    except AnalysisError as e:
        # a vanished anchor / floor failure is also a detection (exit 2, never silent)
        if kind == "mutant":
            return {"id": cid, "kind": kind, "status": "killed", "by": f"ANALYSIS-ERROR {e}"[:160]}
        return {"id": cid, "kind": kind, "status": "FAILED", "why": f"twin raised {e}"[:200]}
    fresh = sorted(v - b)
    if kind == "mutant":
        hit = [f for f in fresh if expect is None or f[0].startswith(expect)]
        if hit:
            return {"id": cid, "kind": kind, "status": "killed", "by": f"{hit[0][0]} {hit[0][1]}"}
        return {"id": cid, "kind": kind, "status": "FAILED", "why": f"not reported (fresh={fresh[:3]})"}
    if fresh:
        return {"id": cid, "kind": kind, "status": "FAILED", "why": f"twin alarmed: {fresh[:3]}"}
    return {"id": cid, "kind": kind, "status": "silent"}


def cases_for(prop: str) -> List[Case]:
    try:
        mod = importlib.import_module(f"sa.selftests.{prop.lower()}")
    except ModuleNotFoundError:
        return []
    return list(mod.CASES)


def run_for(prop: str, repo: str = REPO, jobs: Optional[int] = None) -> Dict[str, Any]:
    cases = cases_for(prop)
    if not cases:
        return {"selftest": {"cases": 0}}
    jobs = jobs or min(16, len(cases), os.cpu_count() or 4)
    work = [(prop, c, repo) for c in cases]
    if jobs > 1:
        with ProcessPoolExecutor(max_workers=jobs) as ex:
            res = list(ex.map(_run_case, work))
    else:
        res = [_run_case(w) for w in work]
    failed = [r for r in res if r["status"] == "FAILED"]
    out = {
        "selftest": {
            "cases": len(res),
            "mutants_killed": sum(1 for r in res if r["status"] == "killed"),
            "twins_silent": sum(1 for r in res if r["status"] == "silent"),
            "stale": sum(1 for r in res if r["status"] == "stale"),
            "failed": len(failed),
            "results": res,
        }
    }
    if failed:
        raise AnalysisError("checker self-test failed: " + "; ".join(f"{r['id']}: {r['why']}" for r in failed))
    return out


if __name__ == "__main__":
    import json
    import sys

    props = sys.argv[1:] or [f"C{i:02d}" for i in range(1, 21)]
    rc = 0
    for p in props:
        try:
            r = run_for(p.upper())["selftest"]
            print(p, {k: v for k, v in r.items() if k != "results"})
            for x in r.get("results", []):
                if x["status"] in ("stale",):
                    print("   ", x)
        except AnalysisError as e:
            print(p, "SELFTEST-FAILED", e)
            rc = 2
    sys.exit(rc)
