"""Checker validation (thorough tier).

Each property carries a corpus of *mutants* (one construct broken; the program
still parses/imports) and *twins* (behaviour-preserving refactors).  A mutant
must produce a fresh VIOLATION of the expected rule; a twin must produce no
violation that the unmodified tree does not already have.  The edits are applied
to an in-memory overlay of the parsed program: nothing is written to /repo,
/verif or a scratch directory.

A mutant whose anchor text no longer occurs exactly once in the file is skipped
(`stale`): the corpus validates the checker on the pinned tree's idioms; it does
not decide the property.  An unkilled mutant or an alarming twin is an
ANALYSIS-ERROR (the checker is wrong, not the repository).
"""
from __future__ import annotations

import ast

import importlib
import os
from concurrent.futures import ProcessPoolExecutor
from typing import Any, Dict, List, Optional, Tuple

from .model import AnalysisError, Program, REPO
from .report import Ctx, VIOLATION

# (id, kind 'mutant'|'twin', file, old, new, expected rule prefix or None)
Case = Tuple[str, str, str, str, str, Optional[str]]

_BASE: Optional[Program] = None


def _viol(prop: str, prog: Program):
    ctx = Ctx(prog, prop, "quick")
    mod = importlib.import_module(f"sa.rules.{prop.lower()}")
    mod.run(ctx)
    return {(r.rule, r.key) for r in ctx.results if r.status == VIOLATION}, ctx


def _shift(block: str, by: int) -> Optional[str]:
    """the block with every non-empty line indented by `by` more (or fewer) spaces; None if a line cannot lose that many"""
    out = []
    for ln in block.split("\n"):
        if not ln.strip():
            out.append(ln)
        elif by >= 0:
            out.append(" " * by + ln)
        elif ln.startswith(" " * (-by)):
            out.append(ln[-by:])
        else:
            return None
    return "\n".join(out)


def _run_case(args) -> Dict[str, Any]:
    prop, case, repo = args
    cid, kind, rel, old, new, expect = case
    global _BASE
    if _BASE is None or _BASE.repo != repo:
        _BASE = Program(repo)
    base = _BASE
    # a case may edit several files: rel None and edits given as (rel, old, new) triples
    triples = [(rel, o, nw) for o, nw in ([(old, new)] if isinstance(old, str) else list(old))] if rel is not None else list(old)
    texts: Dict[str, str] = {}
    for r, o, nw in triples:
        m = base.modules.get(r[:-3].replace("/", "."))
        if m is None:
            return {"id": cid, "kind": kind, "status": "stale", "why": f"{r} missing"}
        text = texts.get(r, m.src)
        if text.count(o) != 1:
            # the block may have moved to another nesting depth (a try / with wrapped around it): same text, shifted
            for shift in (4, 8, -4):
                o2, n2 = _shift(o, shift), _shift(nw, shift)
                if o2 is not None and n2 is not None and text.count(o2) == 1:
                    o, nw = o2, n2
                    break
        if text.count(o) != 1:
            return {"id": cid, "kind": kind, "status": "stale", "why": f"anchor occurs {text.count(o)}x: {o[:40]!r}"}
        texts[r] = text.replace(o, nw)
    try:
        prog = base
        for r, text in texts.items():
            prog = prog.with_override(r, text)
        b, _ = _viol(prop, base)
        v, ctx = _viol(prop, prog)
    except AnalysisError as e:
        # a vanished anchor / floor failure is also a detection (exit 2, never silent)
        if kind == "mutant":
            return {"id": cid, "kind": kind, "status": "killed", "by": f"ANALYSIS-ERROR {e}"[:160]}
        return {"id": cid, "kind": kind, "status": "FAILED", "why": f"twin raised {e}"[:200]}
    fresh = sorted(v - b)
    if kind == "mutant":
        hit = [f for f in fresh if expect is None or f[0].startswith(expect)]
        if hit:
            return {"id": cid, "kind": kind, "status": "killed", "by": f"{hit[0][0]} {hit[0][1]}"}
        return {"id": cid, "kind": kind, "status": "FAILED", "why": f"not reported (fresh={fresh[:3]})"}
    if fresh:
        return {"id": cid, "kind": kind, "status": "FAILED", "why": f"twin alarmed: {fresh[:3]}"}
    return {"id": cid, "kind": kind, "status": "silent"}


def apply_unified_diff(text: str, hunks_text: str) -> Optional[str]:
    """Apply the hunks of one file of a unified diff to `text` (exact context
    match at the stated line, else searched nearby). None if a hunk fails."""
    import re

    lines = text.split("\n")
    out: List[str] = []
    pos = 0
    hunk_re = re.compile(r"^@@ -(\d+)(?:,(\d+))? \+(\d+)(?:,(\d+))? @@")
    hl = hunks_text.split("\n")
    i = 0
    while i < len(hl):
        m = hunk_re.match(hl[i])
        if not m:
            i += 1
            continue
        start = int(m.group(1)) - 1
        i += 1
        old_seg, new_seg = [], []
        while i < len(hl) and not hl[i].startswith("@@") and not hl[i].startswith("diff --git"):
            l = hl[i]
            if l.startswith("\\"):
                pass
            elif l.startswith("+"):
                new_seg.append(l[1:])
            elif l.startswith("-"):
                old_seg.append(l[1:])
            elif l.startswith(" ") or l == "":
                if l == "" and i == len(hl) - 1:
                    break
                old_seg.append(l[1:])
                new_seg.append(l[1:])
            i += 1
        cand = [start] + [start + d for k in range(1, 400) for d in (k, -k)]
        at = None
        for c in cand:
            if c >= pos and lines[c:c + len(old_seg)] == old_seg:
                at = c
                break
        if at is None:
            return None
        out += lines[pos:at] + new_seg
        pos = at + len(old_seg)
    out += lines[pos:]
    return "\n".join(out)


def split_diff(diff_text: str) -> Dict[str, str]:
    """file rel path -> hunks text"""
    files: Dict[str, List[str]] = {}
    cur = None
    for l in diff_text.split("\n"):
        if l.startswith("diff --git"):
            cur = None
        elif l.startswith("+++ b/"):
            cur = l[6:].strip()
            files[cur] = []
        elif cur is not None and not l.startswith("--- "):
            files[cur].append(l)
    return {k: "\n".join(v) for k, v in files.items()}


SEEDED_DIR = os.path.join(os.path.dirname(os.path.dirname(os.path.abspath(__file__))), "seeded")


def seeded_cases(prop: str) -> List[Dict[str, Any]]:
    """Seeded changes produced independently (sub-agents); those recorded as
    detected must keep being reported by the named rule."""
    import json

    out = []
    if not os.path.isdir(SEEDED_DIR):
        return out
    # seeded/: changes made independently (sub-agents); fixrev/: every recorded "fix:" commit of /repo, reverted (generated by
    # tools/gen_fixrev.py from known_findings.json) - the rule that was written for the defect must report the reverted fix
    FIXREV_DIR = os.path.join(os.path.dirname(SEEDED_DIR), "fixrev")
    dirs = [(SEEDED_DIR, d) for d in sorted(os.listdir(SEEDED_DIR))] + ([(FIXREV_DIR, d) for d in sorted(os.listdir(FIXREV_DIR))] if os.path.isdir(FIXREV_DIR) else [])
    for base_dir, d in dirs:
        mp = os.path.join(base_dir, d, "meta.json")
        pp = os.path.join(base_dir, d, "patch.diff")
        if not (os.path.exists(mp) and os.path.exists(pp)):
            continue
        with open(mp, "r", encoding="utf-8") as f:
            meta = json.load(f)
        if meta.get("retired"):
            continue   # the defect it seeded can no longer arise on HEAD (a later fix removed its precondition); kept for the record
        for det in meta.get("detected_by", []):
            if det.get("property") == prop:
                out.append({"id": "seeded:" + d, "patch": pp, "expect": det.get("rule")})
    return out


def _run_seeded(args) -> Dict[str, Any]:
    prop, case, repo = args
    global _BASE
    if _BASE is None or _BASE.repo != repo:
        _BASE = Program(repo)
    base = _BASE
    with open(case["patch"], "r", encoding="utf-8") as f:
        files = split_diff(f.read())
    prog = base
    try:
        for rel, hunks in files.items():
            m = base.modules.get(rel[:-3].replace("/", "."))
            if m is None:
                return {"id": case["id"], "kind": "seeded", "status": "stale", "why": f"{rel} missing"}
            new = apply_unified_diff(m.src, hunks)
            if new is None:
                return {"id": case["id"], "kind": "seeded", "status": "stale", "why": f"patch no longer applies to {rel}"}
            prog = prog.with_override(rel, new)
        b, _ = _viol(prop, base)
        v, ctx = _viol(prop, prog)
    except AnalysisError as e:
        return {"id": case["id"], "kind": "seeded", "status": "killed", "by": f"ANALYSIS-ERROR {e}"[:160]}
    fresh = sorted(v - b)
    hit = [f for f in fresh if not case["expect"] or f[0].startswith(case["expect"])]
    if hit:
        return {"id": case["id"], "kind": "seeded", "status": "killed", "by": f"{hit[0][0]} {hit[0][1]}"}
    return {"id": case["id"], "kind": "seeded", "status": "FAILED", "why": f"seeded change no longer reported (fresh={fresh[:3]})"}


def _run_alpha(args) -> Dict[str, Any]:
    """alpha-rename the locals of one anchored function: the verdict set must not change"""
    prop, qual, repo = args[:3]
    variant = args[3] if len(args) > 3 else "rename"
    global _BASE
    if _BASE is None or _BASE.repo != repo:
        _BASE = Program(repo)
    base = _BASE
    from .alpha import local_names, rename_in_source, structural_variant
    fn = base.funcs.get(qual)
    rid = f"alpha:{variant}:{qual}"
    if fn is None:
        return {"id": rid, "kind": "alpha", "status": "skipped"}
    if variant == "rename":
        names = local_names(fn.node)
        if not names:
            return {"id": rid, "kind": "alpha", "status": "skipped"}
        text = rename_in_source(fn.module.src, fn.node, names)
    else:
        names = ()
        text = structural_variant(fn.module.src, fn.node, variant)
    if not text:
        return {"id": rid, "kind": "alpha", "status": "skipped"}
    try:
        ast.parse(text)
    except SyntaxError:
        return {"id": rid, "kind": "alpha", "status": "skipped"}
    try:
        b, _ = _viol(prop, base)
        v, _ = _viol(prop, base.with_override(fn.module.rel, text))
    except AnalysisError as e:
        return {"id": rid, "kind": "alpha", "status": "FAILED", "why": f"anchor lost under the behaviour-preserving rewrite `{variant}`: {e}"[:200]}
    norm = lambda st: {(r, k.replace("_zq", "")) for r, k in st}
    fresh = sorted(norm(v) - norm(b))
    gone = sorted(norm(b) - norm(v))
    if fresh:
        return {"id": rid, "kind": "alpha", "status": "FAILED", "why": f"behaviour-preserving rewrite `{variant}` raised {fresh[:2]}"}
    if gone:
        return {"id": rid, "kind": "alpha", "status": "FAILED", "why": f"behaviour-preserving rewrite `{variant}` hid {gone[:2]}"}
    return {"id": rid, "kind": "alpha", "status": "silent", "names": len(names)}


def alpha_targets(prop: str, repo: str) -> List[str]:
    """functions in which a rule instance of the property is anchored (the part of a result key before '/')"""
    global _BASE
    if _BASE is None or _BASE.repo != repo:
        _BASE = Program(repo)
    try:
        _, ctx = _viol(prop, _BASE)
    except AnalysisError:
        return []
    out = []
    for r in ctx.results:
        q = r.key.split("/")[0]
        while q and q not in _BASE.funcs and "." in q.split(":")[-1]:
            q = q.rsplit(".", 1)[0]
        if q in _BASE.funcs and q not in out:
            out.append(q)
    return sorted(out)


def cases_for(prop: str) -> List[Case]:
    try:
        mod = importlib.import_module(f"sa.selftests.{prop.lower()}")
    except ModuleNotFoundError:
        return []
    return list(mod.CASES)


def run_for(prop: str, repo: str = REPO, jobs: Optional[int] = None) -> Dict[str, Any]:
    cases = cases_for(prop)
    seeded = seeded_cases(prop)
    if not cases and not seeded:
        return {"selftest": {"cases": 0}}
    jobs = jobs or max(1, min(16, len(cases) + len(seeded), os.cpu_count() or 4))
    work = [(prop, c, repo) for c in cases]
    swork = [(prop, c, repo) for c in seeded]
    awork = [(prop, q, repo, v) for q in alpha_targets(prop, repo) for v in ("rename", "ifswap", "rettmp")]
    jobs = max(jobs, min(16, len(awork)))
    if jobs > 1:
        with ProcessPoolExecutor(max_workers=jobs) as ex:
            res = list(ex.map(_run_case, work)) + list(ex.map(_run_seeded, swork)) + list(ex.map(_run_alpha, awork))
    else:
        res = [_run_case(w) for w in work] + [_run_seeded(w) for w in swork] + [_run_alpha(w) for w in awork]
    failed = [r for r in res if r["status"] == "FAILED"]
    out = {
        "selftest": {
            "cases": len(res),
            "mutants_killed": sum(1 for r in res if r["status"] == "killed"),
            "twins_silent": sum(1 for r in res if r["status"] == "silent" and r["kind"] != "alpha"),
            "alpha_twins_silent": sum(1 for r in res if r["status"] == "silent" and r["kind"] == "alpha"),
            "alpha_twins_skipped": sum(1 for r in res if r["status"] == "skipped"),
            "stale": sum(1 for r in res if r["status"] == "stale"),
            "seeded_changes_detected": sum(1 for r in res if r["kind"] == "seeded" and r["status"] == "killed"),
            "failed": len(failed),
            "results": res,
        }
    }
    if failed:
        raise AnalysisError("checker self-test failed: " + "; ".join(f"{r['id']}: {r['why']}" for r in failed))
    return out


if __name__ == "__main__":
    import json
    import sys

    props = sys.argv[1:] or [f"C{i:02d}" for i in range(1, 21)]
    rc = 0
    for p in props:
        try:
            r = run_for(p.upper())["selftest"]
            print(p, {k: v for k, v in r.items() if k != "results"})
            for x in r.get("results", []):
                if x["status"] in ("stale",):
                    print("   ", x)
        except AnalysisError as e:
            print(p, "SELFTEST-FAILED", e)
            rc = 2
    sys.exit(rc)
