"""Ordered event extraction with callee must-sequence summaries.

A rule names events by classifying call sites.  A call to a repository function
that is not itself an event contributes that callee's *must sequence*: the
events on the nodes that dominate its normal exit, in dominance order (so moving
a required call into a helper keeps the rule satisfied).
"""
from __future__ import annotations

import ast
from typing import Callable, Dict, List, Optional, Tuple

from .cfg import Node
from .model import Func
from .util import node_calls

Classify = Callable[[Func, ast.Call, str], Optional[str]]


class Events:
    def __init__(self, ctx, classify: Classify, depth: int = 3, extra: Optional[Callable[[Func, Node], List[str]]] = None):
        self.ctx = ctx
        self.classify = classify
        self.depth = depth
        self.extra = extra  # events carried by a node itself (e.g. the exit branch of a "write until done" loop)
        self._summ: Dict[str, List[str]] = {}
        self._active: set = set()

    def at(self, fn: Func, n: Node, depth: Optional[int] = None) -> List[str]:
        depth = self.depth if depth is None else depth
        calls = node_calls(n)
        # evaluation order approximated by end position (inner calls finish first)
        calls.sort(key=lambda c: (getattr(c, "end_lineno", 0), getattr(c, "end_col_offset", 0)))
        out: List[str] = list(self.extra(fn, n)) if self.extra is not None else []
        for c in calls:
            nm = self.ctx.prog.callee_name(fn, c)
            ev = self.classify(fn, c, nm)
            if ev is not None:
                out.append(ev)
                continue
            if depth > 0:
                r = self.ctx.prog.callee(fn, c)
                if r is not None and r[0] == "func":
                    out += self.summary(self.ctx.prog.funcs[r[1]], depth - 1)
        return out

    def summary(self, fn: Func, depth: Optional[int] = None) -> List[str]:
        depth = self.depth if depth is None else depth
        key = f"{fn.qual}@{depth}"
        if key in self._summ:
            return self._summ[key]
        if fn.qual in self._active:
            return []
        self._active.add(fn.qual)
        try:
            cfg = self.ctx.cfg(fn)
            dom = cfg.dominators().get(cfg.exit)
            seq: List[str] = []
            if dom is not None:
                chain = [n for n in cfg.nodes if (dom >> n.id) & 1]
                # order the chain by dominance: a before b iff a dominates b
                chain.sort(key=lambda n: bin(cfg.dominators()[n]).count("1"))
                for n in chain:
                    seq += self.at(fn, n, depth)
            self._summ[key] = seq
            return seq
        finally:
            self._active.discard(fn.qual)

    def nodes_with(self, fn: Func, ev: str) -> List[Node]:
        cfg = self.ctx.cfg(fn)
        return [n for n in cfg.nodes if ev in self.at(fn, n)]
