"""Per-property claim text for MANIFEST.json (what is decided, what is not)."""
PENDING_REASON = "static rules designed in DESIGN.md §3 but the check is not registered yet (under construction)"

CLAIMS = {
    "C01": {
        "technique": "static analysis: wall-clock taint of the turn loop and every canonical-path function into log payload keys (mask table extracted from normalize_for_identity as sanitiser), branch conditions, returns, stores and call arguments; guard classification of every clock read (absent-logical-input fallback / default-parameter fallback with call-site obligations / timing-only); hit-vs-fresh return comparison of the T1 worker followed through the fold into the canonical record; "
                     "flow-sensitive iteration-order typing (sets, dict-view algebra, directory listings and what inherits their order) with total-key-sort dominance as the only discharge; effect query for RNG / uuid / pid reads; must-dominate check of the naive-means-UTC guard in the sibling timestamp parsers",
        "text": "Decides: every value derived from time.perf_counter / time.time / datetime.now in run_turn, the reflection runner, apply, snapshot, the stages, the index and the logging helpers reaches a canonical stream only under a key the identity normaliser masks for that stream, decides no branch, and leaves its function only under a masked key; every wall-clock read in stage code is either a fallback for an absent logical input or a default-parameter fallback whose call sites all supply the reference time; apply.now is rebuilt from ctx.now_ms; "
                "no field of the canonical T1 record differs between the cache-hit and the fresh return of the per-graph worker other than through the (process-global) cache; no set, dict-view algebra result or directory listing (or list / dict / return value that inherits its order) is indexed, sliced, joined, serialised, summed, consumed by a first-match loop or keyed max/min without a dominating total-key sort; the stages and the deterministic embedding adapter reach no RNG / uuid / pid read.",
        "note": "Not decided: byte equality of two executions, floating-point / BLAS reproducibility, thread timing (the order-restoring structure is C09), total-order tie-breaks inside the stages (C03/C11/C12/C18). Order typing follows locals, one call level of returns and arguments; collections stored in attributes or nested containers are not followed. 2 further defects of this kind were repaired (malformed timestamps dated by the wall clock, offset-less timestamps read in the host's time zone). 11 known findings: wall-clock driven yields (5 stage boundaries + the yield_reason field), the reflection wall budget, and the T1 cache counters / max_delta that depend on the process-global cache.",
    },
    "C02": {
        "technique": "static analysis: forward flow of gated-subtree configuration reads (access-path evaluation, closure-aware) to observable uses with gate dominance / conjunction as the only discharges, callee-entered-under-gate summaries, gate dominance of artefact writers and of GEL / scheduler call sites, control dependence of the validator's materialisation; who-may-read scan of all engine functions against the validator's ALLOWED tables and a frozen confirmed-instance table",
        "text": "Decides for the anchored gate consumers (T1 incl. its closure and cache selection, T2 cache selection, apply_quality, budget derivation, the reflection runner/backends/writer, parallel predicates): every value read from perf.*, perf.parallel.*, graph.*, t2.quality.*, t2.hybrid.* or scheduler.* reaches a branch, loop, call argument, return or store only where its gate is known true, "
                "is conjoined with it, builds a cache key, or lives in a function every caller enters under the gate; the metrics gate conjoins perf.enabled and byte caches are selected only under it; gel.jsonl / scheduler events / the quality shadow trace / t3_reflection.jsonl and the GEL, budget-derivation and scheduler-load call sites of run_turn are gate-dominated, stale slice budgets are cleared; "
                "the validator writes perf / t2.quality into the normalised tree only when the user supplied them. Every other engine function (467 scanned) that reads a gated subtree uses it gated, reads a key the validator rejects, is entered only under the gate, or is one of 10 confirmed instances with a reason.",
        "note": "Not decided: equality of utterances, logs, snapshots and state with the run that omits the subtree (execution equality). 5 known findings: reflection budgets under scheduler.budgets act with the scheduler gate off (3); the T1 / T2 parallel gates act with perf.enabled off and the fan-out is not result-identical (2, pinned by the test suite; the agent-level gate was repaired).",
    },
    "C14": {
        "technique": "static analysis: taint of untrusted input values into may-raise sinks with total coercions / isinstance narrowing / try as sanitisers, alias (freshness) classification of every mutated dictionary with helper summaries, handler-shape check of the API variants, set-in-message / set-iteration detection, NaN-closure of float coercion, validator<->engine table agreement (hard subscripts, typed uses of config values); supplier-set resolution of aliased .get chains against all-paths coercion in the validator",
        "text": "Decides on configs/validate.py: every ordering comparison, arithmetic, len/int/float/sorted, iteration, string method or membership test applied to a value read from the input is behind a total coercion, a validator-stored coerced key (on all paths), an isinstance narrowing or try/except, and keys are stringified before the edit-distance helper; "
                "every store / mutating call targets a dictionary built by _ensure_dict/_ensure_subdict/_deep_merge/dict()/literal and those helpers return fresh objects on all paths; all API variants and the script call the one normaliser and catch only ConfigError, deriving messages from str(e); no message interpolates or iterates a set without sorted(); "
                "_coerce_float never returns NaN; every stage-config key the engine subscripts without default is always present, and every allowed t1/t2 key the stages use as number / mapping / sequence without a total accessor is coerced or type-checked by the validator. For every int()/float() of a nested configuration value in the engine, each key that can supply it in a validated config (alias fallbacks resolved) is stored coerced by the validator on every accepting path.",
        "note": "Not decided: that the engine can execute turns under every accepted configuration (needs running turns); value ranges actually honoured at run time; YAML loader behaviour. CONTRACT covers the stage modules' direct reads of cfg_t1..cfg_t4 (orchestrator / GEL reads go through .get with defaults).",
    },
    "C05": {
        "technique": "static analysis: access-path dependency containment In(value) <= In(key) over the memoised regions (backward slices with control dependence, callee dependency summaries), free-variable and per-config-key containment for the T1 closure, sibling key agreement for the turn-level cache, write/bump pairing and content-derivation of version components, instance-discriminator check for process-global caches, alias/mutation check of cached objects; all-paths version-bump checks; return-origin / parameter-mutation summaries for aliasing through helpers",
        "text": "Decides: every configuration/context/state access path the cached T2 result (retrieved + residual deltas) depends on is in the dependency set of the stage key, version-covered (index version+uid, encoder type) or on a frozen exemption list; the turn-level key dominates the stage key and depends on agent, clock, state version, index, T1's result and the input; "
                "every free variable and every cfg_t1 key read in the T1 compute region is part of the T1 key and the store is covered by store.version_etag(gid); get and put use the same key; every graph write reaches an etag re-derivation that hashes node and edge content, the index version only grows; "
                "process-global caches are keyed by a content-derived version or an instance uid; cached objects are only touched in diagnostic metric fields and the T1 fold never mutates a list that aliases a cached per-graph result. Where an exception can leave a store method after a write without the etag bump, every normal pass over a recognised delta reaches the bump; every write of the episode list reaches the version increment on all paths; aliasing / mutation of cached lists is followed through helper calls.",
        "note": "Not decided: equality of stage results with caches on vs off over all histories (execution equality); precision is at access-path / variable level (an atom present in both sets is assumed to be used consistently). Cache diagnostics (hit/miss counters, max_delta on a hit) are excluded by the statement itself.",
    },
    "C10": {
        "technique": "static analysis: interprocedural effect analysis of run_turn restricted to nodes feasible under the dry-run flag, guard facts of commit-side sites, loop-source/sort-key/provenance checks of the commit phase, pairing checks of batch selection, shape check of the back-pressure handler, final-drain must-pass, cross-module arrival-counter obligation, kill-switch sibling check",
        "text": "Decides: which statements of run_turn (directly or through resolved callees) store into the state object on paths feasible in a dry run - each is a violation because the compute phase is handed a ReadOnlyState; T3, GEL, apply and reflection compute are unreachable in a dry run with T4 on; "
                "commits iterate _sort_turn_buffers(buffers) with one apply per buffer on the buffer's own deltas and the apply record keyed by the buffer's (turn, slice); batch selection tests the worker limit, picks only disjoint graph sets, updates the used set, and only picked agents are computed on one shared snapshot; "
                "each captured record is keyed and staged, back-pressure drains, writes and retries the same record exactly once, other errors re-raise, the final drain and disable_staging lie on every normal exit, draining never resets the arrival counter; the commit phase honours the T4 kill switch and the gate-off fallback runs plain turns.",
        "note": "Not decided: equality of files and state with a sequential run for all batches, payload sizes and byte limits (execution equality); thread behaviour of real compute phases. On today's tree C10.RO reports 4 known findings: the real run_turn writes state on the dry-run path, so the driver raises with the real pipeline (see DESIGN section 4 #17).",
    },
    "C11": {
        "technique": "static analysis: taint from raw episode storage to ranked lists with the owner filter as sanitiser across four sibling search_tiered implementations (incl. the LanceDB backend that cannot run offline), guard facts and must-pass checks for threshold / k / dedupe, must-pass of the total-key sort before the rerank layers, provenance of every list the rerank layers assign, residual-loop source and cap checks; partition-shape rule; sibling agreement of timestamp parsers",
        "text": "Decides: every ranked list in InMemoryIndex, its shard view, LanceIndex and its shard view derives only from owner-filtered records and t2_semantic passes owner_for_query(ctx,cfg) (agent -> ctx.agent_id) on every path, including the embed-store reader path; the similarity test dominates every scored append; "
                "ranked lists are cut to k and the tier walk tests k_retrieval around each append; the seen-id test dominates and is paired with each append; recency only on the exact tier, cluster pool = top clusters_top_m; the list handed to the rerank layers is on every path the projection of a list sorted by (-combined, id) with the three t2.ranking weights; "
                "rerank layers only assign lists looked up in an id->ref map of their input (or the hybrid reranker's reordered copy) and construct no episodes; residual nudges iterate the slice-capped hits, use the label map of existing nodes, de-duplicate and test the residual cap after every choice. head + tail constructions of the rerank layers are partitions (MMR: head + complement over the whole baseline order, selection removes what it picks; hybrid: one slice bound); the two timestamp parsers normalise identically and offset-aware.",
        "note": "Not decided: that the rerank layers return a bijection of their input (drops/duplicates are value-level), numeric correctness of cosine/combined scores, zero vectors, tie behaviour of float scores.",
    },
    "C09": {
        "technique": "static analysis: taint of completion-order positions into sort keys / merge order, sort-key shape and stable-sort reasoning, dominance of the error raise over the merge, call-site conformance, sibling cross-check by extracted field->operator maps and per-tier hint tables, effect analysis of submitted thunks; loop-carried dependence taint in the per-shard tier loop",
        "text": "Decides: run_parallel hands merge_fn a list ordered by (order_key(key), submit index) (pool) or a stable order_key sort of a submit-ordered list (one worker), no enumerate(as_completed) position reaches a key, result or error order, "
                "`if errors: raise` dominates the pool merge with failures sorted by the same key, zero tasks merge []; every caller passes callables; T1's sequential fold and merge_fn aggregate the same 15 (field, operator, gate) triples position by position with "
                "task keys carrying the graph position; the shard fan-out passes search_tiered the same per-tier hint keys, from parameters fed by the same config values, and the cross-shard merge sorts by (-qscore, id), de-duplicates and stops at k; thunks write only locals and the lock-wrapped cache. In the per-shard worker no value carried over from another tier reaches a branch or a search_tiered argument of the tier loop.",
        "note": "Not decided: result equality across real thread schedules and worker counts (schedule exploration); shard-compositionality of the cluster tier - cluster_semantic selects top-m clusters per shard, which is not the global top-m in general (semantic; recorded in DESIGN section 4 as a known limitation, no rule detects it).",
    },
    "C13": {
        "technique": "static analysis: dominance of the op-cap truncation over the Plan constructor, guard facts of the RequestRetrieve constructor and intent assignments, call-site/loop checks for the single refinement, return provenance through the token truncation, effect analysis of the planner, may-raise (narrowing-guard) analysis of the sanitiser, schema-constant and key-set agreement; zero-is-a-value taint over the budget readers",
        "text": "Decides: deliberate and rag_once hand Plan() an op list that passed `ops[:min(turn cap, slice cap)]` with nothing appended afterwards and a leading unconditional Speak op; RequestRetrieve is built only under s_max < tau_low and the intent "
                "follows the two-threshold cascade; run_turn refines at one non-loop site under requested_retrieve and max_rag_loops>=1 and rag_once retrieves once; speak/llm_speak return the first component of _truncate_to_tokens(text, max_tokens) on every path; "
                "deliberate is effect-free; every operation the sanitiser applies to an untrusted value is behind an isinstance narrowing or try/except, constant-key subscripts follow a presence check; limits are the imported schema constants measured on the raw returned values and key sets equal the schema's. No reader of a per-slice budget tests it by truthiness or positivity (budget 0 binds).",
        "note": "Not decided: threshold monotonicity as an input/output law; arbitrary LLM behaviour; (the utterance filter's rules are decided since round 7: no replacement has more tokens than every match must touch); run_turn's empty-utterance placeholder returns the input text (by design, not claimed).",
    },
    "C20": {
        "technique": "static analysis: exception-escape over a frozen table of declared fail-soft call sites (lexical catch-all enclosure or total callee, handler-cannot-raise), handler neutrality w.r.t. canonical streams, handler fall-through and reachability of the final turn record; provenance of the state-stored block; record-field typing against engine dereferences; raise-after-first-live-write path check",
        "text": "Decides, for each declared optional subsystem site (boot snapshot load, GEL merge/split/promotion, reflection compute/write/telemetry, LLM adapter build, hybrid/fusion/MMR/shadow trace in apply_quality, T3 trace, "
                "cache invalidation and store apply in apply_changes, both sidecar writers, telemetry append): the call is enclosed in its own function by a handler catching Exception whose body cannot raise, or the callee is total; "
                "those handlers append to no canonical stream and neither return nor raise, and the final turn.jsonl record stays reachable from each of them. The snapshot GEL block reaches state only as containers the normaliser built, every edge field the engine dereferences is typed by the normaliser, and the store import is all-or-nothing inside its fail-soft try.",
        "note": "Not decided: equality of the canonical records with a fault-free / subsystem-off run under injected faults (fault enumeration), and behaviour on garbage snapshot contents beyond exceptions being contained. "
                "The boot hook's `finally` stores into state and raises for a read-only state view (C10 finding); write_snapshot itself and gel_observe/gel_tick are not declared optional by the statement (information only).",
    },
    "C19": {
        "technique": "static analysis: guard facts and atom provenance of the reflect call, must-pass of the result reset on every runner path, dominance of the ops-cap return over index.add, def-use shape of the stored summary, effect/attribute whitelist of the id helpers, ordering and no-later-store checks in run_turn, final-stash and fail-soft enclosure checks; shared-state write scan; path check of the missing-file branch",
        "text": "Decides: reflect() is reachable only with dry-run off, t3.allow_reflection true and the plan's reflection flag; every runner path (re)sets ctx._reflection_result and run_turn reads it only after this turn's runner call; "
                "the writer returns before index.add when ops_cap<=0, truncates to ops_cap and iterates the truncated list, backends emit at most one entry; the stored text is _truncate_tokens(normalised text, summary_tokens); ids and timestamps read "
                "only agent_id/turn_id/slot/text/now_ms/now_iso; reflection runs after the apply record and nothing afterwards writes utter/plan/t1/t2/t4/apply; error and timeout results carry no entries, the stashed result is the final one, all three blocks are fail-soft. No class-level or module-level container on the fixture / backend path is filled by a method, and the adapter's constructor cannot return normally on the 'file missing' side of its existence test.",
        "note": "Not decided: byte equality of the turn's T1/T2/T4/apply records and utterance with a reflection-off run (execution equality); behaviour of arbitrary fixture contents; the wall-clock timeout itself is time-dependent by design (see C01).",
    },
    "C12": {
        "technique": "static analysis: effect analysis with the store receiver resolved through a class hint, guard-fact/dominance checks of the budget tests over the accumulation, must-pass pairing of work and counters, factor provenance of the contribution, seeding/ordering shape, free-variable-vs-cache-key slice containment",
        "text": "Decides on t1.py and graph/store.py: propagation performs no mutating operation on the store, its graphs or the state (and the store's read API creates nothing); the work loop is bounded by the pop counter "
                "incremented once per iteration before any continue; radius and (slice-clamped) layer tests dominate every accumulation with d = dist[u]+1; the relaxation cap is tested after every relaxation and stops all work; "
                "the node budget gates expansion; effective budgets are min(config, slice cap); every accumulation counts one propagation, skips count their cap, iters = min(layers, cap); a contribution is w x edge weight x relation "
                "multiplier x _compute_decay(d); seeds only where the lower-cased label occurs, visited sorted; one delta per id in sorted order; every loop budget is part of the result-cache key.",
        "note": "Not decided: agreement with an independent reference propagation on all graphs (cycles, parallel edges, negative weights), the EPS cut-off numerics, and the exact set of touched nodes as a value-level law. "
                "Inert perf knobs (dedupe ring / visited set are falsy when empty) are not part of the statement.",
    },
    "C17": {
        "technique": "static analysis: effect analysis of the selection function, return-value provenance against the eligibility filter, dominance order of the reason returns, who-may-call + must-pass of stage calls before each yield check, def-use of slice caps into min()/slice clamps; zero-is-a-value taint over the budget readers",
        "text": "Decides: next_turn is effect-free and reads time only through ctx.now_ms(); every returned agent comes from the list filtered by consec < max_consecutive_turns, or is min(queue) with RESET_CONSEC exactly where "
                "that list is empty; on_yield stamps the injected clock, adds exactly one, and zeroes all counters on reset; _should_yield tests wall before budgets before quantum on every path with each budget reason comparing "
                "its own counter; _should_yield is called only from run_turn, after the stage it names, and every yield return follows the scheduler event and a yielded turn record; slice caps reach the T1 loop guards, the T2 hits used "
                "and the T3 op cap only through min()/slice clamps. No reader of a per-slice budget tests it by truthiness or positivity (budget 0 binds).",
        "note": "Not decided: the starvation bound 2*(agents-1)*allowance+1 and any other property of infinite selection/yield histories (liveness - needs model checking, a different technique); the driver-side queue rotation in scripts/demo.py.",
    },
    "C18": {
        "technique": "static analysis: reaching-definition shape of every weight store, interval argument from the syntactic shape of the decay factor and its guards, must-pass of a total-key sort before truncation, key provenance at edge insertions, write-set and gate-dominance checks, one cross-module obligation against the validator; sibling canonical-key shape; module-state write scan",
        "text": "Decides on gel.py: observations store only _clamp(., graph.update.clamp_min, clamp_max); a tick stores only previous*factor with factor 0.0 or c**(max(0,dt)/half_life>0), c in (0,1), "
                "queues exactly the |w|<floor edges and deletes them after the iteration, and 0 lies in the clamp interval (validator) so shrinking stays in bounds; every edge insertion is keyed by _edge_key; "
                "the candidate list is threshold-filtered and sorted by (-score,id) before any truncation and pair updates are counted against the pair cap; merge/split append only under meta, promotion inserts "
                "concept nodes only if absent with previous-content-independent edge fields, candidate functions write nothing; no state access before the graph.enabled test. Every edge-key constructor in the engine (gel, snapshot writer/loader) orders its endpoints like _edge_key; gel.py / hybrid.py write no module-level state.",
        "note": "Not decided: idempotence of promotion and order-insensitivity of observation as executed input/output laws, float monotonicity to the ulp, NaN weights already present in a loaded state. "
                "apply_promotion clamps attach_weight to [-1,1], not to graph.update.clamp_* (outside the statement's observations-and-ticks clause; information only).",
    },
    "C03": {
        "technique": "static analysis: transitive effect analysis (mutation origin, I/O, nondeterminism), def-use chain of the stage pipeline, guard-fact/reaching-definition shape of the numeric kernels, constructor provenance, order-dependent-fold and key-injectivity rules; zero-is-a-value taint (sa/zero.py); canonical-key shape",
        "text": "Decides on t4.py: t4_filter and its callees are effect-free and read nothing but their arguments; approved_deltas is, on every return, sorted(canonical key) of "
                "churn_cap(l2_scale(novelty_clamp(cooldown_filter(combine(plan deltas))))); each kernel establishes its bound by construction (+-cap or guarded pass-through; cap/norm factor only where "
                "norm>cap; first k of a sort by (-|d|, canonical key) or the input where n<=k; op_idx not in blocked_ops, blocked = (turn-last) < cooldown, reported sorted); constructed deltas copy their "
                "target from an input delta; duplicates are merged by an order-insensitive sum under an injective key and every stage output is canonical-ordered or sorted by a total key. Provenance indices (Optional[int]) are tested by identity, never truthiness; the canonical key leads with the joined identity kind:id:attr.",
        "note": "Not decided: the numeric envelope to the last ulp under floating-point rounding (||.||_2 <= cap after scaling), NaN/inf/denormal magnitudes, and equality of outputs across permuted inputs as an executed law.",
    },
    "C08": {
        "technique": "static analysis: who-may-touch classification of file operations, typestate over a statement CFG with exception edges, call-graph who-may-write, name-language disjointness",
        "text": "Decides, on every CFG path of clematis/io/atomic.py and for every writer in the durable-artefact modules, the structural "
                "necessary conditions of all-or-nothing replacement: the destination is only ever the target of os.replace from a temp file "
                "in the same directory; the temp is written+fsynced before the rename on all paths; every exceptional exit after creation "
                "passes a cleanup attempt; snapshot/sidecar/compaction writers go through atomic_write_*; temp names cannot satisfy discovery "
                "predicates. With POSIX rename atomicity (A3) these imply the property for crashes and failing calls; they are not a fault-injection run.",
        "note": "Not decided: actual crash/EIO injection at each I/O boundary and kernel-level durability of rename/fsync (OS trusted base A3); "
                "partial raw write() on an unbuffered handle is assumed complete for regular files.",
    },
    "C04": {
        "technique": "static analysis: typestate counting over the CFG with exception edges, def-use shape of the batch argument, handler dominance, exception-escape, guard dominance over config access paths, sibling cross-check of apply_changes callers; commit-once path check incl. callable-parameter multi-invocation summaries; must-pass of the body write",
        "text": "Decides on all CFG paths of apply_changes: version bump exactly once per normal return; store receives t4.approved_deltas unfiltered in one "
                "batch call, per-delta fallback reachable only through the batch handler; store/cache errors cannot escape; invalidation exactly under "
                "cache_bust_mode=='on-apply' over the configured namespaces; snapshot exactly under turn % max(1,n)==0. In run_turn and in every other "
                "caller of apply_changes, T4, apply, their log records and the GEL passes are dominated by cfg:t4.enabled. In the batch driver apply_changes cannot run twice for one buffer (also not through a closure handed to a retrying helper); every normal return of write_snapshot lies behind the atomic body write.",
        "note": "Not decided: what a recording store double observes over arbitrary histories (version monotonicity, cadence arithmetic over time) - "
                "these follow by a pencil argument from the decided clauses but no execution is made. Assumes A1 (patch hooks resolve to defaults).",
    },
    "C15": {
        "technique": "static analysis: lexical lockset, effect query for wall-clock reads, post-dominance of eviction loops over growing inserts with callee summaries, paired-accounting path checks, sorted-iteration shape; recency-op allow-list; zero-is-a-value with callee analysis",
        "text": "Decides per container and per wrapper method, on all CFG paths: wrapped cache only touched under the lock; TTL reads only the injected clock; "
                "each growing insert is followed (or preceded, DedupeRing) by an eviction loop bounded by exactly the capacity that removes from the LRU end; "
                "LRUBytes pairs _map mutations with its byte total, clear() resets all fields, zero capacities short-circuit; merge iterates workers and keys sorted by the supplied keys, first wins. Operations on deque / OrderedDict recency structures come from an allow-list that keeps LRU(left)->MRU(right) order (rotate only as rotate(-1) under q[0]==key); Optional size/TTL constructor arguments are told apart from 'not given' by identity, also inside helpers.",
        "note": "Not decided: the bound/accounting/eviction-order invariants after every prefix of every operation sequence, exact byte totals, and thread interleavings - "
                "these need model-based exploration, a different technique. The rules are necessary structural conditions of those invariants.",
    },
    "C16": {
        "technique": "static analysis: typestate (one write per append), expression-shape and provenance checks, alias/whitelist analysis of the normaliser, sort-key and table checks, enumeration + ordering of rotation file operations",
        "text": "Decides the code-shape conditions of well-formed, ordered, lossless logs: one binary-append write of one encoded JSON line per record on every path and a single "
                "owner of that write; normalisation touches only a copy and only the volatile whitelist with same-key values; staged records are drained by "
                "(turn, stage_ord, slice, seq) with distinct canonical ordinals and a +1 seq; compaction keeps one line per record in order via the atomic path; "
                "rotation is delete-oldest, strictly descending rename cascade, live file last.",
        "note": "Not decided: line atomicity under real thread/process contention (POSIX O_APPEND, A3), independence of the flush order from the staging limit over all arrival "
                "orders, and generation bookkeeping over rotation histories / interruption points - schedule- and history-quantified.",
    },
    "C07": {
        "technique": "static analysis: separator-injectivity rule over join/split codec sites, writer/reader section-table agreement, DELTA->FULL typestate of payload variables over the readers' CFGs, guard dominance of the delta-header write; locator/writer suffix-table agreement; line-framing injectivity",
        "text": "Decides the structural necessary conditions of exact reconstruction: path components are escaped before joining and decoded escape-aware (or paths are not strings), "
                "the empty key stays addressable; sections written = sections consumed and the three key-set loops feed the right sections; no reader path uses a payload read "
                "from a delta-mode file as a body before apply_delta; the writer emits a delta header only where the baseline was found and read, one file per call. The baseline locator resolves a stem only to the exact file names the writer produces (isfile-tested, no listing / prefix match); every serialiser behind _canonical_json escapes non-ASCII because the reader splits with str.splitlines().",
        "note": "Not decided: the round-trip law apply(base, diff(base,cur)) == cur over all JSON pairs (incl. 1/True/1.0 equality) - a value-level law that needs exhaustive or random "
                "evaluation, a different technique; codec-level properties of zstd.",
    },
    "C06": {
        "technique": "static analysis: writer/reader key-table agreement with must-pass over the writer CFG, symbolic evaluation of the sibling canonical-key implementations, reaching-definition shape of stored weights, taint of directory entries vs the discovery filter",
        "text": "Decides the structural conditions of a faithful round trip: loader keys are written on every writer path; exporter/importer fields agree; load sanitisation reuses the write "
                "sanitiser and the four canonical edge-key implementations compute the same key; every stored weight is clamped to configured bounds and rounded via _round6 (non-finite->0.0); "
                "discovery only returns '.json'-filtered names and sidecars end in '.meta'; body and sidecar carry SCHEMA_VERSION on every path.",
        "note": "Not decided: byte-for-byte fixpoint of write∘load∘write for every representable state (unicode ids, duplicate orientations, rounding idempotence) - value-level, needs execution.",
    },
}

# Round-4 additions (rules added after the fourth batch of seeded changes); merged into the entries above.
_ROUND4 = {
    "C01": ("; order-keeping containers (list / dict) built from dict-view algebra or a set and stored into state",
            " A list / dict / comprehension that inherits a set's order (incl. `d.keys() - xs`) and is stored into a subscript / attribute - e.g. the GEL edge map rebuilt during pruning - counts as consumed."),
    "C04": ("; cannot-raise analysis (with total-helper summaries) of everything that shares the batch call's try and of its else branch",
            " Inside the try that guards the batch call nothing but the call can raise, and the counters of a successful batch are read outside the guard through helpers that cannot raise - so only a failure of the batch call itself triggers the one-by-one replay (1 defect of this kind repaired: 1a64f7f)."),
    "C05": ("; field tables of cached entries (hit-path reads vs every store site, through dict literals, comprehensions over constant tuples and helper return tuples)",
            " Every field the T1 hit path reads out of a cached entry is put in by every store site (LRU and byte-bounded alike); every key that wraps a T2 computation (stage key, turn-level key) reaches version_etag of the active graphs, because T2 reads graph-store content; every first-level t2.quality key the rankers read is on quality_digest's list (trace-only keys exempt)."),
    "C06": ("; record-field tables of the re-keying sibling loops (writer, boot loader) against the normaliser's record constructor",
            " The writer's and the loader's re-keying loops set the same fields and none of the fields the normaliser persists (src / dst / rel / weight / updated_at / attrs)."),
    "C07": ("; statelessness of the codec (module-state writes, memoised helpers whose mutable result a caller edits in place)",
            " The delta codec keeps no state between calls: no module-level container is written and no memoised helper's mutable result is edited in place."),
    "C09": ("; one-shot-iterator typing of arguments (generator expressions, map/filter/zip, generator calls, reducers returning them) against per-parameter walk counts of the callee",
            " No call in the fan-out / reducer modules hands a one-shot iterator to a parameter that the callee walks more than once."),
    "C10": ("; snapshot-at-capture check of the per-turn log buffer (copy at the call or inside the buffer's write)",
            " The record stored in the per-turn capture buffer is a copy taken at capture time, never the caller's own dict; the stager signals back-pressure only where its buffer is known non-empty and drain_sorted empties it, so the driver's single retry after the drain is always admitted, whatever the byte limit."),
    "C11": ("; NaN-safe polarity analysis of the threshold guard (a positive `>=` must be known true; the negation of `<` is not accepted without a finiteness test)",
            " An episode enters a scored list only where `score >= sim_threshold` is known TRUE in all three index implementations - the negated `<` form, which admits a NaN cosine, is a violation (1 defect of this kind repaired in LanceIndex: 3ad9e10)."),
    "C14": ("; capacity-floor obligation: the validator's accepted minimum of cache max_entries against the non-emptiness implied by each eviction-loop condition",
            " Every popitem / popleft in an eviction loop of the containers sized by the configuration runs under a condition that implies a stored entry for every capacity the validator accepts (down to 0)."),
    "C15": ("; escape analysis of the eviction loops (break / return / callback exception swallowed by a handler enclosing the loop)",
            " Every eviction loop ends only when its own condition is false: no break or return, and caller-supplied callbacks are guarded inside the loop body."),
    "C16": ("; transform whitelist of the payload between rewrite_jsonl and the bytes written (control-character replaces that keep the LF, then encode)",
            " Inside atomic_write_text the compaction payload is only re-terminated (control-character .replace keeping the LF) and encoded - no splitlines / strip / regex that could cut a record at U+0085 / U+2028 / U+2029."),
    "C18": ("; NaN exclusion before ordering (the threshold filter must define the list before every (-score, id) sort)",
            " Every (-score, id) sort of the observed items runs on a list already filtered by a positive score comparison, so the key is a total order even with NaN scores in the input."),
    "C20": ("; except-as unbinding: reads of a handler-bound name reachable from the handler's end without a new binding, over the engine / io / memory / graph / adapters packages",
            " No name bound by `except ... as name` is read after its handler (it is unbound there), so a caught failure cannot resurface as UnboundLocalError."),
}
for _p, (_tech, _text) in _ROUND4.items():
    CLAIMS[_p]["technique"] += _tech
    CLAIMS[_p]["text"] += _text

# Round-5 additions (rules added after the fifth batch of seeded changes and the triage of the agents' side observations).
_ROUND5 = {
    "C01": ("; accidental process state (mutable defaults, class-level containers, nested module templates copied shallowly); clock of the TTL caches on the canonical path",
            " No function on the canonical path keeps state in a mutable default, a class-level container or a shallow copy of a nested module template; every TTL cache built on the canonical path is checked for an injected clock (3 known findings: they expire by time.time)."),
    "C03": ("; range-safe norm (hypot), exact order-free merge (fsum with its OverflowError handled), cooldown filter on unmerged proposals",
            " The cooldown filter acts on the proposals before duplicates are merged; the L2 norm is hypot over all components (sum-of-squares underflow is a violation); every fsum on the merge path is under an OverflowError handler (3 defects repaired)."),
    "C04": ("; must-pass of the on-apply invalidation after every version bump; config-holder agreement with run_turn; walk-and-resize scan of the cache manager",
            " Every version bump of apply_changes is followed by the on-apply invalidation before it returns; no cache-manager function resizes a container it walks; the apply stage's config holders are compared with run_turn's (2 known findings: ctx.cfg is not read, pinned by a golden log)."),
    "C05": ("; hit-return provenance (every non-diagnostic field read from the entry); store-version reachability of every key wrapping T2; quality-digest table",
            " Every non-diagnostic field of the T1 hit return is read out of the entry."),
    "C06": ("; canonical record construction in the normaliser; own-snapshot request of the boot loader",
            " Every record the normaliser puts under nodes / edges is built by it in a fixed or sorted field order; the loader asks the picker for the loading agent's own body before the mtime ranking."),
    "C07": ("; JSON-level leaf comparison in the diff walker; usable-baseline typestate of every apply_delta / compute_delta argument",
            " A leaf counts as modified on its JSON value (not on == alone); a baseline payload is used only if it came from the one baseline reader and is not None, and that reader accepts only two-part full snapshots with an object body."),
    "C08": ("; swap-primitive check (no copying mover in atomic_replace); raw-write completion (byte count of every unbuffered write consumed)",
            " The swap is os.replace itself (no shutil.move / copy fallback) and every write through an unbuffered handle loops on its byte count (1 defect repaired: short writes were swapped in)."),
    "C09": ("; every-future-joined must-pass and no-cancel rule in run_parallel; per-iteration binding of thunks; shard-decomposability of per-shard truncations; fill order of the shared stage cache",
            " Every future is joined (no cancel / early shutdown); thunks bind the loop variable per iteration; every truncation the per-shard search performs is re-applied by the merge (1 known finding: clusters_top_m) and writes of thunks into the shared bounded cache are reported (1 known finding)."),
    "C10": ("; deep-snapshot requirement at capture; unconditional capture write; each picked agent computed once; back-pressure only when drainable",
            " The capture stores a deep copy, its write neither raises nor skips the append, and the compute loop consumes the pick (one task per picked agent)."),
    "C11": ("; zero-cap rule (cap tested before the work it limits); cluster-id identity in all three readers; scoped owner never None",
            " The residual cap is tested before a node is chosen; aux.cluster_id is tested by identity in every reader; under agent / world scope owner_for_query never returns None."),
    "C12": ("; zero-cap rule for the relaxation budget; same context-free folding (casefold) of label and text; tallies accumulated before they are folded into totals",
            " relax_cap is tested before an edge is relaxed; label and text are both folded with casefold(); loop tallies folded into reported totals after their loop are accumulated, not assigned."),
    "C13": ("; sanitize_plan as second untrusted entry point; Speak token budget by identity",
            " sanitize_plan narrows the plan to a mapping before dict(); the Speak op's max_tokens is compared with None, so 0 is a budget."),
    "C14": ("; top-level scalar contract; argv protocol of the CLI -> script delegation; guarded parse of the CLI's JSON slice",
            " Every allowed top-level key the engine converts with int() / float() is stored coerced; the umbrella CLI hands the script's main a program name plus the user's arguments (it parses argv[1:]) and parses the extracted JSON block under a guard."),
    "C15": ("; count / slot pairing of the dedupe ring",
            " Every DedupeRing method that changes a reference count moves a slot in or out of the deque with it."),
    "C16": ("; whole-line-or-error (no unchecked raw write in the appender); gap-aware rotation (delete only when every slot is taken, cascade from below the first free slot, moves keep their source)",
            " The appender's write cannot be short without raising; rotation deletes path.<backups> only when no slot is free, cascades from below the first free slot and moves generations with cleanup_tmp=False."),
    "C17": ("; scope of slice-derived bounds (per slice vs per graph worker)",
            " Bounds derived from per-slice budgets that are applied inside the per-graph worker without being reduced between graphs are reported (2 known findings: t1_pops / t1_iters)."),
    "C18": ("; clamp provenance of every edge-weight writer of the module (not only observe / tick)",
            " Every function that writes an edge weight writes a value clamped to graph.update.clamp_min / clamp_max (or literal 0)."),
    "C19": ("; per-turn ctx values rewritten every turn",
            " Values run_turn derives from the turn's inputs and parks on ctx are written unconditionally, not only if absent."),
    "C20": ("; GEL observe / tick declared fail-soft; boot loader runs once on every continuation",
            " gel observe and tick are guarded like the maintenance passes, and every continuation of the boot loader call - also the swallowed failure - sets the once-flag."),
}
for _p, (_tech, _text) in _ROUND5.items():
    CLAIMS[_p]["technique"] += _tech
    CLAIMS[_p]["text"] += _text

# Round-6 additions (rules added after the sixth batch of seeded changes and the triage of 81 side observations).
_ROUND6 = {
    "C01": ("; version-follows-content for the wall-clock TTL caches; wall-clock fallback of the clock parsers; object addresses and file mtimes as values on the canonical path",
            " Every write of the index's episode containers increments the version on every path (a wall-clock TTL expiry then changes hit / miss only); every call of a timestamp parser with a wall-clock fallback passes its default and an unparsable clock text is not reset to None before a datetime.now() fill-in; no id(obj) on the canonical path; choices by file mtime are reported (2 known findings)."),
    "C02": ("; master-switch conjunction of the three parallel gates",
            " Every non-False return of the T1 / T2 / agent parallel gates is reached only under perf.enabled (2 known findings: the T1 and T2 gates, pinned by tests)."),
    "C03": ("; NaN-free intake of the merge step; type-ungated cooldown history",
            " Every term filed for summation in the merge step is known not to be NaN; an operation is blocked whatever number type its last turn was stored as."),
    "C04": ("; catch-all enclosure of every store read of the snapshot export",
            " Every expression of _export_store_for_snapshot that touches the store is under a catch-all."),
    "C05": ("; unambiguous key parts (no key-only separator join over a collection); resource location as a key part; no object address in keys; index identity not inherited by copies; etag hash order = csr walk order",
            " No cache key folds a collection through a separator for the key only; a key built from properties of an opened resource also carries its location; keys spanning index objects carry the index's identity attribute and no id(); a copy hook refreshes that identity; the etag hashes edges in the order csr() hands them to T1."),
    "C06": ("; sibling key-input agreement of the re-keying loops; per-record conversion guards; agent id as one path component; injectivity of edge ids",
            " The writer's and the loader's re-keying loops decide a record's key from the same inputs; no per-record numeric conversion relies on a try around the whole loop; the agent id is separator-escaped wherever the body name is built; edge ids joining node ids with an unescaped separator are reported (1 known finding)."),
    "C07": ("; loader included in the usable-baseline typestate; expected-etag argument of every baseline read; lone-header rejection; codec settled before naming",
            " The boot loader patches only a baseline that passed the baseline reader; every baseline read names the version it expects and the reader compares it; the generic reader rejects a file that holds only a header; zstandard availability is decided before the file name and header are built."),
    "C08": ("; export writers and the offline compaction script on the atomic path",
            " The JSON export writers (export_logs_for_frontend, console) and scripts/mem_compact.py write through atomic_write_* and contain no raw content write."),
    "C09": ("; merge key on the raw score; shard failures reach the helper; hit records carry every EpisodeRef field",
            " The cross-shard sort key is (-score, id) without coarsening; the per-shard search is not wrapped in a swallowing handler; per-shard hit records and EpRefShim carry every field of EpisodeRef."),
    "C10": ("; second capture attempt before write-through; commit under the agent's context; staging in commit order; drain / disable in finally; stage metrics used as reported; first queued task of a picked agent",
            " A record copy.deepcopy cannot take is copied at the JSON level before any write-through; each buffer is committed under a context cloned for its agent; buffers are staged sorted; the final drain and disable_staging sit in a finally around the commit loop; a stage metric the real stage reports as a count is not iterated un-narrowed; a picked agent's first queued task is the one computed."),
    "C11": ("; exact form of the recency bound at every window comparison; distinct ids before the k cut; owner-scoped rescoring map; guarded episode-field conversions; threshold on the reader path",
            " The recency bound is clock - timedelta(days=recent_days), not cut to a day, compared as time >= bound (3 sites); the index cuts to k after folding rows that share an id; the id -> episode map of the rescoring holds only episodes of the queried owner; numeric episode fields are converted under a guard; appends to the result on the embed-store reader path are dominated by the threshold test."),
    "C12": ("; key tells seed sets apart; optional sized containers tested for None; a string tag is one tag",
            " The T1 key keeps the seed ids' element boundaries; no optional container whose class defines __len__ is tested by truthiness (the perf caps engage); attrs['tags'] given as a str is wrapped, not iterated."),
    "C13": ("; value-partial text operations under a catch-all (followed into helpers); bundle supplies every configuration key the planner reads",
            " Strict encode / int / float / index / %-format of the untrusted text are under a catch-all; every bundle['cfg'][section][key] the planner reads is copied by cfg_snapshot."),
    "C14": ("; verdict tests read normalised values; non-mapping sections rejected; range obligations of engine arithmetic; range test where a user's quality value is copied; messages taken from the error un-rewritten; JSON report fallback encoder; defaults merged by copy; per-instance error messages",
            " An ordering test deciding an error verdict reads section[key] after the key's normalising store; a section normalised only when supplied rejects non-mappings; t1.decay.alpha and graph.update.alpha are bounded as the engine's arithmetic needs and the recency window handles OverflowError; ranged quality values are range-tested where they are copied; API variants report the error's own messages; the CLI's JSON report has a fallback encoder; _deep_merge inserts copies; no error class keeps messages in a class-level container."),
    "C15": ("; capacity domain (>= 0 by construction or non-empty implied); lookups do not allocate; no write-back of a local byte total after a callback",
            " Every capacity guarding an eviction loop is clamped to >= 0 (or the loop implies a non-empty container); CacheManager.get adds nothing to the namespace table; LRUBytes keeps its byte total on the instance while on_evict runs."),
    "C16": ("; total line encoding; flush past the active mux",
            " The appender and the rewrite encode json.dumps(ensure_ascii=False) text with an error handler; logmux.flush hands its pairs to the unbuffered writer."),
    "C17": ("; stage work charged whenever the metric is reported",
            " The guards of consumed[<budget>] = <metric> test only what the metric is made of."),
    "C18": ("; commutative folding of duplicate ids; distinct ids in the pair loops; record updated all at once; NaN-safe clamp; clustering blind to promotion edges; key injectivity",
            " Loops over the items as listed file nothing by first-wins / last-wins; paired items carry each id once; no fallible conversion follows the weight write of an update; _clamp does not return NaN; _build_adj skips the relation apply_promotion writes; an unescaped separator in _edge_key is reported (1 known finding)."),
    "C19": ("; every planner branch rewrites the reflection request; per-turn ctx values refreshed for any numeric clock",
            " Each return of run_policy is preceded by a write of the flag the gate falls back on; the now_iso refresh is not gated on one exact clock type."),
    "C20": ("; a rerank layer's fault undoes the whole layer",
            " In apply_quality nothing that can raise follows a reassignment of the ranking inside a try whose handler resets that layer's used-flag."),
}
for _p, (_tech, _text) in _ROUND6.items():
    CLAIMS[_p]["technique"] += _tech
    CLAIMS[_p]["text"] += _text

_ROUND7 = {
    "C01": ("; every spelling of the logical clock consulted before the wall clock",
            " A wall-clock reading that stands in for the turn's time in T2 lies behind tests of ctx.now AND ctx.now_ms; the order of a casefold-keyed sort of a set is decided by a total key (seeded round 7)."),
    "C03": ("; caps read from every config holder and holder shape; total conversion of a proposal's magnitude",
            " The meta-filter's accessor looks in ctx.config and ctx.cfg, object- or dict-shaped, like the gate of the stage; float(<magnitude>) in the merge step is under a handler covering OverflowError."),
    "C04": ("; exactness of the version increment; store method lookups under a handler; holder shape of the apply accessors",
            " No float / round / division in the operand of the version increment (followed into helpers); getattr(store, ...) / store.<attr> in apply_changes are enclosed like the call; apply's accessors find their section in a dict-shaped ctx.config."),
    "C05": ("; whole-entry key atoms (a section the key holds whole covers its leaves); metrics of the cached result in the dependency set; no canonicalised order where the computation consumes it; hit path leaves what the fresh path leaves; etag re-derived on exceptional exits; total etag hash; identity of foreign indexes kept outside the object",
            " The cached T2 value now includes its metrics: the metrics gate, the perf.t2 knobs and the reader mode are in the key; the T1 key names the seeds in seeding order; every write into the turn context on the fresh path of T2 is also made on the stage-cache hit path and made up for by run_turn on a turn-level hit; no exceptional exit after a completed graph write skips _bump_etag and the hash has no unguarded conversion; index_uid writes nothing into its argument."),
    "C06": ("; NaN handled by the clamp; schema sidecar written by the offline compaction script",
            " snapshot._clamp tells NaN apart before comparing and enforces both sides; each compacted snapshot of scripts/mem_compact.py is followed by a sidecar write."),
    "C07": ("; baseline CONTENT recorded in the delta header and compared by the baseline reader; delta operand checked to be an object; tree copy of the base",
            " The delta header carries a value computed from the baseline payload, the baseline reader compares it and every reader passes it on; apply_delta's second operand is applied only where it is known to be a dict (no `or {}`); the patched object is a recursive rebuild of the base, not copy.deepcopy / a shallow copy."),
    "C08": ("; the repository-level console copy on the atomic path",
            " scripts/console.py (a full copy of the packaged console) writes its bundle through atomic_write_*."),
    "C10": ("; per-agent context carries every input run_turn reads; an agent picked once per batch; turn id never a clock reading; only turns that reached T4 are committed; every drained record tried; compute-phase readers accept the read-only view; interprocedural dry-run infeasibility",
            " Every attribute run_turn (and what it hands its context to, depth 3) reads and does not write is carried by _clone_ctx_for_agent; picked.append is reached only where the agent is not picked yet; no clock call feeds the compute phase's turn id; the commit is guarded by the buffer field set from the T4 artifact; each loop over drain_sorted() tries every record; no exact-container-type test or in-place completion on values taken out of the state in t1_propagate / t2_semantic / t4_filter / graph_versions and their callees (hazards.frozen_view_hazards, with a positive control)."),
    "C11": ("; hit looked up under its own owner; used hits a prefix of the returned order; rescoring data on every backend",
            " The rescoring loop finds a hit's episode under (owner, id) first; the hits walked for the residual nudges are the returned list or a prefix of it; the data attribute the combined score reads from the index exists on every index class (1 known finding: LanceIndex has no _eps)."),
    "C12": ("; caps reach the caller's container",
            " A helper that trims a parameter by re-binding it (after mutating it) is reported unless the caller gets the new object back (hazards.lost_param_rebinding)."),
    "C13": ("; utterance filter decided from the parsed patterns; refinement keeps the Speak budget; only JSON whitespace trimmed",
            " Each replacement of the utterance filter has no more whitespace-separated tokens than a lower bound of what its pattern matches (re._parser); the Speak op rebuilt by rag_once gets min(t3.tokens, the replaced op's max_tokens); every strip between the planner text and json.loads names the JSON whitespace set."),
    "C14": ("; total coercion helpers; closed key set of sub-mappings the engine hashes whole; upper bounds of powers; NUL-free path knobs; nested sections stored back into the merged tree reject non-mappings; total CLI output (both copies)",
            " int() / float() in the coercers are under handlers covering OverflowError; t1.decay has a closed key set and its rate is bounded above (recognised also through constant folding of the guard with a huge value); every knob whose message says 'path' rejects an embedded NUL; t2.quality rejects a non-mapping; the CLI converts the accepted tree before json.dumps and prints messages through a printer that escapes what the stream cannot encode, in clematis/scripts/validate.py and in scripts/validate_config.py."),
    "C15": ("; the namespace cache short-circuits on capacity 0",
            " _NamespaceCache.set is no longer exempt from the disabled-short-circuit obligation."),
    "C16": ("; rotation needs a live file and stops on a failed move; sibling JSONL writers escape what UTF-8 cannot carry; stager turn order = driver turn order",
            " Every destructive step of rotate_one is reachable only where the live file exists and a cascade handler swallows FileNotFoundError only; text-mode JSONL append sites with ensure_ascii=False pass an error handler; drain_sorted's turn component goes through the same int-else-text normalisation as the driver's buffer sort."),
    "C17": ("; RESET pick not through a queue-head helper",
            " Helpers returning an element of param['queue'] are resolved at their call sites."),
    "C18": ("; adapter ids are strings on every branch; finite clamp bounds; total half-life conversion",
            " Every return of _as_id_score has its id as str() / repr(); the validator requires graph.update.clamp_* to be finite; float(<half_life_turns>) in the GEL is under a handler covering OverflowError."),
    "C19": ("; stored text not lengthened by the writer; request flag written / cleared in both state shapes and consumed by the gate; per-turn ctx value cleared when it cannot be derived",
            " No NFK* normalisation / replace / format / join / padding of the stored text in _normalize_entry; every setattr of the request flag in run_policy has its state[...] twin and the gate resets the flag after reading it; the swallowing try around the now_iso derivation clears the value in its handler."),
    "C20": ("; default containers only where absent; parsed snapshot body coerced only when an object; inputs of optional layers fail-soft",
            " The boot loader stores empty GEL containers only behind an absence test; every `<body> or {}` lies behind isinstance(<body>, dict); a local consumed only by a declared optional call is computed under a guard (or by a total callee)."),
}
for _p, (_tech, _text) in _ROUND7.items():
    CLAIMS[_p]["technique"] += _tech
    CLAIMS[_p]["text"] += _text
