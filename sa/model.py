"""E1 program model: parsed modules, function index, name/callee resolution.

Addressing is by qualified name ("pkg.mod:Class.method", "pkg.mod:outer.inner"),
never by line number.  A missing anchor raises AnchorVanished (exit 2).
"""
from __future__ import annotations

import ast
import hashlib
import os
from dataclasses import dataclass, field
from typing import Dict, Iterable, Iterator, List, Optional, Tuple

REPO = os.environ.get("VERIF_REPO", "/repo")

# Source roots parsed by every run (the "build" for a pure-Python package).
SOURCE_ROOTS = ("clematis", "configs")


class AnalysisError(Exception):
    """The checker cannot decide (anchor vanished, floor not met, internal)."""


class AnchorVanished(AnalysisError):
    pass


@dataclass
class Module:
    name: str
    path: str  # absolute
    rel: str  # relative to repo
    src: str
    tree: ast.Module
    # name -> ("module", modname) | ("symbol", modname, symbol)
    imports: Dict[str, Tuple[str, ...]] = field(default_factory=dict)
    funcs: Dict[str, "Func"] = field(default_factory=dict)  # local qual -> Func
    classes: Dict[str, ast.ClassDef] = field(default_factory=dict)
    globals_assigned: Dict[str, List[ast.stmt]] = field(default_factory=dict)


@dataclass(eq=False)
class Func:
    module: Module
    local: str  # "Class.method" / "outer.inner"
    node: ast.AST  # FunctionDef | AsyncFunctionDef | Lambda
    parent: Optional["Func"]
    cls: Optional[str]  # enclosing class local name, if a method

    @property
    def qual(self) -> str:
        return f"{self.module.name}:{self.local}"

    @property
    def name(self) -> str:
        return self.local.rsplit(".", 1)[-1]

    @property
    def params(self) -> List[str]:
        a = self.node.args
        out = [x.arg for x in a.posonlyargs + a.args]
        if a.vararg:
            out.append(a.vararg.arg)
        out += [x.arg for x in a.kwonlyargs]
        if a.kwarg:
            out.append(a.kwarg.arg)
        return out

    def loc(self, node: Optional[ast.AST] = None) -> str:
        n = node if node is not None else self.node
        return f"{self.module.rel}:{getattr(n, 'lineno', 0)}"

    def __repr__(self) -> str:  # pragma: no cover
        return f"<Func {self.qual}>"


def _modname(rel: str) -> str:
    p = rel[:-3] if rel.endswith(".py") else rel
    parts = p.split(os.sep)
    if parts[-1] == "__init__":
        parts = parts[:-1]
    return ".".join(parts)


def normalise_tree(tree: ast.AST) -> int:
    """Canonical form for one refactoring that changes no behaviour: a value returned through a temporary
    (`t = E; return t`, every read of t being such a return) is analysed as `return E`.  Locations of E are kept.
    Returns the number of rewrites."""
    n = 0
    # `if not (c): A else: B` (plain else) is analysed as `if c: B else: A`
    for x in ast.walk(tree):
        if isinstance(x, ast.If) and isinstance(x.test, ast.UnaryOp) and isinstance(x.test.op, ast.Not) and x.orelse \
                and not (len(x.orelse) == 1 and isinstance(x.orelse[0], ast.If)):
            x.test = x.test.operand
            x.body, x.orelse = x.orelse, x.body
            n += 1
    for fn in [x for x in ast.walk(tree) if isinstance(x, (ast.FunctionDef, ast.AsyncFunctionDef))]:
        loads: Dict[str, int] = {}
        for y in ast.walk(fn):
            if isinstance(y, ast.Name) and isinstance(y.ctx, ast.Load):
                loads[y.id] = loads.get(y.id, 0) + 1
        pairs: Dict[str, List[Tuple[list, int]]] = {}
        for holder in ast.walk(fn):
            for field in ("body", "orelse", "finalbody"):
                blk = getattr(holder, field, None)
                if not isinstance(blk, list):
                    continue
                for i in range(len(blk) - 1):
                    a, r = blk[i], blk[i + 1]
                    if isinstance(a, ast.Assign) and len(a.targets) == 1 and isinstance(a.targets[0], ast.Name) and isinstance(r, ast.Return) \
                            and isinstance(r.value, ast.Name) and r.value.id == a.targets[0].id and not isinstance(a.value, (ast.Yield, ast.YieldFrom, ast.Await)) \
                            and not any(isinstance(z, ast.Name) and z.id == r.value.id for z in ast.walk(a.value)):
                        pairs.setdefault(r.value.id, []).append((blk, i))
        for name, ps in pairs.items():
            if loads.get(name, 0) != len(ps):
                continue  # the temporary is read somewhere else too
            for blk, i in sorted(ps, key=lambda t: -t[1]):
                # indices may have shifted inside the same block: locate the pair again
                for j in range(len(blk) - 1):
                    a, r = blk[j], blk[j + 1]
                    if isinstance(a, ast.Assign) and isinstance(r, ast.Return) and isinstance(r.value, ast.Name) and r.value.id == name and len(a.targets) == 1 \
                            and isinstance(a.targets[0], ast.Name) and a.targets[0].id == name:
                        r.value = a.value
                        del blk[j]
                        n += 1
                        break
    return n


class Program:
    def __init__(self, repo: str = REPO, roots: Iterable[str] = SOURCE_ROOTS):
        self.repo = repo
        self.modules: Dict[str, Module] = {}
        self.funcs: Dict[str, Func] = {}
        self._parents: Dict[int, Dict[int, ast.AST]] = {}
        self.parse_errors: List[str] = []
        for root in roots:
            base = os.path.join(repo, root)
            if not os.path.isdir(base):
                raise AnchorVanished(f"source root missing: {base}")
            for dp, dns, fns in os.walk(base):
                dns[:] = sorted(d for d in dns if d != "__pycache__")
                for fn in sorted(fns):
                    if fn.endswith(".py"):
                        self._load(os.path.join(dp, fn))
        for m in self.modules.values():
            self._index(m)

    def with_override(self, rel: str, new_src: str) -> "Program":
        """A new Program identical to this one except that file `rel` has the
        given source text (in memory; nothing is written anywhere)."""
        q = Program.__new__(Program)
        q.repo = self.repo
        q._parents = {}
        q.parse_errors = []
        q.modules = dict(self.modules)
        q.funcs = dict(self.funcs)
        name = _modname(rel)
        old = self.modules.get(name)
        if old is None:
            raise AnchorVanished(f"override of unknown file {rel}")
        for f in old.funcs.values():
            q.funcs.pop(f.qual, None)
        try:
            tree = ast.parse(new_src, filename=rel)
            normalise_tree(tree)
        except SyntaxError as e:
            raise AnalysisError(f"override of {rel} does not parse: {e}")
        m = Module(name=name, path=old.path, rel=rel, src=new_src, tree=tree)
        q.modules[name] = m
        q._index(m)
        return q

    # ------------------------------------------------------------------ load
    def _load(self, path: str) -> None:
        rel = os.path.relpath(path, self.repo)
        try:
            with open(path, "r", encoding="utf-8") as f:
                src = f.read()
            tree = ast.parse(src, filename=rel)
            normalise_tree(tree)
        except (SyntaxError, UnicodeDecodeError, OSError) as e:
            # A file that does not parse would not import either: the tree no
            # longer "compiles", which is outside the contract; fail closed.
            raise AnalysisError(f"cannot parse {rel}: {e}")
        m = Module(name=_modname(rel), path=path, rel=rel, src=src, tree=tree)
        self.modules[m.name] = m

    def _index(self, m: Module) -> None:
        pkg = m.name if m.rel.endswith("__init__.py") else m.name.rpartition(".")[0]

        def absolutize(level: int, mod: Optional[str]) -> str:
            if level == 0:
                return mod or ""
            base = pkg.split(".") if pkg else []
            if level > 1:
                base = base[: len(base) - (level - 1)]
            if mod:
                base = base + mod.split(".")
            return ".".join(base)

        for node in ast.walk(m.tree):
            if isinstance(node, ast.Import):
                for a in node.names:
                    if a.asname:
                        m.imports.setdefault(a.asname, ("module", a.name))
                    else:
                        top = a.name.split(".")[0]
                        m.imports.setdefault(top, ("module", top))
            elif isinstance(node, ast.ImportFrom):
                base = absolutize(node.level, node.module)
                for a in node.names:
                    nm = a.asname or a.name
                    full = f"{base}.{a.name}" if base else a.name
                    if full in self.modules:
                        m.imports.setdefault(nm, ("module", full))
                    else:
                        m.imports.setdefault(nm, ("symbol", base, a.name))

        def visit(body: List[ast.stmt], prefix: str, parent: Optional[Func], cls: Optional[str]):
            for st in body:
                if isinstance(st, (ast.FunctionDef, ast.AsyncFunctionDef)):
                    local = f"{prefix}{st.name}"
                    # later definitions shadow earlier ones (if/else variants):
                    # keep the first, record the others with a #n suffix.
                    key = local
                    n = 1
                    while key in m.funcs:
                        n += 1
                        key = f"{local}#{n}"
                    fn = Func(m, key, st, parent, cls)
                    m.funcs[key] = fn
                    self.funcs[fn.qual] = fn
                    visit_nested(st, key + ".", fn)
                elif isinstance(st, ast.ClassDef):
                    local = f"{prefix}{st.name}"
                    m.classes[local] = st
                    visit(st.body, local + ".", parent, local)
                elif isinstance(st, (ast.If, ast.Try, ast.With, ast.For, ast.While)):
                    for sub in _stmt_blocks(st):
                        visit(sub, prefix, parent, cls)
                elif isinstance(st, (ast.Assign, ast.AnnAssign, ast.AugAssign)) and parent is None and cls is None:
                    for t in _assign_targets(st):
                        if isinstance(t, ast.Name):
                            m.globals_assigned.setdefault(t.id, []).append(st)

        def visit_nested(fnode: ast.AST, prefix: str, parent: Func):
            # functions nested anywhere in the body (not crossing another def)
            def rec(body):
                for st in body:
                    if isinstance(st, (ast.FunctionDef, ast.AsyncFunctionDef)):
                        key = f"{prefix}{st.name}"
                        base = key
                        n = 1
                        while key in m.funcs:
                            n += 1
                            key = f"{base}#{n}"
                        fn = Func(m, key, st, parent, None)
                        m.funcs[key] = fn
                        self.funcs[fn.qual] = fn
                        visit_nested(st, key + ".", fn)
                    elif isinstance(st, ast.ClassDef):
                        pass
                    else:
                        for sub in _stmt_blocks(st):
                            rec(sub)

            rec(fnode.body)

        visit(m.tree.body, "", None, None)

    # --------------------------------------------------------------- lookup
    def module(self, name: str) -> Module:
        m = self.modules.get(name)
        if m is None:
            raise AnchorVanished(f"module {name} not found")
        return m

    def func(self, qual: str) -> Func:
        f = self.funcs.get(qual)
        if f is None:
            raise AnchorVanished(f"function {qual} not found")
        return f

    def has_func(self, qual: str) -> bool:
        return qual in self.funcs

    def cls(self, qual: str) -> ast.ClassDef:
        mod, _, local = qual.partition(":")
        c = self.module(mod).classes.get(local)
        if c is None:
            raise AnchorVanished(f"class {qual} not found")
        return c

    def methods(self, cls_qual: str) -> Dict[str, Func]:
        mod, _, local = cls_qual.partition(":")
        self.cls(cls_qual)
        m = self.module(mod)
        out = {}
        for k, f in m.funcs.items():
            if f.cls == local and k.startswith(local + ".") and "." not in k[len(local) + 1 :]:
                out[k[len(local) + 1 :]] = f
        return out

    def funcs_in(self, modname: str) -> List[Func]:
        return list(self.module(modname).funcs.values())

    def all_funcs(self, prefix: str = "") -> Iterator[Func]:
        for q, f in self.funcs.items():
            if q.startswith(prefix):
                yield f

    def digest(self, modnames: Iterable[str]) -> str:
        h = hashlib.sha256()
        for n in sorted(set(modnames)):
            m = self.modules.get(n)
            if m is not None:
                h.update(n.encode())
                h.update(hashlib.sha256(m.src.encode()).digest())
        return h.hexdigest()[:16]

    # ------------------------------------------------------------ parents
    def parents(self, root: ast.AST) -> Dict[int, ast.AST]:
        key = id(root)
        pm = self._parents.get(key)
        if pm is None:
            pm = {}
            for p in ast.walk(root):
                for c in ast.iter_child_nodes(p):
                    pm[id(c)] = p
            self._parents[key] = pm
        return pm

    # ------------------------------------------------------ name resolution
    def resolve_symbol(self, m: Module, name: str, _depth: int = 0) -> Optional[Tuple[str, str]]:
        """Resolve a module-level name to ("func", qual) | ("class", qual) |
        ("module", modname) | ("ext", dotted) | ("global", "mod:name")."""
        if _depth > 6:
            return None
        if name in m.funcs and "." not in name:
            return ("func", m.funcs[name].qual)
        if name in m.classes:
            return ("class", f"{m.name}:{name}")
        imp = m.imports.get(name)
        if imp is not None:
            if imp[0] == "module":
                return ("module", imp[1])
            base, sym = imp[1], imp[2]
            tgt = self.modules.get(base)
            if tgt is None:
                return ("ext", f"{base}.{sym}" if base else sym)
            r = self.resolve_symbol(tgt, sym, _depth + 1)
            if r is not None:
                return r
            return ("global", f"{base}:{sym}")
        if name in m.globals_assigned:
            # alias of the form  X = Y / X = mod.Y at module level
            sts = m.globals_assigned[name]
            if len(sts) == 1 and isinstance(sts[0], ast.Assign):
                v = sts[0].value
                d = dotted(v)
                if d and d != name:
                    r = self.resolve_dotted(m, d, None, _depth + 1)
                    if r is not None and r[0] in ("func", "class"):
                        return r
            return ("global", f"{m.name}:{name}")
        return None

    def resolve_dotted(self, m: Module, d: str, fn: Optional[Func], _depth: int = 0) -> Optional[Tuple[str, str]]:
        parts = d.split(".")
        head = parts[0]
        # nested function of an enclosing function
        f = fn
        while f is not None and len(parts) == 1:
            cand = f"{f.local}.{head}"
            if cand in m.funcs:
                return ("func", m.funcs[cand].qual)
            f = f.parent
        if head == "self" and fn is not None and len(parts) == 2:
            c = fn.cls
            g = fn
            while c is None and g.parent is not None:
                g = g.parent
                c = g.cls
            if c is not None:
                r = self._method(m, c, parts[1])
                if r:
                    return r
            return None
        r = self.resolve_symbol(m, head, _depth)
        if r is None and fn is not None and len(parts) >= 2:
            r = self._local_module_alias(m, fn, head)
        if r is None:
            if len(parts) == 1 and head in _BUILTINS:
                return ("ext", head)
            return None
        for i, p in enumerate(parts[1:], 1):
            kind, tgt = r
            if kind == "module":
                tm = self.modules.get(tgt)
                if tm is None:
                    return ("ext", ".".join([tgt] + parts[i:]))
                sub = f"{tgt}.{p}"
                if sub in self.modules:
                    r = ("module", sub)
                    continue
                r2 = self.resolve_symbol(tm, p, _depth + 1)
                if r2 is None:
                    return None
                r = r2
            elif kind == "class":
                mod, _, local = tgt.partition(":")
                r2 = self._method(self.modules[mod], local, p)
                if r2 is None:
                    return None
                r = r2
            elif kind == "ext":
                r = ("ext", f"{tgt}.{p}")
            else:
                return None
        return r

    def _local_module_alias(self, m: Module, fn: Func, name: str) -> Optional[Tuple[str, str]]:
        """`core = _core_module()` where the callee returns an imported module."""
        memo = self.__dict__.setdefault("_lma", {})
        k = (fn.qual, name)
        if k not in memo:
            memo[k] = self._local_module_alias_uncached(m, fn, name)
        return memo[k]

    def _local_module_alias_uncached(self, m: Module, fn: Func, name: str) -> Optional[Tuple[str, str]]:
        f: Optional[Func] = fn
        while f is not None:
            for x in walk_no_defs(f.node):
                if isinstance(x, ast.Assign) and len(x.targets) == 1 and isinstance(x.targets[0], ast.Name) \
                        and x.targets[0].id == name and isinstance(x.value, ast.Call):
                    d = dotted(x.value.func)
                    if not d:
                        continue
                    r = self.resolve_dotted(m, d, None)
                    if r and r[0] == "func":
                        callee = self.funcs[r[1]]
                        for y in walk_no_defs(callee.node):
                            if isinstance(y, ast.Return) and isinstance(y.value, ast.Name):
                                rr = self.resolve_symbol(callee.module, y.value.id)
                                if rr and rr[0] == "module":
                                    return rr
            f = f.parent
        return None

    def _method(self, m: Module, cls_local: str, meth: str, _seen=None) -> Optional[Tuple[str, str]]:
        key = f"{cls_local}.{meth}"
        if key in m.funcs:
            return ("func", m.funcs[key].qual)
        c = m.classes.get(cls_local)
        if c is None:
            return None
        for b in c.bases:
            d = dotted(b)
            if not d:
                continue
            r = self.resolve_dotted(m, d, None)
            if r and r[0] == "class":
                mod, _, local = r[1].partition(":")
                rr = self._method(self.modules[mod], local, meth)
                if rr:
                    return rr
        return None

    def callee(self, fn: Func, call: ast.Call) -> Optional[Tuple[str, str]]:
        d = dotted(call.func)
        if d is None:
            return None
        return self.resolve_dotted(fn.module, d, fn)

    def callee_name(self, fn: Func, call: ast.Call) -> str:
        """Best-effort stable name: resolved qual / ext dotted / '?.attr'."""
        r = self.callee(fn, call)
        if r is not None and r[0] in ("func", "class", "ext"):
            return r[1]
        d = dotted(call.func)
        if d is not None:
            return d
        if isinstance(call.func, ast.Attribute):
            return "?." + call.func.attr
        return "?"


_BUILTINS = set(dir(__builtins__)) if not isinstance(__builtins__, dict) else set(__builtins__)


# ---------------------------------------------------------------- ast helpers
def dotted(e: ast.AST) -> Optional[str]:
    parts = []
    while isinstance(e, ast.Attribute):
        parts.append(e.attr)
        e = e.value
    if isinstance(e, ast.Name):
        parts.append(e.id)
        return ".".join(reversed(parts))
    return None


def _stmt_blocks(st: ast.stmt) -> List[List[ast.stmt]]:
    out = []
    for f in ("body", "orelse", "finalbody"):
        b = getattr(st, f, None)
        if isinstance(b, list) and b and isinstance(b[0], ast.stmt):
            out.append(b)
    if isinstance(st, ast.Try):
        for h in st.handlers:
            out.append(h.body)
    if hasattr(ast, "Match") and isinstance(st, ast.Match):
        for c in st.cases:
            out.append(c.body)
    return out


def _assign_targets(st: ast.stmt) -> List[ast.AST]:
    if isinstance(st, ast.Assign):
        out = []
        for t in st.targets:
            out += _flatten_target(t)
        return out
    if isinstance(st, (ast.AnnAssign, ast.AugAssign)):
        return _flatten_target(st.target)
    return []


def _flatten_target(t: ast.AST) -> List[ast.AST]:
    if isinstance(t, (ast.Tuple, ast.List)):
        out = []
        for e in t.elts:
            out += _flatten_target(e)
        return out
    if isinstance(t, ast.Starred):
        return _flatten_target(t.value)
    return [t]


assign_targets = _assign_targets
stmt_blocks = _stmt_blocks


def walk_no_defs(node: ast.AST, include_lambda: bool = True) -> Iterator[ast.AST]:
    """ast.walk that does not descend into nested function/class definitions
    (the node itself is yielded even if it is one)."""
    stack = [node]
    first = True
    while stack:
        n = stack.pop()
        if not first and isinstance(n, (ast.FunctionDef, ast.AsyncFunctionDef, ast.ClassDef)):
            continue
        if not first and not include_lambda and isinstance(n, ast.Lambda):
            continue
        first = False
        yield n
        stack.extend(reversed(list(ast.iter_child_nodes(n))))


def body_walk(fn_node: ast.AST) -> Iterator[ast.AST]:
    """All nodes in a function's own body (not nested defs' bodies)."""
    for st in fn_node.body:
        yield from walk_no_defs_stmt(st)


def walk_no_defs_stmt(st: ast.AST) -> Iterator[ast.AST]:
    if isinstance(st, (ast.FunctionDef, ast.AsyncFunctionDef, ast.ClassDef)):
        yield st
        return
    yield from walk_no_defs(st)


def calls_in(node: ast.AST) -> List[ast.Call]:
    return [n for n in walk_no_defs(node) if isinstance(n, ast.Call)]


def src(node: ast.AST) -> str:
    try:
        return ast.unparse(node)
    except Exception:  # pragma: no cover
        return f"<{type(node).__name__}>"


def const_str(e: ast.AST) -> Optional[str]:
    if isinstance(e, ast.Constant) and isinstance(e.value, str):
        return e.value
    return None


def kwarg(call: ast.Call, name: str) -> Optional[ast.AST]:
    for k in call.keywords:
        if k.arg == name:
            return k.value
    return None


def arg(call: ast.Call, pos: int, name: Optional[str] = None) -> Optional[ast.AST]:
    if pos < len(call.args) and not any(isinstance(a, ast.Starred) for a in call.args[: pos + 1]):
        return call.args[pos]
    if name:
        return kwarg(call, name)
    return None
