"""C08 Durable files are replaced all-or-nothing (structural clauses)."""
from __future__ import annotations

import ast
from typing import List, Optional

from ..cfg import fmt_path
from ..events import Events
from ..model import AnalysisError, arg, const_str, dotted, kwarg, src, walk_no_defs
from ..typestate import explore
from ..util import call_tail, file_ops, find_calls, node_calls, tail_is

EXPLANATION = (
    "C08 decided statically: (OWN) in clematis/io/atomic.py the destination path is only ever the target of "
    "os.replace - no open-for-write/truncate/unlink/copy on it on any path; (ORD) typestate of the temp file "
    "CREATED->WRITTEN->FLUSHED->FSYNCED->REPLACED on every CFG path, temp created in the destination's directory; "
    "(CLEAN) every exceptional exit after creation passes an unlink attempt or an exists()-false branch; (USE) "
    "snapshot bodies, sidecars, header+payload snapshots and compacted logs reach disk only through atomic_write_*; "
    "(NAME) temp names cannot satisfy the discovery / log-reader acceptance predicates. Not decided: real crash / "
    "EIO injection and kernel durability of rename (OS trusted base A3)."
)

RULES = {
    "C08.OWN": "who-may-touch: file operations in io/atomic.py classified by destination/temporary role of their target",
    "C08.ORD": "typestate over the CFG of the function that creates the temp file (callee must-sequences inlined)",
    "C08.CLEAN": "typestate over exceptional edges: no RAISE exit with a live temp file",
    "C08.USE": "call-graph who-may-write over the anchored writer modules",
    "C08.NAME": "regular-language disjointness of temp names vs. acceptance predicates",
    "C08.RETRY": "bounded retry loop with the documented retry set",
}

ATOMIC = "clematis.io.atomic"

# role of positional parameters (by index, not by name)
DST_PARAM = {"atomic_write_bytes": 0, "atomic_write_text": 0, "atomic_write_json": 0, "atomic_replace": 1, "_make_tmp": 0}
SRC_PARAM = {"atomic_replace": 0}


def _role(ctx, fn, expr: Optional[ast.AST], node) -> str:
    """TMP / DST / DSTDIR / OTHER for a path expression."""
    if expr is None:
        return "OTHER"
    rd = ctx.rd(fn)
    sl = rd.slice([expr], node)
    params = fn.params
    names = set()
    for c in sl.calls():
        nm = ctx.prog.callee_name(fn, c)
        names.add(nm)
    if any(n.endswith(":_make_tmp") or n.startswith("tempfile.") for n in names):
        return "TMP"
    sp = SRC_PARAM.get(fn.name)
    if sp is not None and sp < len(params) and params[sp] in sl.params:
        return "TMP"
    dp = DST_PARAM.get(fn.name)
    if dp is not None and dp < len(params) and params[dp] in sl.params:
        # X.parent / os.path.dirname(X) designate the directory
        inl = rd.inline(expr, node)
        for x in ast.walk(inl):
            if isinstance(x, ast.Attribute) and x.attr == "parent":
                return "DSTDIR"
            if isinstance(x, ast.Call) and dotted(x.func) == "os.path.dirname":
                return "DSTDIR"
        return "DST"
    return "OTHER"


def rule_own(ctx) -> None:
    m = ctx.prog.module(ATOMIC)
    n_ops = 0
    n_replace = 0
    for fn in m.funcs.values():
        for op in file_ops(ctx, fn):
            n_ops += 1
            role = _role(ctx, fn, op.target, op.node)
            key = f"{fn.qual}/{op.kind}/{role}"
            where = fn.loc(op.call)
            if op.kind in ("replace", "rename"):
                srole = _role(ctx, fn, op.extra, op.node)
                if role == "DST":
                    n_replace += 1
                    ctx.check(srole == "TMP", "C08.OWN", key, where,
                              f"destination replaced by rename from the temp file ({src(op.call)})",
                              f"destination replaced from a non-temporary source ({src(op.call)})")
                elif role == "OTHER" and srole in ("OTHER",):
                    ctx.info("C08.OWN", key, where, f"rename not involving the destination: {src(op.call)}")
                else:
                    ctx.violation("C08.OWN", key, where, f"rename with roles src={srole} dst={role}: {src(op.call)}")
                continue
            if op.kind == "rename-from":
                ctx.check(role != "DST", "C08.OWN", key, where, "rename source is not the destination",
                          f"the destination itself is renamed away: {src(op.call)}")
                continue
            if op.kind in ("open-r",):
                ctx.holds("C08.OWN", key, where, f"read-only open ({src(op.call)[:60]})", nontrivial=False)
                continue
            if op.kind in ("mkdir",):
                continue
            if role == "DST":
                ctx.violation("C08.OWN", key, where,
                              f"destination path is touched by a non-atomic operation {op.kind}: {src(op.call)[:90]}")
            else:
                ctx.holds("C08.OWN", key, where, f"{op.kind} acts on {role} path, not on the destination")
    ctx.floor("C08.OWN", "file operations in io/atomic.py", n_ops, 5)
    if n_replace < 1:
        raise AnalysisError("anchor-vanished: no rename onto the destination found in clematis/io/atomic.py")


# ------------------------------------------------------------------ ORD / CLEAN
def _classify(ctx):
    def classify(fn, call, nm):
        t = call_tail(call)
        d = dotted(call.func) or ""
        if nm.endswith(":_make_tmp") or d in ("tempfile.NamedTemporaryFile", "tempfile.mkstemp"):
            return "CREATE"
        if nm.endswith(":atomic_replace") or d in ("os.replace", "os.rename"):
            return "REPLACE"
        if d == "os.fsync":
            return "FSYNC"
        if isinstance(call.func, ast.Attribute) and t == "write" and not d.startswith(("sys.", "os.")):
            return "WRITE"
        if isinstance(call.func, ast.Attribute) and t == "flush" and not d.startswith("sys."):
            return "FLUSH"
        if d in ("os.unlink", "os.remove") or (isinstance(call.func, ast.Attribute) and t == "unlink"):
            return "UNLINK"
        return None

    return classify


def _writer_fn(ctx):
    """The function in io/atomic.py that creates the temp and replaces."""
    ev = Events(ctx, _classify(ctx), depth=0)
    m = ctx.prog.module(ATOMIC)
    cands = []
    for fn in m.funcs.values():
        cfg = ctx.cfg(fn)
        evs = [e for n in cfg.nodes for e in ev.at(fn, n)]
        if "CREATE" in evs and "REPLACE" in evs and fn.name != "_make_tmp":
            cands.append(fn)
    if not cands:
        raise AnalysisError("anchor-vanished: no function in clematis/io/atomic.py both creates a temp file and replaces")
    return cands


def rule_ord(ctx) -> None:
    # `while <bytes left>: n = f.write(view); view = view[n:]`: leaving the loop through its condition means nothing is left to
    # write (also for empty data) - the exit branch counts as the completed WRITE, in the writer and in helpers it calls
    def loop_exit_write(f, n):
        if n.kind == "branch" and n.label == "F" and isinstance(n.stmt, ast.While) and \
                any(isinstance(c, ast.Call) and isinstance(c.func, ast.Attribute) and c.func.attr == "write" for b in n.stmt.body for c in ast.walk(b)):
            return ["WRITE"]
        return []

    ev = Events(ctx, _classify(ctx), depth=3, extra=loop_exit_write)
    for fn in _writer_fn(ctx):
        cfg = ctx.cfg(fn)
        # unbuffered raw handle => flush is a no-op; otherwise FLUSH is required before FSYNC
        unbuffered = True
        for n, c in find_calls(ctx, fn, lambda c, nm: (dotted(c.func) or "") in ("open", "io.open") or call_tail(c) == "open"):
            b = kwarg(c, "buffering")
            if not (isinstance(b, ast.Constant) and b.value == 0):
                unbuffered = False

        ORDER = ["NONE", "CREATED", "WRITTEN", "FLUSHED", "FSYNCED", "REPLACED"]
        def step(n, s, lab, t):
            evs = ev.at(fn, n) if n.kind != "join" else []
            if lab == "exc":
                return [s]  # the raising statement did not complete
            for e in evs:
                if e == "CREATE":
                    s = "CREATED"
                elif e == "WRITE":
                    s = "WRITTEN" if s in ("CREATED", "WRITTEN", "FLUSHED", "FSYNCED") else s
                elif e == "FLUSH":
                    s = "FLUSHED" if s == "WRITTEN" else s
                elif e == "FSYNC":
                    if s == "FLUSHED" or (s == "WRITTEN" and unbuffered):
                        s = "FSYNCED"
                elif e == "REPLACE":
                    s = "REPLACED" if s == "FSYNCED" else "BAD:" + s
            return [s]

        def bad(n, s):
            return None

        visited, _ = explore(cfg, ["NONE"], step, bad)
        badstates = sorted({s for (n, s) in visited if isinstance(s, str) and s.startswith("BAD:")})
        rep_nodes = [n for n in cfg.nodes if "REPLACE" in ev.at(fn, n)]
        ctx.floor("C08.ORD", f"replace sites in {fn.qual}", len(rep_nodes), 1)
        key = f"{fn.qual}/replace-after-fsync"
        if badstates:
            # witness: shortest product path to a BAD state
            def bad2(n, s):
                return "replace reached in state " + s[4:] if isinstance(s, str) and s.startswith("BAD:") else None

            _, wit = explore(cfg, ["NONE"], step, bad2)
            msg, path = wit[0]
            ctx.violation("C08.ORD", key, fn.loc(rep_nodes[0].ast),
                          f"os.replace/atomic_replace reachable before the temp file is written+flushed+fsynced ({msg})",
                          ctx.path_witness(fn, [n for n, _ in path]))
        else:
            ctx.holds("C08.ORD", key, fn.loc(rep_nodes[0].ast),
                      f"on all {len(visited)} (node,state) pairs the rename happens only in state FSYNCED "
                      f"(flush required: {not unbuffered})")
        # normal exit only in state REPLACED
        ex = {s for (n, s) in visited if n is cfg.exit}
        ctx.check(ex <= {"REPLACED"}, "C08.ORD", f"{fn.qual}/exit-state", fn.loc(),
                  "every normal return happens after the rename",
                  f"a normal return is reachable in states {sorted(ex - {'REPLACED'})} (no rename performed)")
    # temp is created in the destination directory, not deleted on close
    mk = ctx.prog.funcs.get(f"{ATOMIC}:_make_tmp")
    holders = [mk] if mk else _writer_fn(ctx)
    found = 0
    for fn in holders:
        for n, c in find_calls(ctx, fn, lambda c, nm: (dotted(c.func) or "") in ("tempfile.NamedTemporaryFile", "tempfile.mkstemp")):
            found += 1
            d = kwarg(c, "dir")
            role = _role(ctx, fn, d, n) if d is not None else "NONE"
            ctx.check(role == "DSTDIR", "C08.ORD", f"{fn.qual}/tmp-dir", fn.loc(c),
                      "temp file is created in the destination's own directory (same filesystem => rename is atomic)",
                      f"temp file directory is not derived from the destination's parent (dir={src(d) if d is not None else 'default tmp dir'})")
            if (dotted(c.func) or "").endswith("NamedTemporaryFile"):
                de = kwarg(c, "delete")
                ctx.check(isinstance(de, ast.Constant) and de.value is False, "C08.ORD", f"{fn.qual}/tmp-delete", fn.loc(c),
                          "delete=False: the temp survives close() until renamed", "NamedTemporaryFile without delete=False", nontrivial=False)
    # a temp created by hand: its NAME must be unique per write.  tempfile picks a fresh random name with O_EXCL; a name built
    # from the destination and deterministic parts only (pid, a fixed suffix) is shared by every write of that destination in the
    # process - a second writer truncates the temp the first has filled, and the first one's rename publishes a partial file
    for fn in holders:
        rdf = ctx.rd(fn)
        cfgf = ctx.cfg(fn)
        for n in cfgf.nodes:
            for c in node_calls(n):
                is_open = (dotted(c.func) in ("open", "io.open", "os.open") and c.args) or (isinstance(c.func, ast.Attribute) and c.func.attr in ("open", "touch", "write_bytes", "write_text") and not dotted(c.func) in ("os.open",))
                if not is_open:
                    continue
                target = c.args[0] if dotted(c.func) in ("open", "io.open", "os.open") else c.func.value
                inl = rdf.inline(target, n)
                from_dst = any(isinstance(y, ast.Name) and y.id in fn.params for y in ast.walk(inl))
                if not from_dst:
                    continue
                found += 1
                unique = any(isinstance(y, ast.Call) and ((dotted(y.func) or "").split(".")[0] in ("uuid", "secrets", "random") or call_tail(y) in ("token_hex", "uuid4", "uuid1", "urandom", "getrandbits", "mkstemp", "NamedTemporaryFile"))
                             for y in ast.walk(inl))
                excl = any(const_str(a) is not None and "x" in const_str(a) for a in c.args[1:2]) or any(isinstance(y, ast.Attribute) and y.attr == "O_EXCL" for a in c.args for y in ast.walk(a))
                ctx.check(unique or excl, "C08.ORD", ctx.okey(f"{fn.qual}/tmp-name-unique-per-write"), fn.loc(c), "the hand-made temp name is unique per write (random part or exclusive creation)",
                          f"`{src(c)[:60]}` creates the temp under `{src(inl)[:60]}`, a name built from the destination and deterministic parts only: two writes of one destination in the same process share "
                          "the temp - the second truncates what the first has written and the first one's rename publishes a partial file (and a failed second write leaves it there)")
    ctx.floor("C08.ORD", "temp creation sites", found, 1)


def rule_clean(ctx) -> None:
    ev = Events(ctx, _classify(ctx), depth=0)

    def mk_step(fn, init_live):
        def step(n, s, lab, t):
            if n.kind == "branch":
                # `if tmp.exists():` false branch: nothing to clean
                if n.label == "F" and isinstance(n.ast, ast.AST):
                    for c in [x for x in ast.walk(n.ast) if isinstance(x, ast.Call)]:
                        if call_tail(c) in ("exists", "is_file") or (dotted(c.func) or "") in ("os.path.exists", "os.path.isfile"):
                            return ["GONE"] if s == "LIVE" else [s]
                return [s]
            evs = ev.at(fn, n) if n.kind != "join" else []
            if n.kind == "cond" and lab == "exc" and s == "LIVE":
                for c in node_calls(n):
                    if call_tail(c) in ("exists", "is_file") or (dotted(c.func) or "") in ("os.path.exists", "os.path.isfile"):
                        return ["GONE"]  # the probe that precedes the unlink failed: cleanup was attempted
            for e in evs:
                if e == "CREATE":
                    if lab != "exc":
                        s = "LIVE"
                elif e == "UNLINK":
                    s = "GONE" if s == "LIVE" else s  # an attempt counts on both edges
                elif e == "REPLACE":
                    if lab != "exc":
                        s = "GONE" if s == "LIVE" else s
            return [s]

        return step

    for fn in _writer_fn(ctx):
        cfg = ctx.cfg(fn)
        step = mk_step(fn, False)

        def bad(n, s):
            if n is cfg.raise_ and s == "LIVE":
                return "exceptional exit with the temp file still on disk"
            return None

        visited, wit = explore(cfg, ["NONE"], step, bad)
        key = f"{fn.qual}/raise-with-live-temp"
        if wit:
            msg, path = wit[0]
            ctx.violation("C08.CLEAN", key, fn.loc(), msg, ctx.path_witness(fn, [n for n, _ in path]))
        else:
            n_exc = sum(1 for n in cfg.nodes for t, l in n.succ if l == "exc")
            ctx.holds("C08.CLEAN", key, fn.loc(),
                      f"all {n_exc} exception edges after creation lead through an unlink attempt / exists()-false before leaving")
    # atomic_replace: every explicit re-raise after the retry loop happens after cleanup
    fn = ctx.func(f"{ATOMIC}:atomic_replace")
    cfg = ctx.cfg(fn)
    step = mk_step(fn, True)

    def bad_r(n, s):
        if n.kind == "stmt" and isinstance(n.ast, ast.Raise) and s == "LIVE":
            return "re-raise with the temp file still on disk"
        return None

    visited, wit = explore(cfg, ["LIVE"], step, bad_r)
    raises = [n for n in cfg.nodes if n.kind == "stmt" and isinstance(n.ast, ast.Raise)]
    ctx.floor("C08.CLEAN", "explicit raise in atomic_replace", len(raises), 1)
    key = f"{fn.qual}/reraise-after-cleanup"
    if wit:
        msg, path = wit[0]
        ctx.violation("C08.CLEAN", key, fn.loc(), msg, ctx.path_witness(fn, [n for n, _ in path]))
    else:
        ctx.holds("C08.CLEAN", key, fn.loc(), f"{len(raises)} explicit raise site(s) reached only after unlink attempt / exists()-false")


def rule_retry(ctx) -> None:
    fn = ctx.func(f"{ATOMIC}:atomic_replace")
    cfg = ctx.cfg(fn)
    reps = find_calls(ctx, fn, lambda c, nm: (dotted(c.func) or "") in ("os.replace", "os.rename"))
    # the swap is the rename primitive itself: a mover with a copy fallback (shutil.move / copy / copyfile) rewrites the
    # destination in place when the rename fails - exactly the contended case the retry loop exists for
    movers = find_calls(ctx, fn, lambda c, nm: (dotted(c.func) or "").split(".")[0] == "shutil" or call_tail(c) in ("copy", "copy2", "copyfile", "copyfileobj", "move", "write_bytes", "write_text"))
    for n, c in movers:
        ctx.violation("C08.RETRY", ctx.okey(f"{fn.qual}/swap-is-the-rename-primitive"), fn.loc(c),
                      f"`{src(c)[:50]}` can put the new content in place by copying (shutil.move falls back to copy2 + unlink on any OSError of the rename): the destination is truncated and "
                      "rewritten in place, so a reader - or a second fault during the copy - sees a file that is neither the old nor the new content, and the contention errors never reach the retry loop")
    if not reps and movers:
        return
    ctx.floor("C08.RETRY", "os.replace in atomic_replace", len(reps), 1)
    for n, c in reps:
        # the enclosing loop must be a for over range(...): bounded
        from ..util import enclosing

        loops = [st for st, part in enclosing(ctx.prog, fn, c) if isinstance(st, (ast.For, ast.While)) and part == "body"]
        key = f"{fn.qual}/bounded-retry"
        if not loops:
            ctx.holds("C08.RETRY", key, fn.loc(c), "rename attempted once (no retry loop)", nontrivial=False)
            continue
        lp = loops[0]
        ok = isinstance(lp, ast.For) and isinstance(lp.iter, ast.Call) and dotted(lp.iter.func) == "range"
        ctx.check(ok, "C08.RETRY", key, fn.loc(lp), "retry loop is a for over range(): bounded",
                  f"retry loop is not statically bounded: {src(lp).splitlines()[0]}")


# ---------------------------------------------------------------------- USE
WRITERS = {
    "clematis.engine.snapshot:write_snapshot": "snapshot body",
    "clematis.engine.snapshot:_write_lines": "header+payload snapshot",
    "clematis.engine.snapshot:_write_sidecar_meta": "sidecar",
    "clematis.io.log:rewrite_jsonl": "compacted log",
    "clematis.scripts.export_logs_for_frontend:main": "JSON export bundle (--out)",
    "clematis.scripts.console:write_json": "JSON export of the console (--out)",
}
USE_MODULES = {"clematis.engine.snapshot": set(), "clematis.io.log": {"_append_jsonl_unbuffered"}}
# the JSON exports the statement names are written by these two scripts: nothing in them writes a file's content directly
# (temp-directory housekeeping is not a write of an artefact)
EXPORT_MODULES = ("clematis.scripts.export_logs_for_frontend", "clematis.scripts.console")
# stand-alone scripts outside the package that write snapshot artefacts (parsed ad hoc: they are not part of the program model)
EXTRA_SCRIPTS = {"scripts/mem_compact.py": "compacted snapshots (snapshot-<etag>.full.json[.zst])",
                 # a full copy of clematis/scripts/console.py outside the package (the other root scripts are import shims)
                 "scripts/console.py": "console run bundles (--out run.json, a JSON export)"}


def rule_use(ctx) -> None:
    n_sites = 0
    for q, what in WRITERS.items():
        fn = ctx.func(q)
        sites = find_calls(ctx, fn, lambda c, nm: nm.startswith(ATOMIC + ":atomic_write_"))
        n_sites += len(sites)
        ctx.check(bool(sites), "C08.USE", f"{q}/atomic-writer", fn.loc(),
                  f"{what} reaches disk through {sorted({ctx.prog.callee_name(fn, c).split(':')[1] for _, c in sites})}",
                  f"{what}: writer no longer calls atomic_write_* (not written through the atomic path)")
    ctx.floor("C08.USE", "atomic_write_* call sites in the writers", n_sites, 7)
    for modname, exempt in USE_MODULES.items():
        m = ctx.prog.module(modname)
        ctx.analysed_modules.add(modname)
        for fn in m.funcs.values():
            if fn.name in exempt:
                continue
            for op in file_ops(ctx, fn):
                if op.kind in ("open-r", "mkdir"):
                    continue
                ctx.violation("C08.USE", f"{fn.qual}/{op.kind}", fn.loc(op.call),
                              f"durable-artefact module writes the file system directly, bypassing the atomic path: {src(op.call)[:90]}")
    ctx.holds("C08.USE", "anchored-modules/no-raw-writes", "clematis/engine/snapshot.py, clematis/io/log.py",
              "no raw open-for-write / write_text / rename / unlink in the durable-artefact modules (append path exempt: C16)")
    for modname in EXPORT_MODULES:
        ctx.analysed_modules.add(modname)
        for fn in ctx.prog.module(modname).funcs.values():
            for op in file_ops(ctx, fn):
                if op.kind in ("open-w", "write_text", "write_bytes"):
                    ctx.violation("C08.USE", f"{fn.qual}/{op.kind}", fn.loc(op.call),
                                  f"a JSON export is written straight onto its final name: {src(op.call)[:80]} - a write that fails half-way leaves a truncated, non-JSON file in place of the previous "
                                  "export, and a concurrent reader sees an empty or partial file")
    import os
    for rel, what in EXTRA_SCRIPTS.items():
        path = os.path.join(ctx.prog.repo, rel)
        try:
            tree = ast.parse(open(path, encoding="utf-8").read())
        except OSError:
            raise AnalysisError(f"anchor-vanished: {rel}")
        raw = [x for x in ast.walk(tree) if isinstance(x, ast.Call) and ((isinstance(x.func, ast.Attribute) and x.func.attr in ("write_text", "write_bytes"))
                                                                        or (dotted(x.func) in ("open", "io.open") and len(x.args) > 1 and any(ch in (const_str(x.args[1]) or "") for ch in "wax")))]
        uses = [x for x in ast.walk(tree) if isinstance(x, ast.Call) and call_tail(x).startswith("atomic_write_")]
        ctx.check(not raw and bool(uses), "C08.USE", f"{rel}/atomic-writer", f"{rel}:{raw[0].lineno}" if raw else rel, f"{what} reach disk through atomic_write_* ({len(uses)} call site(s)), no raw write",
                  f"{what}: `{src(raw[0])[:60] if raw else ''}` writes the final name directly - a write that fails half-way leaves a truncated file that snapshot discovery returns and the reader raises on")
    if ctx.tier == "thorough":
        for fn in ctx.prog.all_funcs("clematis."):
            if fn.module.name in USE_MODULES or fn.module.name == ATOMIC:
                continue
            for op in file_ops(ctx, fn):
                if op.kind in ("open-w", "write_text", "write_bytes"):
                    ctx.info("C08.USE", f"{fn.qual}/{op.kind}", fn.loc(op.call),
                             f"writer outside the statement's atomic path (information only): {src(op.call)[:70]}")


# --------------------------------------------------------------------- NAME
ACCEPTED_EXT = (".json", ".jsonl", ".meta", ".zst")


def tmp_name_rule(ctx, rule: str) -> int:
    """Temp names vs. the acceptance predicates (shared by C08.NAME and C06.DISC)."""
    mk = ctx.prog.funcs.get(f"{ATOMIC}:_make_tmp")
    holders = [mk] if mk else _writer_fn(ctx)
    found = 0
    for fn in holders:
        dst_params = set(fn.params)
        for n, c in find_calls(ctx, fn, lambda c, nm: (dotted(c.func) or "") in ("tempfile.NamedTemporaryFile", "tempfile.mkstemp")):
            found += 1
            suf = kwarg(c, "suffix")
            key = f"{fn.qual}/tmp-suffix"
            if suf is None:
                ctx.holds(rule, key, fn.loc(c),
                          "no suffix: temp names end in tempfile's random [a-z0-9_]{8}, which contains no '.', so they "
                          f"cannot end with any accepted extension {ACCEPTED_EXT}")
            else:
                inl_s = ctx.rd(fn).inline(suf, n)
                s = const_str(inl_s)
                if s is None:
                    # a suffix computed from the destination path (final.suffix, final.name[...], os.path.splitext(final)[1])
                    # ends with the destination's own extension whenever that is '.json'/'.jsonl'/'.meta'
                    from_dst = any(isinstance(x, ast.Name) and x.id in dst_params for x in ast.walk(inl_s))
                    if from_dst:
                        ctx.violation(rule, key, fn.loc(c),
                                      f"temp suffix `{src(suf)}` is derived from the destination path: the temp file carries the destination's "
                                      f"extension, so a leftover temp of 'x.json' satisfies endswith('.json') in snapshot discovery / log readers")
                    else:
                        ctx.undecided(rule, key, fn.loc(c), f"non-constant suffix {src(suf)}")
                else:
                    okk = not any(s.endswith(e) for e in ACCEPTED_EXT) and not s.lstrip(".").isdigit()
                    ctx.check(okk, rule, key, fn.loc(c), f"suffix {s!r} is not an accepted extension",
                              f"temp suffix {s!r} ends with an extension that snapshot discovery / log readers accept")
            pre = kwarg(c, "prefix")
            keyp = f"{fn.qual}/tmp-prefix"
            if pre is None:
                ctx.violation(rule, keyp, fn.loc(c), "temp name has no prefix tying it to the destination name")
            else:
                inl = ctx.rd(fn).inline(pre, n)
                ends_dot = isinstance(inl, ast.BinOp) and isinstance(inl.op, ast.Add) and const_str(inl.right) is not None and const_str(inl.right).endswith(".")
                if isinstance(inl, ast.JoinedStr) and inl.values and isinstance(inl.values[-1], ast.Constant):
                    ends_dot = str(inl.values[-1].value).endswith(".")
                ctx.check(ends_dot, rule, keyp, fn.loc(c),
                          "prefix is '<destination name>.' so the temp name is '<name>.<random>' (never equal to a real artefact name)",
                          f"temp prefix {src(pre)} does not end with a '.' separator after the destination name")
    # hand-made temps: `<destination>.<something>` created by open(): the name's constant tail must not be an accepted extension
    for fn in holders:
        rdf = ctx.rd(fn)
        for n in ctx.cfg(fn).nodes:
            for c in node_calls(n):
                if not ((dotted(c.func) in ("open", "io.open", "os.open") and c.args) or (isinstance(c.func, ast.Attribute) and c.func.attr in ("open", "touch", "write_bytes", "write_text") and dotted(c.func) != "os.open")):
                    continue
                target = c.args[0] if dotted(c.func) in ("open", "io.open", "os.open") else c.func.value
                inl = rdf.inline(target, n)
                if not any(isinstance(y, ast.Name) and y.id in fn.params for y in ast.walk(inl)):
                    continue
                found += 1
                tails = [str(v.value) for y in ast.walk(inl) if isinstance(y, ast.JoinedStr) and y.values and isinstance(y.values[-1], ast.Constant) for v in [y.values[-1]]]
                tail = tails[-1] if tails else None
                okk = tail is not None and tail.startswith(".") is not None and not any(tail.endswith(e) for e in ACCEPTED_EXT) and not tail.strip(".").isdigit() and tail != ""
                ctx.check(okk, rule, ctx.okey(f"{fn.qual}/hand-made-tmp-suffix"), fn.loc(c), f"the hand-made temp name ends in {tail!r}, which no discovery / reader pattern accepts",
                          f"the hand-made temp name `{src(inl)[:60]}` has no constant tail outside the accepted extensions {ACCEPTED_EXT}: a leftover temp can be mistaken for real data")
    ctx.floor(rule, "temp creation sites", found, 1)
    return found


def rule_name(ctx) -> None:
    tmp_name_rule(ctx, "C08.NAME")
    # the acceptance predicate of discovery (shared with C06.DISC)
    fn = ctx.func("clematis.engine.snapshot:_pick_latest_snapshot_path")
    _discovery_filter(ctx, fn, "C08.NAME")


LISTING = ("os.listdir", "os.scandir", "glob.glob", "glob.iglob")


def _is_json_test(e: ast.AST, var: Optional[str]) -> bool:
    return (isinstance(e, ast.Call) and call_tail(e) == "endswith" and len(e.args) == 1 and const_str(e.args[0]) == ".json"
            and isinstance(e.func, ast.Attribute) and isinstance(e.func.value, ast.Name) and (var is None or e.func.value.id == var))


def _discovery_filter(ctx, fn, rule: str) -> None:
    """Taint: names from the raw directory listing are RAW until they pass an
    endswith('.json') test (comprehension filter or dominating guard); every
    returned candidate must be free of RAW."""
    from ..cfg import decompose
    from ..dataflow import Taint

    cfg = ctx.cfg(fn)
    rd = ctx.rd(fn)
    rets = [n for n in cfg.nodes if n.kind == "stmt" and isinstance(n.ast, ast.Return) and n.ast.value is not None
            and not (isinstance(n.ast.value, ast.Constant) and n.ast.value.value is None)]
    ctx.floor(rule, "candidate returns in _pick_latest_snapshot_path", len(rets), 1)
    listing = find_calls(ctx, fn, lambda c, nm: (dotted(c.func) or "") in LISTING)
    ctx.floor(rule, "directory listing in _pick_latest_snapshot_path", len(listing), 1)

    def source(e, n):
        if isinstance(e, ast.Call) and (dotted(e.func) or "") in LISTING:
            return {"RAW"}
        return set()

    def comp_filter(comp, g, labels, at):
        tv = g.target.id if isinstance(g.target, ast.Name) else None
        for cond in g.ifs:
            for a_src, pol in decompose(cond, True):
                if pol:
                    try:
                        a = ast.parse(a_src, mode="eval").body
                    except SyntaxError:
                        continue
                    if _is_json_test(a, tv):
                        return labels - {"RAW"}
        return labels

    def guard(d, labels):
        if "RAW" not in labels or d.value is None:
            return labels
        used = {x.id for x in ast.walk(d.value) if isinstance(x, ast.Name)}
        for a_src, pol in cfg.facts(d.node):
            if not pol:
                continue
            try:
                a = ast.parse(a_src, mode="eval").body
            except SyntaxError:
                continue
            if _is_json_test(a, None) and a.func.value.id in used:
                return labels - {"RAW"}
        return labels

    for r in rets:
        t = Taint(rd, source, comp_filter=comp_filter, guard=guard)
        labels = t.of(r.ast.value, r)
        key = f"{fn.qual}/return:{src(r.ast.value)}"
        ctx.check("RAW" not in labels, rule, key, fn.loc(r.ast),
                  "returned candidate derives only from names that passed endswith('.json') "
                  "(sidecars '*.meta' and temps '<name>.<rand>' cannot be picked)",
                  "a returned candidate can be a raw directory entry that never passed the '.json' filter")


def rule_raw_writes(ctx) -> None:
    """the temp file is written through an unbuffered handle; a raw write may store fewer bytes than asked without raising
    (disk nearly full, size limit).  If the count is dropped the truncated temp file is fsynced and swapped in, and the writer
    reports success: the destination then holds neither the old nor the new content."""
    from .. import hazards
    n_raw = 0
    n_handles = 0
    for mn in (ATOMIC, "clematis.engine.snapshot", "clematis.io.log"):
        for fn in ctx.prog.module(mn).funcs.values():
            opens = [x for x in walk_no_defs(fn.node) if isinstance(x, ast.Call) and (dotted(x.func) or "") in ("open", "io.open") and len(x.args) > 1 and any(ch in (const_str(x.args[1]) or "") for ch in "wax")]
            n_handles += len(opens)
            n_raw += sum(1 for x in opens if any(k.arg == "buffering" and isinstance(k.value, ast.Constant) and k.value.value == 0 for k in x.keywords))
            for o, w in hazards.raw_write_unchecked(ctx, fn):
                ctx.violation("C08.ORD", ctx.okey(f"{fn.qual}/raw-write-completes"), fn.loc(w),
                              f"`{src(w)[:40]}` writes through a handle opened with buffering=0 and drops the returned byte count: a short write (full disk, RLIMIT_FSIZE) leaves a truncated "
                              "temp file that is then fsynced and replaced over the destination while the writer reports success")
    ctx.floor("C08.ORD", "write handles opened by the atomic writer / snapshot / log modules", n_handles, 2)
    ctx.holds("C08.ORD", "atomic-writers/raw-writes-complete", "clematis/io/atomic.py", f"{n_handles} write handle(s), {n_raw} unbuffered: every raw write's byte count is consumed (loop until all written); "
              + hazards.controls(ctx, "clematis.engine.health", ["io"]))


def run(ctx) -> None:
    rule_raw_writes(ctx)
    rule_own(ctx)
    rule_ord(ctx)
    rule_clean(ctx)
    rule_retry(ctx)
    rule_use(ctx)
    rule_name(ctx)
