"""C01 Turn execution is reproducible byte-for-byte."""
from __future__ import annotations

import ast
from typing import Dict, List, Optional, Set, Tuple

from ..dataflow import Taint, node_exprs
from ..effects import Effects
from ..model import AnalysisError, Func, const_str, dotted, kwarg, src, walk_no_defs
from ..util import call_tail, enclosing, find_calls, node_calls

EXPLANATION = (
    "C01 decided statically: (SINK) every value derived from the wall clock / perf counter reaches a canonical stream (t1/t2/t4/apply/turn) only under a key "
    "that normalize_for_identity masks for that stream - the mask table is extracted from the normaliser itself (constant stores / pops guarded only by the stream name) - "
    "and apply.now is rebuilt from the logical clock; (CTRL) no branch of the turn loop, the reflection runner or any canonical-path function is decided by a wall-clock value; "
    "(CLOCK) every wall-clock read in the canonical-path modules is a fallback for an absent logical input (ctx.now / hints.now / ctx.turn_id), a default-parameter fallback whose "
    "call sites all pass the reference time, a clock helper, or timing-only (derived values leave the function only under a masked key); (HIST) no field of the canonical T1 record "
    "differs between the cache-hit and the fresh return of the per-graph worker; (ORDER) no set, dict-view algebra result or directory listing - nor a list, dict, argument or return value "
    "that inherits its order - is indexed, sliced, joined, serialised, float-summed, consumed by a first-match loop, popped or picked by keyed max/min unless every path from its definition "
    "passes a total-key sort; (RNG) the stages and the deterministic embedding adapter read no RNG / uuid / pid. Not decided: byte equality of two executions, floating-point / BLAS "
    "reproducibility, thread timing as such (C09 decides the order-restoring structure), total-order tie-breaks inside the stages (C03/C11/C12/C18)."
)
RULES = {
    "C01.SINK": "taint (wall clock -> canonical payload keys) with the normaliser's own mask table as sanitiser; apply.now provenance",
    "C01.CTRL": "taint (wall clock -> branch conditions) in every canonical-path function with a clock read",
    "C01.CLOCK": "guard classification of every wall-clock read (absent-input fallback / default-parameter fallback + call-site obligation / helper / timing-only escapes)",
    "C01.HIST": "fields whose value differs between the cache-hit and fresh return of the per-graph worker, followed through the fold into the canonical T1 record",
    "C01.ORDER": "flow-sensitive iteration-order typing (sets, dict-view algebra, directory listings, inherited order through locals / one call level) with total-key sort on all paths as the only discharge",
    "C01.RNG": "effect query: RNG / uuid / pid reads reachable from the stages and the embedding adapter",
}

CORE = "clematis.engine.orchestrator.core"
RUN_TURN = CORE + ":Orchestrator.run_turn"
CANONICAL = {"t1.jsonl", "t2.jsonl", "t4.jsonl", "apply.jsonl", "turn.jsonl", "health.jsonl"}
CLOCK = {"time.perf_counter", "time.time", "time.monotonic", "time.perf_counter_ns", "time.time_ns", "time.monotonic_ns", "time.process_time"}
CLOCK_TAILS = {"now", "utcnow", "today"}


def _mask_table(ctx) -> Dict[str, Set[str]]:
    """stream -> keys that normalize_for_identity overwrites / drops (extracted from its body)"""
    fn = ctx.func("clematis.engine.util.io_logging:normalize_for_identity")
    m = fn.module
    ident: Set[str] = set()
    for name, sts in m.globals_assigned.items():
        if name == "_IDENTITY_LOGS":
            v = getattr(sts[0], "value", None)
            if v is not None:
                ident = {x.value for x in ast.walk(v) if isinstance(x, ast.Constant) and isinstance(x.value, str)}
    if not ident:
        raise AnalysisError("anchor-vanished: _IDENTITY_LOGS")
    cfg = ctx.cfg(fn)
    table: Dict[str, Set[str]] = {s: set() for s in ident}
    # the record being normalised: the local(s) returned by the function other than its parameter
    outs = {x.value.id for x in walk_no_defs(fn.node) if isinstance(x, ast.Return) and isinstance(x.value, ast.Name) and x.value.id not in fn.params}
    if not outs:
        raise AnalysisError("anchor-vanished: normalize_for_identity returns no local copy")

    def const_valued(v: ast.AST) -> bool:
        if isinstance(v, ast.Constant):
            return True
        if isinstance(v, ast.DictComp):
            return isinstance(v.value, ast.Constant)
        return False

    for n in cfg.nodes:
        ks: Set[str] = set()
        if n.kind == "stmt" and isinstance(n.ast, ast.Assign) and const_valued(n.ast.value):
            for t in n.ast.targets:
                if isinstance(t, ast.Subscript) and src(t.value) in outs and const_str(t.slice):
                    ks.add(const_str(t.slice))
        for c in node_calls(n):
            if call_tail(c) == "pop" and src(c.func.value) in outs and c.args and const_str(c.args[0]):
                ks.add(const_str(c.args[0]))
        if not ks:
            continue
        streams: Optional[Set[str]] = None
        in_ident = False
        conditional = False
        for test, pol, _gn in cfg.guards(n):
            t = src(test)
            if t == "name in _IDENTITY_LOGS" and pol:
                in_ident = True
            elif isinstance(test, ast.Compare) and src(test.left) == "name" and len(test.ops) == 1 and isinstance(test.ops[0], ast.Eq) and const_str(test.comparators[0]) is not None:
                if pol:
                    streams = {const_str(test.comparators[0])} if streams is None else streams & {const_str(test.comparators[0])}
                # the negative side of an earlier `name == X: return` leaves every other stream
            elif isinstance(test, ast.Compare) and isinstance(test.ops[0], ast.In) and isinstance(test.left, ast.Constant) and src(test.comparators[0]) in outs:
                pass  # `"k" in out`: presence test of the key being masked
            elif isinstance(test, ast.Call) and dotted(test.func) == "isinstance":
                pass  # shape test of the value being masked
            elif "CI" in t and "environ" in t:
                pass  # CI normalisation switch (the property observes streams under CI normalisation)
            else:
                conditional = True
        if not in_ident or conditional:
            continue
        for st in (streams if streams is not None else ident):
            if st in table:
                table[st] |= ks
    return table


def _payload_items(d: ast.Dict):
    """(constant key, value) pairs of a dict literal, descending into `**({...} if c else {})` spreads of literals;
    spreads of stage metrics (`**t1.metrics`) are decided on the stage side (CLOCK / HIST)"""
    for k, v in zip(d.keys, d.values):
        if k is not None:
            if const_str(k):
                yield const_str(k), v
            continue
        stack = [v]
        while stack:
            x = stack.pop()
            if isinstance(x, ast.IfExp):
                stack += [x.body, x.orelse]
            elif isinstance(x, ast.Dict):
                yield from _payload_items(x)


def _is_clock(e: ast.AST) -> bool:
    if isinstance(e, ast.Call):
        d = dotted(e.func) or ""
        if d in CLOCK:
            return True
        if isinstance(e.func, ast.Attribute) and e.func.attr in CLOCK_TAILS and ("datetime" in d or d.split(".")[0] in ("dt", "_dt", "datetime")):
            return True
    return False


LOGICAL_ATTRS = {"now", "now_ms", "turn_id"}
LOG_SINKS = {"_append_jsonl", "append_jsonl", "_write_or_capture_scheduler_event", "_append_jsonl_unbuffered", "log_t3_reflection"}
MASKED_EVERYWHERE = {"ms"}  # keys zeroed by the identity normaliser for every identity stream (recomputed and asserted in _mask_table)


class TimeFlow:
    """Where wall-clock values go inside one function: TIME taint with (a) dict entries / subscript stores under a key the
    normaliser masks for every stream cleansed, (b) type tests and constant-key presence tests cleansed."""

    def __init__(self, ctx, fn: Func, wrappers: Set[str], masked: Set[str]):
        self.ctx, self.fn, self.wrappers, self.masked = ctx, fn, wrappers, masked
        self.cfg = ctx.cfg(fn)
        self.rd = ctx.rd(fn)
        self.taint = Taint(self.rd, self._source, cleanse=self._cleanse, guard=self._guard)

    def is_clock_site(self, e: ast.AST) -> bool:
        if _is_clock(e):
            return True
        if isinstance(e, ast.Call):
            cal = self.ctx.prog.callee(self.fn, e)
            if cal is not None and cal[0] == "func" and cal[1] in self.wrappers:
                return True
        return False

    def _source(self, e, n):
        return {"TIME"} if self.is_clock_site(e) else set()

    def _cleanse(self, e, at, labels):
        if "TIME" not in labels:
            return labels
        if isinstance(e, ast.Call) and dotted(e.func) in ("isinstance", "callable", "hasattr", "type"):
            return set(labels) - {"TIME"}
        if isinstance(e, ast.Compare) and len(e.ops) == 1 and isinstance(e.ops[0], (ast.In, ast.NotIn)) and isinstance(e.left, ast.Constant):
            return set(labels) - {"TIME"}
        return labels

    def _guard(self, d, labels):
        return labels

    def _masked_store(self, d) -> bool:
        if d.kind != "mutate":
            return False
        if isinstance(d.target, ast.Subscript) and const_str(d.target.slice) in self.masked:
            return True
        return isinstance(d.target, ast.Call) and call_tail(d.target) == "setdefault" and bool(d.target.args) and const_str(d.target.args[0]) in self.masked

    def esc(self, e: ast.AST, at, _seen: Optional[Set[int]] = None) -> bool:
        """does a wall-clock value leave through `e` OUTSIDE a key the normaliser masks for every stream?  Structural: dict
        literals (directly, as constructor arguments, or held in a local that is only extended by constant-key stores)
        contribute their unmasked entries only."""
        _seen = _seen if _seen is not None else set()
        if isinstance(e, ast.Dict):
            return any(self.esc(v, at, _seen) for k, v in zip(e.keys, e.values) if not (k is not None and const_str(k) in self.masked))
        if isinstance(e, ast.Call) and not self.is_clock_site(e) and not isinstance(e.func, ast.Attribute):
            return any(self.esc(x, at, _seen) for x in list(e.args) + [k.value for k in e.keywords])
        if isinstance(e, (ast.Attribute, ast.Subscript)) and not (isinstance(e, ast.Subscript) and const_str(e.slice) in self.masked):
            return self.esc(e.value, at, _seen) or (isinstance(e, ast.Subscript) and "TIME" in self.taint.of(e.slice, at))
        if isinstance(e, ast.BoolOp):
            return any(self.esc(v, at, _seen) for v in e.values)
        if isinstance(e, ast.IfExp):
            return "TIME" in self.taint.of(e.test, at) or self.esc(e.body, at, _seen) or self.esc(e.orelse, at, _seen)
        if isinstance(e, ast.Name):
            defs = self.rd.reaching(e.id, at)
            if defs and all(d.kind in ("assign", "mutate") for d in defs):
                out = False
                for d in defs:
                    if id(d) in _seen:
                        continue
                    _seen.add(id(d))
                    if self._masked_store(d):
                        continue
                    if d.kind == "assign" and d.value is not None:
                        out = out or self.esc(d.value, d.node, _seen)
                    elif d.kind == "mutate" and isinstance(d.target, (ast.Attribute, ast.Subscript)) and isinstance(d.node.ast, ast.Assign):
                        out = out or self.esc(d.node.ast.value, d.node, _seen)
                    else:
                        out = out or "TIME" in self.taint.of_def(d)
                return out
        return "TIME" in self.taint.of(e, at)

    def sites(self) -> List[Tuple[object, ast.Call]]:
        out = []
        for n in self.cfg.nodes:
            for e in node_exprs(n):
                for x in walk_no_defs(e):
                    if isinstance(x, ast.Call) and self.is_clock_site(x):
                        out.append((n, x))
        return out

    def escapes(self):
        """(kind, node, expr) for every place a TIME-derived value leaves the timing-only discipline"""
        reach = self.cfg.reachable_from_entry()
        for n in self.cfg.nodes:
            if n not in reach:
                continue
            if n.kind == "cond":
                if "TIME" in self.taint.of(n.ast, n):
                    yield "cond", n, n.ast
                continue
            if n.kind != "stmt":
                continue
            a = n.ast
            if isinstance(a, ast.Return) and a.value is not None and self.esc(a.value, n):
                yield "return", n, a.value
            elif isinstance(a, ast.Expr) and isinstance(a.value, ast.Call):
                c = a.value
                tail = call_tail(c)
                if tail in LOG_SINKS:
                    yield "log", n, c
                    continue
                if isinstance(c.func, ast.Attribute) and tail in ("append", "extend", "add", "update", "insert", "setdefault", "pop", "clear", "sort"):
                    continue  # weak update of a local: tracked through the mutate def
                args = list(c.args) + [k.value for k in c.keywords]
                if any(self.esc(x, n) for x in args):
                    yield "call", n, c
            elif isinstance(a, (ast.Assign, ast.AugAssign, ast.AnnAssign)) and getattr(a, "value", None) is not None:
                tg = a.targets if isinstance(a, ast.Assign) else [a.target]
                for t in tg:
                    root = t
                    while isinstance(root, (ast.Attribute, ast.Subscript)):
                        root = root.value
                    if isinstance(t, (ast.Attribute, ast.Subscript)) and isinstance(root, ast.Name) and not self.rd.is_local(root.id) or (
                            isinstance(t, ast.Attribute) and isinstance(root, ast.Name) and root.id in self.fn.params):
                        if isinstance(t, ast.Subscript) and const_str(t.slice) in self.masked:
                            continue
                        if self.esc(a.value, n):
                            yield "store", n, t


def _logical_guard(tf: "TimeFlow", n, call: ast.Call) -> Optional[str]:
    """the clock read is a fallback taken only when a logical input (ctx.now / hints['now'] / ctx.turn_id) is absent"""
    fn, cfg, rd = tf.fn, tf.cfg, tf.rd

    def logical(name: str, at) -> bool:
        for d in rd.reaching(name, at):
            v = d.value
            if d.kind == "param" and (name in LOGICAL_ATTRS or name.startswith("now")):
                return True
            if isinstance(v, ast.Call):
                f = dotted(v.func) or ""
                if f == "getattr" and len(v.args) >= 2 and const_str(v.args[1]) in LOGICAL_ATTRS:
                    return True
                if call_tail(v) == "get" and v.args and const_str(v.args[0]) in LOGICAL_ATTRS:
                    return True
        return False

    # enclosing IfExp in the same statement
    pm = tf.ctx.prog.parents(fn.node)
    cur = call
    while id(cur) in pm:
        par = pm[id(cur)]
        if isinstance(par, ast.IfExp) and cur is par.orelse:
            names = [x.id for x in ast.walk(par.test) if isinstance(x, ast.Name)]
            if any(logical(nm, n) for nm in names):
                return f"`{src(par.test)}` is false"
        if isinstance(par, ast.stmt):
            break
        cur = par
    for test, pol, gn in cfg.guards(n):
        names = [x.id for x in ast.walk(test) if isinstance(x, ast.Name)]
        if any(logical(nm, gn) for nm in names):
            return f"`{src(test)[:50]}` is {pol}"
    # early-return idiom: `if isinstance(now, str): return now` before the read (facts carry the negation)
    for t, pol in cfg.facts(n):
        try:
            te = ast.parse(t, mode="eval").body
        except SyntaxError:
            continue
        if any(isinstance(x, ast.Name) and logical(x.id, n) for x in ast.walk(te)):
            return f"`{t[:50]}` is {pol}"
    return None


def _default_fallback(tf: "TimeFlow", n, call: ast.Call) -> Optional[str]:
    """`return default if default is not None else <clock>`: the parameter whose presence switches the clock off"""
    pm = tf.ctx.prog.parents(tf.fn.node)
    par = pm.get(id(call))
    if isinstance(par, ast.IfExp) and call is par.orelse and isinstance(par.test, ast.Compare) and isinstance(par.test.left, ast.Name) \
            and par.test.left.id in tf.fn.params and isinstance(par.test.ops[0], ast.IsNot) and isinstance(par.body, ast.Name) and par.body.id == par.test.left.id:
        return par.test.left.id
    return None


TIME_MODULES = [
    "clematis.engine.orchestrator.core", "clematis.engine.orchestrator.parallel", "clematis.engine.orchestrator.logging", "clematis.engine.apply", "clematis.engine.snapshot",
    "clematis.engine.stages.t1", "clematis.engine.stages.t2.core", "clematis.engine.stages.t2.helpers", "clematis.engine.stages.t2.state", "clematis.engine.stages.t2.shard",
    "clematis.engine.stages.t2.quality", "clematis.engine.stages.t2.quality_ops", "clematis.engine.stages.t2.quality_mmr", "clematis.engine.stages.t2.metrics", "clematis.engine.stages.hybrid",
    "clematis.engine.stages.t3.policy", "clematis.engine.stages.t3.dialogue", "clematis.engine.stages.t3.bundle", "clematis.engine.stages.t3.legacy", "clematis.engine.stages.t3.reflect",
    "clematis.engine.stages.t4", "clematis.engine.gel", "clematis.engine.health", "clematis.memory.index", "clematis.adapters.embeddings", "clematis.graph.store",
    "clematis.io.log", "clematis.engine.util.io_logging",
]


def _sidecar_write(tf: "TimeFlow", n, c: ast.Call) -> bool:
    if call_tail(c) not in ("atomic_write_text", "atomic_write_bytes", "write_text") or not c.args:
        return False
    p = c.args[0]
    if isinstance(p, ast.Name):
        uv = tf.rd.unique_value(p.id, n)
        p = uv[0] if uv is not None else p
    return isinstance(p, ast.BinOp) and isinstance(p.op, ast.Add) and isinstance(p.right, ast.Constant) and p.right.value == ".meta"


def _stage_boundary(cfg, n) -> str:
    best = "?"
    for m in cfg.nodes:
        if m.kind == "stmt" and isinstance(m.ast, ast.Assign) and isinstance(m.ast.value, ast.Dict) and cfg.dominates(n, m):
            for k, v in zip(m.ast.value.keys, m.ast.value.values):
                if k is not None and const_str(k) == "stage_end" and const_str(v):
                    return const_str(v)
    return best


def rule_time(ctx) -> None:
    masks = _mask_table(ctx)
    ctx.floor("C01.SINK", "identity streams with a mask table", len(masks), 4)
    everywhere = set.intersection(*masks.values()) & MASKED_EVERYWHERE
    ctx.check(MASKED_EVERYWHERE <= everywhere, "C01.SINK", "normalize_for_identity/masks-ms-everywhere", "clematis/engine/util/io_logging.py",
              "`ms` is zeroed for every identity stream", f"normalize_for_identity no longer masks {sorted(MASKED_EVERYWHERE - everywhere)} for every identity stream")
    mods = [m for m in TIME_MODULES if m in ctx.prog.modules]
    ctx.floor("C01.CLOCK", "canonical-path modules present", len(mods), 24)
    funcs: List[Func] = []
    for mn in mods:
        ctx.analysed_modules.add(mn)
        funcs += list(ctx.prog.module(mn).funcs.values())
    # wrappers: functions that return a wall-clock value unconditionally (fixpoint, one module-level hop is enough here)
    wrappers: Set[str] = set()
    fallback_fns: Dict[str, str] = {}
    for _ in range(3):
        grew = False
        for fn in funcs:
            if fn.qual in wrappers:
                continue
            if not any(isinstance(x, ast.Call) and (_is_clock(x) or (ctx.prog.callee(fn, x) is not None and ctx.prog.callee(fn, x)[1] in wrappers)) for x in walk_no_defs(fn.node)):
                continue
            tf = TimeFlow(ctx, fn, wrappers, everywhere)
            unguarded = [(n, c) for n, c in tf.sites() if _logical_guard(tf, n, c) is None and _default_fallback(tf, n, c) is None]
            # a clock helper: a few statements, no loop, every return is the clock value (`_now_ms`, `_deterministic_created_at`)
            small = sum(1 for x in walk_no_defs(fn.node) if isinstance(x, ast.stmt)) <= 10 and not any(isinstance(x, (ast.For, ast.While)) for x in walk_no_defs(fn.node))
            if unguarded and small:
                esc = list(tf.escapes())
                rets = [x for x in walk_no_defs(fn.node) if isinstance(x, ast.Return) and x.value is not None]
                if rets and all(k == "return" for k, _, _ in esc) and len([1 for k, _, _ in esc if k == "return"]) == len(rets):
                    wrappers.add(fn.qual)
                    grew = True
        if not grew:
            break
    n_sites = n_fn = 0
    n_log = 0
    for fn in funcs:
        tf = TimeFlow(ctx, fn, wrappers, everywhere)
        sites = tf.sites()
        if not sites:
            continue
        n_fn += 1
        free: List[Tuple[object, ast.Call]] = []
        for n, c in sites:
            n_sites += 1
            g = _logical_guard(tf, n, c)
            if g is not None:
                ctx.holds("C01.CLOCK", f"{fn.qual}/fallback:{src(c)[:24]}@{g[:30]}", fn.loc(c), f"wall-clock read only when the logical input is absent ({g}): outside the property's precondition (same logical clock)")
                continue
            dp = _default_fallback(tf, n, c)
            if dp is not None:
                fallback_fns[fn.qual] = dp
                ctx.holds("C01.CLOCK", f"{fn.qual}/default-fallback", fn.loc(c), f"wall clock only when `{dp}` is not supplied; call sites checked below")
                continue
            free.append((n, c))
        if not free:
            continue
        is_wrapper = fn.qual in wrappers
        if is_wrapper:
            ctx.info("C01.CLOCK", f"{fn.qual}/wrapper", fn.loc(), "returns a wall-clock value: treated as a clock source at its call sites")
        # timing-only discipline
        seen: Set[str] = set()
        bad = 0
        for kind, n, e in tf.escapes():
            if kind == "log":
                n_log += _check_log_site(ctx, tf, n, e, masks)
                continue
            if kind == "cond":
                stage = _stage_boundary(tf.cfg, n) if fn.qual == RUN_TURN else ""
                n_branch = 1 + sum(1 for k0 in seen if "/wall-clock-branch" in k0 and (not stage or k0.endswith("@" + stage)))
                key = f"{fn.qual}/wall-clock-branch" + (f"@{stage}" if stage else f"#{n_branch}") + (f"#{n_branch}" if stage and n_branch > 1 else "")
                if key in seen:
                    continue
                seen.add(key)
                bad += 1
                ctx.violation("C01.CTRL", key, fn.loc(e), f"the branch `{src(e)[:50]}`" + (f" (stage boundary {stage})" if stage else "") +
                              " is decided by a value derived from the wall clock / perf counter: which path the turn takes (yield, timeout, entries written) depends on wall-clock speed")
            else:
                if kind == "return" and is_wrapper:
                    continue
                if kind == "call" and _sidecar_write(tf, n, e):
                    ctx.info("C01.CLOCK", f"{fn.qual}/sidecar-write", fn.loc(e), "created_at goes to the `.meta` sidecar (SOURCE_DATE_EPOCH-controlled), not to the snapshot body the property observes")
                    continue
                key = f"{fn.qual}/{kind}:{src(e)[:32]}"
                if key in seen:
                    continue
                seen.add(key)
                bad += 1
                ctx.violation("C01.CLOCK", key, fn.loc(e), f"a wall-clock-derived value leaves `{fn.name}` through {kind} `{src(e)[:50]}` outside a key the identity normaliser masks")
        if not bad:
            ctx.holds("C01.CLOCK", f"{fn.qual}/timing-only", fn.loc(), f"{len(free)} wall-clock reads: every derived value stays under a masked key ({sorted(everywhere)}) or in locals")
    # obligations at the call sites of default-fallback parsers
    n_calls = 0
    for fn in funcs:
        for x in walk_no_defs(fn.node):
            if not isinstance(x, ast.Call):
                continue
            cal = ctx.prog.callee(fn, x)
            if cal is None or cal[0] != "func":
                continue
            q = cal[1]
            if q not in fallback_fns or q == fn.qual:
                continue
            n_calls += 1
            callee = ctx.func(q)
            dp = fallback_fns[q]
            pos = callee.params.index(dp)
            given = kwarg(x, dp) is not None or len(x.args) > pos
            if given:
                ctx.holds("C01.CLOCK", f"{fn.qual}/{callee.name}-default:{src(x)[:30]}", fn.loc(x), f"`{dp}` supplied: an unparsable timestamp falls back to the reference time in hand")
                continue
            # parsing the logical clock itself
            nodes = ctx.cfg(fn).node_containing(x)
            tf = TimeFlow(ctx, fn, wrappers, everywhere)
            arg0 = x.args[0] if x.args else None
            is_logical = False
            if isinstance(arg0, ast.Name) and nodes:
                fake = ast.IfExp(test=arg0, body=arg0, orelse=x)
                is_logical = any(True for d in tf.rd.reaching(arg0.id, nodes[0]) if (d.kind == "param" and arg0.id.startswith("now")) or (
                    isinstance(d.value, ast.Call) and ((dotted(d.value.func) == "getattr" and len(d.value.args) >= 2 and const_str(d.value.args[1]) in LOGICAL_ATTRS) or (
                        call_tail(d.value) == "get" and d.value.args and const_str(d.value.args[0]) in LOGICAL_ATTRS))))
            # a forwarding wrapper (`_to_quarter(ts, default)` -> `_parse_iso(ts, default)`) is itself a fallback function: handled by `given`
            ctx.check(is_logical, "C01.CLOCK", f"{fn.qual}/{callee.name}-no-default:{src(x)[:30]}", fn.loc(x),
                      "parses the logical clock itself (a malformed logical clock is outside the precondition)",
                      f"`{src(x)[:50]}` parses a stored timestamp without `{dp}`: an unparsable value is dated by the wall clock, so retrieval depends on when the turn is replayed")
    ctx.floor("C01.CLOCK", "functions with wall-clock reads", n_fn, 8)
    ctx.floor("C01.CLOCK", "wall-clock read sites", n_sites, 40)
    ctx.floor("C01.CLOCK", "call sites of default-fallback timestamp parsers", n_calls, 4)
    ctx.floor("C01.SINK", "canonical append sites examined", n_log, 10)
    # apply.now: rebuilt from ctx.now_ms or dropped
    fn = ctx.func(RUN_TURN)
    cfg = ctx.cfg(fn)
    ap_names = {c.args[1].id for n in cfg.nodes for c in node_calls(n) if call_tail(c) == "_append_jsonl" and len(c.args) > 1 and const_str(c.args[0]) == "apply.jsonl" and isinstance(c.args[1], ast.Name)}
    ap = [n for n in cfg.nodes if n.kind == "stmt" and isinstance(n.ast, ast.Assign) and any(isinstance(t, ast.Subscript) and src(t.value) in ap_names and const_str(t.slice) == "now" for t in n.ast.targets)]
    ok = bool(ap) and all("now_ms" in src(n.ast.value) for n in ap)
    ctx.check(ok, "C01.SINK", f"{fn.qual}/apply.now-from-logical-clock", fn.loc(ap[0].ast) if ap else fn.loc(), "apply.now is rebuilt from ctx.now_ms (logical clock)", "apply.now is not derived from the logical clock")


_REPORTED: Set[Tuple[str, str]] = set()


def _check_log_site(ctx, tf: "TimeFlow", n, c: ast.Call, masks) -> int:
    fn, rd = tf.fn, tf.rd
    if call_tail(c) not in ("_append_jsonl", "append_jsonl") or not c.args or const_str(c.args[0]) not in CANONICAL:
        return 0
    stream = const_str(c.args[0])
    payload = c.args[1] if len(c.args) > 1 else None
    items: List[Tuple[str, ast.AST, object]] = []
    if isinstance(payload, ast.Dict):
        items = [(k, v, n) for k, v in _payload_items(payload)]
    elif isinstance(payload, ast.Name):
        base = [d for d in rd.reaching(payload.id, n) if d.kind != "mutate"]
        if len(base) == 1 and isinstance(base[0].value, ast.Dict):
            items = [(k, v, base[0].node) for k, v in _payload_items(base[0].value)]
            for d in rd.reaching(payload.id, n):
                if d.kind == "mutate" and isinstance(d.target, ast.Subscript) and const_str(d.target.slice) and isinstance(d.node.ast, ast.Assign):
                    items.append((const_str(d.target.slice), d.node.ast.value, d.node))
                elif d.kind == "mutate" and not (isinstance(d.target, ast.Call) and call_tail(d.target) == "pop"):
                    items = []
                    break
    if not items:
        ctx.undecided("C01.SINK", ctx.okey(f"{fn.qual}/{stream}"), fn.loc(c), "payload is not a dict literal (plus constant-key stores)")
        return 0
    masked = masks.get(stream, set())
    # per-stream precision: evaluate each value with a taint that does not cleanse by key
    raw = tf.taint
    for ks, v, at in items:
        labels = raw.of(v, at)
        if "TIME" in labels and ks not in masked:
            if (stream, ks) in _REPORTED:
                continue
            _REPORTED.add((stream, ks))
            ctx.violation("C01.SINK", f"{fn.qual}/{stream}:{ks}", fn.loc(v),
                          f"`{stream}` field `{ks}` = `{src(v)[:40]}` derives from the wall clock and is not masked by normalize_for_identity for that stream: "
                          "two replays write different canonical bytes")
        elif "TIME" in labels:
            ctx.holds("C01.SINK", ctx.okey(f"{fn.qual}/{stream}:{ks}"), fn.loc(v), f"time-derived `{ks}` is masked for {stream} by the identity normaliser")
    return 1


def rule_hist(ctx) -> None:
    inner = ctx.func("clematis.engine.stages.t1:t1_propagate._t1_one_graph")
    outer = ctx.func("clematis.engine.stages.t1:t1_propagate")
    cfg = ctx.cfg(inner)
    # returns on the hit path vs the fresh path
    rets = [n for n in cfg.nodes if n.kind == "stmt" and isinstance(n.ast, ast.Return) and isinstance(n.ast.value, ast.Tuple) and len(n.ast.value.elts) == 2 and isinstance(n.ast.value.elts[1], ast.Dict)]
    rd0 = ctx.rd(inner)
    # the hit return is guarded by `<h> is not None` where <h> = <cache>.get(<key>)
    def _is_hit_fact(t: str, at) -> bool:
        try:
            e = ast.parse(t, mode="eval").body
        except SyntaxError:
            return False
        if not (isinstance(e, ast.Compare) and isinstance(e.left, ast.Name) and len(e.ops) == 1 and isinstance(e.ops[0], ast.IsNot)):
            return False
        return any(isinstance(d.value, ast.Call) and call_tail(d.value) == "get" for d in rd0.reaching(e.left.id, at))
    hit_r = [n for n in rets if any(p and _is_hit_fact(t, n) for t, p in cfg.facts(n))]
    # the fresh return is the last one (after the propagation loop): it is not the hit return and carries measured values
    fresh_r = [n for n in rets if n not in hit_r and any(k is None or not isinstance(v, ast.Constant) for k, v in zip(n.ast.value.elts[1].keys, n.ast.value.elts[1].values))]
    fresh_r = sorted(fresh_r, key=lambda n: n.lineno)[-1:]
    if not hit_r or not fresh_r:
        raise AnalysisError("anchor-vanished: hit / fresh returns of _t1_one_graph")

    rd = ctx.rd(inner)

    def fields(n) -> Dict[str, str]:
        out: Dict[str, str] = {}

        def add(d: ast.Dict, at) -> None:
            for k, v in zip(d.keys, d.values):
                if k is not None and const_str(k):
                    out[const_str(k)] = src(v)
                elif k is None and isinstance(v, ast.Name):
                    uv = rd.unique_value(v.id, at)
                    if uv is not None and isinstance(uv[0], ast.Dict):
                        add(uv[0], uv[1])
                    else:
                        out[f"**{v.id}"] = "<unresolved spread>"
        add(n.ast.value.elts[1], n)
        return out

    def cached_copy(k: str, expr: str) -> bool:
        """the hit path reports the stored value of the same field: <h>["metrics"][k] / <h>["metrics"].get(k, d)"""
        import re as _re
        e = expr.replace("'", '"')
        return bool(_re.fullmatch(r'\w+\["metrics"\]\["%s"\]' % _re.escape(k), e) or _re.match(r'\w+\["metrics"\]\.get\("%s"' % _re.escape(k), e))

    fh, ff = fields(hit_r[0]), fields(fresh_r[-1])

    # what the entry stores under each metrics key: the literal put into the cache ({"metrics": {**result_metrics, k: v, ..}})
    stored: Dict[str, str] = {}
    for x in walk_no_defs(inner.node):
        if isinstance(x, ast.Dict):
            for k0, v0 in zip(x.keys, x.values):
                if k0 is not None and const_str(k0) == "metrics" and isinstance(v0, ast.Dict):
                    for k1, v1 in zip(v0.keys, v0.values):
                        if k1 is not None and const_str(k1):
                            stored[const_str(k1)] = src(v1)
                        elif k1 is None and isinstance(v1, ast.Name):
                            for y in walk_no_defs(inner.node):
                                if isinstance(y, ast.Assign) and any(isinstance(t, ast.Name) and t.id == v1.id for t in y.targets) and isinstance(y.value, ast.Dict):
                                    for k2, v2 in zip(y.value.keys, y.value.values):
                                        if k2 is not None and const_str(k2):
                                            stored.setdefault(const_str(k2), src(v2))

    def replayed(k: str, expr: str) -> bool:
        """the hit path reads a stored metrics key whose stored value is the very expression the fresh return reports for k"""
        import re as _re
        e = expr.replace("'", '"')
        m = _re.match(r'(?:float|int)?\(?\w+\["metrics"\](?:\.get\("(\w+)"|\["(\w+)"\])', e)
        k2 = (m.group(1) or m.group(2)) if m else None
        return k2 is not None and stored.get(k2) == ff.get(k)

    differ = sorted(k for k in fh if k in ff and fh[k] != ff[k] and not cached_copy(k, fh[k]) and not replayed(k, fh[k]))
    missing = sorted(set(ff) - set(fh))
    ctx.check(not missing, "C01.HIST", "t1/hit-return-has-every-field", inner.loc(hit_r[0].ast), "the hit return carries every field of the fresh return",
              f"fields {missing} exist only on the fresh return")
    ctx.floor("C01.HIST", "per-graph result fields compared between hit and fresh return", len(fh), 8)
    # follow into the metrics dict of t1_propagate via the sequential fold
    from .c09 import _fold_map
    seq_loop = None
    for x in walk_no_defs(outer.node):
        if isinstance(x, ast.For) and any(isinstance(st, ast.Assign) and isinstance(st.value, ast.Call) and call_tail(st.value) == "_t1_one_graph" for st in x.body):
            seq_loop = x
    dvar, mvar = "deltas_for_gid", "m"
    if seq_loop is not None:
        for st in seq_loop.body:
            if isinstance(st, ast.Assign) and isinstance(st.value, ast.Call) and call_tail(st.value) == "_t1_one_graph" and isinstance(st.targets[0], ast.Tuple) and len(st.targets[0].elts) == 2:
                dvar, mvar = src(st.targets[0].elts[0]), src(st.targets[0].elts[1])
    fold = _fold_map(seq_loop.body, mvar, dvar) if seq_loop is not None else {}
    var_of = {f: v for v, (f, op, gate) in fold.items()}
    gate_of = {f: gate for v, (f, op, gate) in fold.items()}
    metrics_lit = [x for x in walk_no_defs(outer.node) if isinstance(x, ast.Assign) and isinstance(x.value, ast.Dict) and {"pops", "cache_hits"} <= {const_str(k) for k in x.value.keys if k is not None}]
    if not metrics_lit:
        raise AnalysisError("anchor-vanished: metrics literal of t1_propagate")
    mkeys = {const_str(k): src(v) for k, v in zip(metrics_lit[0].value.keys, metrics_lit[0].value.values) if k is not None}
    is_global = "_T1_CACHE" in ctx.prog.module("clematis.engine.stages.t1").globals_assigned
    for f in differ:
        v = var_of.get(f)
        if v is None or gate_of.get(f):
            continue  # only reported under the perf metrics gate: not part of the default canonical record
        hits = sorted(k for k, expr in mkeys.items() if v in {y.id for y in ast.walk(ast.parse(expr, mode="eval")) if isinstance(y, ast.Name)})
        for mk in hits:
            ctx.check(not is_global, "C01.HIST", f"t1.jsonl:{mk}", outer.loc(metrics_lit[0]),
                      f"`{mk}` differs between hit and fresh computation but the cache is per engine state",
                      f"t1.jsonl field `{mk}` (from `{f}`: hit path `{fh[f]}` vs fresh `{ff[f]}`) depends on whether the process-global _T1_CACHE already holds the entry: "
                      "replaying the same turns on a fresh state in a warm process writes different canonical bytes than in a fresh process")
    ctx.holds("C01.HIST", "t1/hit-vs-fresh-fields", inner.loc(), f"{len(fh)} fields compared; history-dependent: {differ}")


STAGE_ENTRY = [
    "clematis.engine.stages.t1:t1_propagate",
    "clematis.engine.stages.t2.core:t2_semantic",
    "clematis.engine.stages.t4:t4_filter",
    "clematis.engine.stages.t3.policy:deliberate",
    "clematis.engine.stages.t3.dialogue:speak",
    "clematis.engine.health:check_and_log",
]


def rule_rng(ctx) -> None:
    ef = Effects(ctx, depth=4, hints={"store": "clematis.graph.store:InMemoryGraphStore", "index": "clematis.memory.index:InMemoryIndex"})
    for q in STAGE_ENTRY:
        if not ctx.prog.has_func(q):
            raise AnalysisError(f"anchor-vanished: {q}")
        fn = ctx.func(q)
        nd = [e for e in ef.of(fn) if e.kind == "nondet"]
        rng = [e for e in nd if any(t in e.desc for t in ("random", "uuid", "urandom", "getpid", "secrets"))]
        clk = [e for e in nd if e not in rng]
        ctx.check(not rng, "C01.RNG", f"{fn.qual}/no-rng", rng[0].where if rng else fn.loc(), "no RNG / uuid / pid read reachable from this stage",
                  f"stage reads a nondeterminism source: {rng[0].fmt() if rng else ''}")
    emb = ctx.prog.funcs.get("clematis.adapters.embeddings:DeterministicEmbeddingAdapter.encode")
    if emb is None:
        raise AnalysisError("anchor-vanished: DeterministicEmbeddingAdapter.encode")
    nd = [e for e in Effects(ctx, depth=3).of(emb) if e.kind == "nondet"]
    ctx.check(not nd, "C01.RNG", f"{emb.qual}/deterministic", emb.loc(), "the deterministic embedding adapter reads no RNG / clock", f"embedding adapter reads {nd[0].fmt() if nd else ''}")
    body = src(emb.node)
    ctx.check("default_rng" not in body and "np.random.rand" not in body or "seed" in body or "hashlib" in body, "C01.RNG", f"{emb.qual}/seeded", emb.loc(), "vectors are derived from a hash / fixed seed of the text", "embedding uses an unseeded generator")


ORDER_MODULES = [
    "clematis.engine.stages.t1", "clematis.engine.stages.t2.core", "clematis.engine.stages.t2.state", "clematis.engine.stages.t2.helpers", "clematis.engine.stages.t2.shard",
    "clematis.engine.stages.t2.quality", "clematis.engine.stages.t2.quality_ops", "clematis.engine.stages.t2.quality_mmr", "clematis.engine.stages.hybrid",
    "clematis.engine.stages.t3.policy", "clematis.engine.stages.t3.dialogue", "clematis.engine.stages.t3.bundle", "clematis.engine.stages.t3.legacy", "clematis.engine.stages.t4",
    "clematis.engine.apply", "clematis.engine.gel", "clematis.engine.snapshot", "clematis.engine.orchestrator.core", "clematis.engine.orchestrator.parallel", "clematis.memory.index",
    "clematis.engine.health",
]


def rule_order(ctx) -> None:
    from ..order import OrderTyping, total_key
    ot = OrderTyping(ctx, depth=1)
    mods = [m for m in ORDER_MODULES if m in ctx.prog.modules]
    ctx.floor("C01.ORDER", "canonical-path modules present", len(mods), 22)
    n_fn = n_bad = 0
    for mn in mods:
        m = ctx.prog.module(mn)
        ctx.analysed_modules.add(mn)
        for fn in m.funcs.values():
            n_fn += 1
            seen: Set[str] = set()
            for kind, x, origin, how in ot.consumptions(fn):
                key = f"{fn.qual}/{kind}:{src(x)[:30]}"
                if key in seen:
                    continue
                seen.add(key)
                n_bad += 1
                ctx.violation("C01.ORDER", key, fn.loc(x),
                              f"`{src(x)[:40]}` is a {origin} and is {how} without a total-key sort: the result depends on PYTHONHASHSEED / directory enumeration order, not on the turn's inputs")
    ctx.floor("C01.ORDER", "unordered-typed expressions examined on the canonical path", ot.n_sources, 40)
    ctx.holds("C01.ORDER", "canonical-path/unordered-collections", "clematis/engine",
              f"{ot.n_sources} unordered-typed expressions (sets, dict-view algebra, directory listings and what inherits their order) in {n_fn} functions of {len(mods)} modules: "
              f"{n_bad} order-sensitive consumptions (index/slice, join, serialise, first-match loop, float accumulation, keyed max/min, pop) without a dominating total-key sort")
    # positive controls for the zero-expected rule (typing + consumption on a synthetic function, through the same engine)
    import textwrap
    probe_src = textwrap.dedent("""
        import os
        def probe_a(xs, cap):
            s = {str(x) for x in xs}
            return list(s)[:cap]
        def probe_b(d):
            names = [n for n in os.listdir(d) if n.endswith('.json')]
            names.sort(key=lambda p: len(p))
            return names[0]
        def probe_ok(d):
            names = [n for n in os.listdir(d) if n.endswith('.json')]
            names.sort(key=lambda p: (len(p), p))
            return names[0]
    """)
    host = ctx.prog.module("clematis.engine.health")
    q = ctx.prog.with_override(host.rel, host.src + "\n" + probe_src)
    from ..report import Ctx as _Ctx
    pc = _Ctx(q, "C01", ctx.tier)
    po = OrderTyping(pc, depth=0)
    got = {f.name: len(list(po.consumptions(f))) for f in q.module("clematis.engine.health").funcs.values() if f.name.startswith("probe_")}
    if not (got.get("probe_a", 0) >= 1 and got.get("probe_b", 0) >= 1 and got.get("probe_ok", 1) == 0):
        raise AnalysisError(f"C01.ORDER positive control failed: {got}")
    ctx.info("C01.ORDER", "positive-control", "sa/rules/c01.py", f"synthetic probes typed as expected: {got}")


ORDER_MODULES += ["clematis.engine.util.embed_store", "clematis.engine.cache", "clematis.engine.stages.t2.cache", "clematis.graph.store", "clematis.engine.stages.t3.reflect",
                  "clematis.engine.orchestrator.reflection", "clematis.engine.stages.t2.metrics", "clematis.engine.stages.t2.lance_reader", "clematis.engine.stages.t3.trace"]


def rule_host_tz(ctx) -> None:
    """no timestamp parser consults the host's time zone: datetime.astimezone() on a value that came from fromisoformat()
    reads a naive value in the TZ of the process, so each parser stamps UTC on naive values first
    (`if t.tzinfo is None: t = t.replace(tzinfo=utc)`) - the three sibling parsers must all do so"""
    n = 0
    for q in ("clematis.memory.index:_parse_iso", "clematis.engine.stages.t2.helpers:parse_iso", "clematis.memory.lance_index:_parse_iso8601"):
        if not ctx.prog.has_func(q):
            continue
        f = ctx.func(q)
        cfg = ctx.cfg(f)
        ast_calls = [m for m in cfg.nodes for c in node_calls(m) if call_tail(c) == "astimezone"]
        if not ast_calls:
            continue
        n += 1
        guards = [m for m in cfg.nodes if m.kind == "cond" and src(m.ast).replace(" ", "").endswith(".tzinfoisNone")]
        stamped = [m for m in cfg.nodes if m.kind == "stmt" and isinstance(m.ast, ast.Assign) and isinstance(m.ast.value, ast.Call) and call_tail(m.ast.value) == "replace"
                   and any(k.arg == "tzinfo" for k in m.ast.value.keywords) and any(pol and t.replace(" ", "").endswith(".tzinfoisNone") for t, pol in cfg.facts(m))]
        ok = bool(guards) and bool(stamped) and all(any(cfg.dominates(g, a) for g in guards) for a in ast_calls)
        ctx.check(ok, "C01.CLOCK", f"{q}/naive-is-utc", f.loc(ast_calls[0].ast), "a timestamp without offset is stamped UTC before astimezone(): the host's TZ is never consulted",
                  "astimezone() is applied to a possibly naive fromisoformat() value: a timestamp without offset is read in the TZ of the process, so retrieval depends on the host's time zone")
    ctx.floor("C01.CLOCK", "timestamp parsers converting with astimezone", n, 2)


def rule_cache_clock(ctx) -> None:
    """the stage caches and the turn-level cache manager expire entries by TTL; the clock they compare against is an injectable
    `time_fn` that defaults to time.time.  A cache built without it on the canonical path expires by wall clock: whether turn
    n+1 is a hit depends on how fast the host replays, and hit / miss is written to the canonical records (t1.jsonl cache_hits /
    cache_misses / cache_used / max_delta, cache_hit in t2.jsonl and turn.jsonl)."""
    CACHE = "clematis.engine.cache"
    ttl_classes = {}
    for fn in ctx.prog.module(CACHE).funcs.values():
        if fn.name == "__init__" and "time_fn" in fn.params and fn.cls:
            ttl_classes[fn.cls] = fn
    ctx.floor("C01.CLOCK", "TTL cache classes with an injectable clock", len(ttl_classes), 2)
    n_sites = 0
    for mn in sorted(set(TIME_MODULES + ["clematis.engine.stages.t2.cache"])):
        if mn not in ctx.prog.modules or mn == CACHE:
            continue
        for fn in ctx.prog.module(mn).funcs.values():
            for x in walk_no_defs(fn.node):
                if isinstance(x, ast.Call) and call_tail(x) in ttl_classes and isinstance(x.func, (ast.Name, ast.Attribute)):
                    n_sites += 1
                    init = ttl_classes[call_tail(x)]
                    pos = [p for p in init.params if p != "self"]
                    has = any(k.arg == "time_fn" for k in x.keywords) or (pos.index("time_fn") < len(x.args) if "time_fn" in pos else False)
                    # a TTL of 0 / None switches expiry off: only a constant 0 is accepted as that
                    ttl_kw = next((k.value for k in x.keywords if k.arg in ("ttl_s", "ttl_sec", "ttl")), None)
                    off = isinstance(ttl_kw, ast.Constant) and not ttl_kw.value
                    ctx.check(has or off, "C01.CLOCK", f"{fn.qual}/ttl-cache-on-wall-clock:{call_tail(x)}", fn.loc(x),
                              f"{call_tail(x)} is given a clock (or has no TTL)",
                              f"`{src(x)[:60]}` builds a TTL cache without time_fn, so it expires entries by time.time: whether a repeated turn is a hit depends on wall-clock speed "
                              "(a host that replays slower than the TTL misses), and hit / miss is written to the canonical t1 / t2 / turn records")
    ctx.floor("C01.CLOCK", "TTL cache constructions on the canonical path", n_sites, 3)
    # those caches expire by the wall clock (known findings above), so whether a repeated query is a hit or a fresh computation
    # depends on replay speed.  That is result-neutral only while a hit equals the fresh result, i.e. while the version in the
    # key follows the content: an index write that skips the version increment makes utterances and t2.jsonl depend on
    # whether the TTL has run out.
    from .c05 import index_version_gaps
    n_w = 0
    for kind, fn, at, p in index_version_gaps(ctx):
        if kind != "write":
            continue
        n_w += 1
        ctx.check(p is None, "C01.CLOCK", ctx.okey(f"{fn.qual}/ttl-expiry-result-neutral"), fn.loc(at), "the write is followed by a version increment on every path: a TTL expiry changes hit / miss only",
                  f"`{src(at)[:50]}` changes the episodes without a version increment on some path, while the T2 caches keyed by that version expire by wall clock: after the write a "
                  "repeated query returns the stale cached result or the fresh one depending on whether the TTL ran out - the same inputs give different utterances and t2.jsonl at different replay speeds",
                  ctx.path_witness(fn, p) if p else None)
    ctx.floor("C01.CLOCK", "episode-container writes checked for a version increment", n_w, 2)


CLOCK_PARSE_MODULES = ["clematis.memory.index", "clematis.memory.lance_index", "clematis.engine.stages.t2.helpers", "clematis.engine.stages.t2.core"]


def rule_clock_fallback(ctx) -> None:
    """a logical clock that is GIVEN must decide every time-dependent result: the helpers that parse timestamps fall back to
    datetime.now() when the text cannot be read and no default is passed.  (a) Every call of such a helper passes the default -
    for an episode's timestamp the query's reference time, for the clock itself a fixed instant; (b) where the clock is parsed
    inside a try, the handler does not reset the value to None in front of an `is None -> datetime.now()` fill-in."""
    parsers = {}
    for mn in CLOCK_PARSE_MODULES:
        if mn not in ctx.prog.modules:
            continue
        for fn in ctx.prog.module(mn).funcs.values():
            # `return default if default is not None else <wall clock>` (or a bare wall clock) inside an except handler
            for h in [x for x in walk_no_defs(fn.node) if isinstance(x, ast.ExceptHandler)]:
                for r in [y for st in h.body for y in ast.walk(st) if isinstance(y, ast.Return) and y.value is not None]:
                    if any(_is_clock(z) for z in ast.walk(r.value)):
                        dflt = next((p for p in fn.params if any(isinstance(z, ast.Name) and z.id == p for z in ast.walk(r.value))), None)
                        parsers[fn.qual] = (fn, dflt)
    ctx.floor("C01.CLOCK", "timestamp parsers with a wall-clock fallback", len(parsers), 2)
    n_calls = 0
    for mn in CLOCK_PARSE_MODULES:
        if mn not in ctx.prog.modules:
            continue
        for fn in ctx.prog.module(mn).funcs.values():
            for x in walk_no_defs(fn.node):
                if not isinstance(x, ast.Call):
                    continue
                r = ctx.prog.callee(fn, x)
                if not r or r[1] not in parsers:
                    continue
                pf, dflt = parsers[r[1]]
                n_calls += 1
                ps = [p for p in pf.params if p != "self"]
                given = dflt is not None and ((dflt in ps and len(x.args) > ps.index(dflt)) or any(k.arg == dflt for k in x.keywords))
                if given:
                    a = x.args[ps.index(dflt)] if len(x.args) > ps.index(dflt) else kwarg(x, dflt)
                    given = not (isinstance(a, ast.Constant) and a.value is None)
                ctx.check(given, "C01.CLOCK", ctx.okey(f"{fn.qual}/parse-has-no-wall-clock-fallback"), fn.loc(x), f"`{src(x)[:50]}` passes the fallback instant",
                          f"`{src(x)[:50]}` calls {pf.name} without its default: when the text cannot be read (RFC 3339 lower case `t`/`z`, a trailing blank, an ordinal date) the helper returns "
                          "datetime.now() - with a logical clock given, the recency window and the recency score then follow the wall clock and two replays log different scores")
    ctx.floor("C01.CLOCK", "calls of those parsers", n_calls, 4)
    # (b) try / except around the clock parse
    n_try = 0
    for mn in CLOCK_PARSE_MODULES:
        if mn not in ctx.prog.modules:
            continue
        for fn in ctx.prog.module(mn).funcs.values():
            fills = [x for x in walk_no_defs(fn.node) if isinstance(x, ast.If) and isinstance(x.test, ast.Compare) and isinstance(x.test.ops[0], ast.Is) and isinstance(x.test.left, ast.Name)
                     and isinstance(x.test.comparators[0], ast.Constant) and x.test.comparators[0].value is None
                     and any(isinstance(st, ast.Assign) and _is_clock(st.value) and any(isinstance(t, ast.Name) and t.id == x.test.left.id for t in st.targets) for st in x.body)]
            for f in fills:
                v = f.test.left.id
                for t in [x for x in walk_no_defs(fn.node) if isinstance(x, ast.Try)]:
                    if not any(isinstance(st, ast.Assign) and any(isinstance(tt, ast.Name) and tt.id == v for tt in st.targets) for st in t.body):
                        continue
                    n_try += 1
                    resets = [st for h in t.handlers for st in h.body if isinstance(st, ast.Assign) and any(isinstance(tt, ast.Name) and tt.id == v for tt in st.targets)
                              and isinstance(st.value, ast.Constant) and st.value.value is None]
                    silent = [h for h in t.handlers if not any(isinstance(st, (ast.Assign, ast.Raise, ast.Return)) for st in h.body)]
                    ctx.check(not resets and not silent, "C01.CLOCK", ctx.okey(f"{fn.qual}/unreadable-clock-is-not-the-wall-clock"), fn.loc(t),
                              f"a clock text that cannot be parsed leaves `{v}` at a fixed instant", f"when the given clock text cannot be parsed the handler leaves `{v}` None and the `{v} is None` "
                              "fill-in then takes datetime.now(): the logical clock silently becomes the wall clock")
    ctx.floor("C01.CLOCK", "try-wrapped clock parses followed by a wall-clock fill-in", n_try, 1)
    # (c) the turn's logical clock has two spellings - ctx.now (ISO text) and ctx.now_ms (the console's --now-ms, run_smoke_turn:
    # now=None, now_ms=<int>); the orchestrator treats either as the clock.  A wall-clock reading that stands in for the logical
    # time (it sits behind a test that reads one of the spellings) must sit behind BOTH: with only ctx.now consulted, a turn
    # clocked in milliseconds takes its recency window and score from the calendar day of the replay.
    spellings = {"now", "now_ms"}
    n_fill = 0
    for mn in CLOCK_PARSE_MODULES:
        if mn not in ctx.prog.modules:
            continue
        for fn in ctx.prog.module(mn).funcs.values():
            ps = set(fn.params)
            if not ps:
                continue
            walls = [x for x in walk_no_defs(fn.node) if _is_clock(x)]
            if not walls:
                continue
            cfg, rd = ctx.cfg(fn), ctx.rd(fn)
            for w in walls:
                at = cfg.node_containing(w)
                if not at:
                    continue
                tests = [(t, b) for t, _pol, b in cfg.guards(at[0])]
                # inline form: <value> if <test> else <wall clock>
                for x in walk_no_defs(at[0].ast) if at[0].ast is not None else []:
                    if isinstance(x, ast.IfExp) and any(y is w for br in (x.body, x.orelse) for y in ast.walk(br)):
                        tests.append((x.test, at[0]))
                if not tests:
                    continue
                read = set()
                for t, b in tests:
                    cn = b.pred[0][0] if (b is not at[0] and b.pred) else b
                    sl = rd.slice([t], cn)
                    for y in sl.nodes():
                        if isinstance(y, ast.Call) and dotted(y.func) == "getattr" and len(y.args) >= 2 and isinstance(y.args[0], ast.Name) and y.args[0].id in ps and const_str(y.args[1]):
                            read.add(const_str(y.args[1]))
                        elif isinstance(y, ast.Attribute) and isinstance(y.value, ast.Name) and y.value.id in ps:
                            read.add(y.attr)
                if not (read & spellings):
                    continue
                n_fill += 1
                missing = sorted(spellings - read)
                ctx.check(not missing, "C01.CLOCK", ctx.okey(f"{fn.qual}/wall-clock-only-without-any-logical-clock"), fn.loc(w),
                          f"`{src(w)[:40]}` is reached only when neither ctx.now nor ctx.now_ms supplies the time",
                          f"`{src(w)[:40]}` stands in for the turn's time after consulting ctx.{sorted(read & spellings)[0]} only - ctx.{missing[0] if missing else ''} is never looked at: a turn whose logical "
                          "clock is given in that spelling (the console's --now-ms, run_smoke_turn) takes the reference time of the recency window and score from the wall clock, and two replays on "
                          "different days log different k_returned / score_stats")
    ctx.floor("C01.CLOCK", "wall-clock stand-ins for the logical time", n_fill, 1)


def rule_file_times(ctx) -> None:
    """file modification times are wall-clock readings that are not part of a file's content: a copy, a checkout or a stepped
    clock changes them while names and bytes stay the same.  A choice made by them on the boot path (which snapshot a fresh
    state is restored from) makes two replays from byte-identical snapshot directories diverge."""
    n = 0
    for mn in ("clematis.engine.snapshot", "clematis.engine.apply", "clematis.engine.orchestrator.core"):
        if mn not in ctx.prog.modules:
            continue
        for fn in ctx.prog.module(mn).funcs.values():
            for x in ast.walk(fn.node):
                hit = (isinstance(x, ast.Call) and call_tail(x) in ("getmtime", "getctime", "getatime")) or (isinstance(x, ast.Attribute) and x.attr in ("st_mtime", "st_ctime", "st_mtime_ns", "st_atime"))
                if not hit:
                    continue
                n += 1
                ctx.violation("C01.CTRL", ctx.okey(f"{fn.qual}/choice-by-file-mtime"), fn.loc(x),
                              f"`{src(x)[:40]}` ranks files by modification time: an agent without a snapshot of its own boots from whichever state_*.json was touched last, so two replays from "
                              "snapshot directories with identical names and bytes but different mtimes start from different versions and graphs (apply.jsonl version_etag and the snapshot bodies differ)")
    probe = ast.parse("import os\ndef _p(ps):\n    return sorted(ps, key=lambda p: os.path.getmtime(p))\n")
    ctx.floor("C01.CTRL", "positive control: getmtime recognised", sum(1 for x in ast.walk(probe) if isinstance(x, ast.Call) and call_tail(x) == "getmtime"), 1)


def rule_process_state(ctx) -> None:
    """a fresh process and a warm one (earlier turns, another engine state) must write the same bytes: no function on the
    canonical path keeps results in an object that outlives the call by accident - a mutable default argument the body edits
    or hands out, or a class-level container edited through self (one object for every instance).  Module-level caches are
    declared state and are judged by C05.ISO / the hit-vs-fresh rule above."""
    from .. import hazards
    mods = [m for m in sorted(set(ORDER_MODULES + TIME_MODULES)) if m in ctx.prog.modules]
    n_fn = 0
    n_bad = 0
    for mn in mods:
        m = ctx.prog.module(mn)
        for fn in m.funcs.values():
            n_fn += 1
            for pname, d, c in hazards.mutable_defaults(ctx, fn):
                n_bad += 1
                ctx.violation("C01.HIST", ctx.okey(f"{fn.qual}/default-argument-keeps-state"), fn.loc(c),
                              f"the default of `{pname}` (`{src(d)[:30]}`) is created once when the function is defined, and `{src(c)[:50]}` edits it in place or hands it out: what one turn "
                              "left in it is seen by every later call in the process, so a warm process and a fresh one replay the same turns differently")
        for cls, attr, d, fn, c in hazards.shared_class_state(ctx, mn):
            n_bad += 1
            ctx.violation("C01.HIST", ctx.okey(f"{fn.qual}/class-attribute-keeps-state"), fn.loc(c),
                          f"`{cls}.{attr}` is a container bound at class level (`{src(d)[:40]}`) and `{src(c)[:50]}` edits it through the instance: every instance - every engine state "
                          "in the process - shares it, so results depend on what ran before")
        for fn, x, how in hazards.shallow_template_copies(ctx, mn):
            n_bad += 1
            ctx.violation("C01.HIST", ctx.okey(f"{fn.qual}/template-shared-by-shallow-copy"), fn.loc(x),
                          f"module-level template {how}: it holds lists / dicts of its own, which every receiver then shares - what one engine state appends (merge / split records, tallies) "
                          "shows up in the state and snapshots of every later one in the process, so a warm process and a fresh one write different bodies")
    # object addresses: id(x) differs between a fresh and a warm process and is handed to the next object once x is dropped -
    # as a key, a sort key or a logged value it makes the artefacts depend on what the process did before
    def _addr_calls(node):
        return [x for x in ast.walk(node) if isinstance(x, ast.Call) and isinstance(x.func, ast.Name) and x.func.id == "id" and len(x.args) == 1 and not x.keywords]
    n_addr = 0
    for mn in mods:
        for fn in ctx.prog.module(mn).funcs.values():
            if any(p == "id" for p in fn.params):
                continue
            for x in _addr_calls(fn.node):
                n_addr += 1
                ctx.violation("C01.HIST", ctx.okey(f"{fn.qual}/object-address-as-value"), fn.loc(x),
                              f"`{src(x)[:40]}` takes an object's address on the canonical path: it differs from process to process and is reused after the object is dropped, so a key / order / "
                              "record built from it makes a warm process answer differently from a fresh one")
    probe = ast.parse("def _p(index):\n    return (getattr(index, '_uid', id(index)), 1)\n")
    ctx.floor("C01.HIST", "positive control: id(obj) recognised in a synthetic key builder", len(_addr_calls(probe)), 1)
    ctx.holds("C01.HIST", "canonical-path/no-object-addresses", "clematis/", f"{n_addr} id(obj) call(s) in {len(mods)} canonical-path modules")
    ctx.floor("C01.HIST", "functions on the canonical path scanned for state that outlives a call", n_fn, 150)
    ctx.holds("C01.HIST", "canonical-path/no-accidental-process-state", "clematis/engine",
              f"{n_fn} functions of {len(mods)} modules: {n_bad} mutable default arguments / class-level containers edited in place / nested module templates handed out by shallow copy; " + hazards.controls(ctx, "clematis.engine.health", ["state", "template"]))


def rule_process_global_cache_keyed_by_its_inputs(ctx) -> None:
    """"the outcome does not depend on the process": the T1 result cache is process-global and content-keyed, so what a turn gets
    from it was possibly computed by ANOTHER run in the same process.  That is reproducible only if the key names everything the
    cached propagation depends on (C05's free-variable containment for the T1 key, run here as a C01 obligation): a knob that
    steers the propagation but is missing from the key (a new cutoff `t1.epsilon`) makes a default-config replay in a warm
    process return what an earlier run computed under another value."""
    from .c05 import rule_key_t1
    before = len(ctx.results)
    rule_key_t1(ctx)
    for r in ctx.results[before:]:
        if r.rule == "C05.KEY":
            r.rule = "C01.HIST"
            r.key = "t1-cache-key:" + r.key


def rule_logical_clock_zero(ctx) -> None:
    """the logical clock may be given in epoch milliseconds (ctx.now_ms) and 0 is a clock value - it is the one the smoke /
    identity runs use.  A reader that tests the value by truthiness takes 0 for 'no clock' and falls through to the
    wall-clock fallback: the same logical inputs then give other retrieval windows on other days."""
    from ..zero import ZeroIsValue

    def source(e: ast.AST) -> bool:
        if isinstance(e, ast.Call) and dotted(e.func) == "getattr" and len(e.args) >= 2 and const_str(e.args[1]) == "now_ms":
            return True
        return isinstance(e, ast.Attribute) and e.attr == "now_ms" and isinstance(e.ctx, ast.Load)

    n_r = 0
    for mn in ("clematis.engine.stages.t2.core", "clematis.engine.orchestrator.core", "clematis.engine.stages.t3.reflect", "clematis.engine.orchestrator.reflection"):
        if mn not in ctx.prog.modules:
            continue
        for fn in ctx.prog.module(mn).funcs.values():
            if not any(source(x) for x in walk_no_defs(fn.node)):
                continue
            n_r += 1
            ctx.analysed_funcs.add(fn.qual)
            z = ZeroIsValue(ctx, fn, source)
            bad = [b for b in z.conflations(positivity=False) if "callable" not in b[1]]
            ctx.check(not bad, "C01.CLOCK", f"{fn.qual}/logical-clock-zero-is-a-clock", fn.loc(bad[0][0]) if bad else fn.loc(),
                      "ctx.now_ms is told apart from 'no clock' by `is None` / a type test, never by truthiness",
                      (f"the logical clock ctx.now_ms is tested by {bad[0][2]} (`{bad[0][1][:60]}`): a clock of exactly 0 (the identity runs' value) counts as 'no clock' and the "
                       "reader falls back to the wall clock") if bad else "")
    ctx.floor("C01.CLOCK", "readers of ctx.now_ms", n_r, 3)


def run(ctx) -> None:
    _REPORTED.clear()
    rule_logical_clock_zero(ctx)
    rule_process_global_cache_keyed_by_its_inputs(ctx)
    rule_process_state(ctx)
    rule_cache_clock(ctx)
    rule_clock_fallback(ctx)
    rule_file_times(ctx)
    rule_time(ctx)
    rule_host_tz(ctx)
    rule_hist(ctx)
    rule_rng(ctx)
    rule_order(ctx)
