"""C11 Retrieval honours scope, thresholds, caps and documented ranking."""
from __future__ import annotations

import ast
from typing import Dict, List, Optional, Set, Tuple

from ..model import AnalysisError, Func, const_str, dotted, kwarg, src, walk_no_defs
from ..dataflow import node_exprs
from ..util import call_tail, enclosing, find_calls, no_exc, node_calls

EXPLANATION = (
    "C11 decided statically: (OWNER) in every search_tiered implementation (in-memory index, its shard view, the LanceDB "
    "index and its shard view - analysable although not runnable offline) every list that is ranked derives only from "
    "records that passed the owner test; in t2_semantic every retrieval path hands the index the owner computed by "
    "owner_for_query (agent -> ctx.agent_id); (THR) the similarity test dominates every append to a scored list; (K) ranked "
    "lists are cut to k, the tier walk stops at k_retrieval; (DISTINCT) the seen-id test dominates each append to the result; "
    "(TIER) the recency window feeds only the exact tier and the cluster pool comes from the top-m cluster scores; (RANK) the "
    "list handed to the rerank layers is, on every path, the projection of a list sorted by (-combined, id) with combined = "
    "alpha*cos + beta*recency + gamma*importance from t2.ranking; (PERM) rerank layers assign only lists whose elements are "
    "looked up in an id->ref map of their input (or the hybrid reranker's reordered copy), none constructs an episode; "
    "(RES) residual nudges iterate the slice-capped hits, match labels from the label map of existing nodes, de-duplicate "
    "and stop at the residual cap. Not decided: bijectivity of the rerank permutation, score numerics, zero vectors."
)
RULES = {
    "C11.OWNER": "taint (raw episode storage -> ranked lists) with the owner filter as sanitiser, over 4 sibling implementations; owner argument provenance in t2_semantic",
    "C11.THR": "guard facts of appends to scored lists",
    "C11.K": "slice bounds of ranked lists; must-pass of the k test after each append in the tier walk",
    "C11.DISTINCT": "guard facts + pairing of the seen-id set",
    "C11.TIER": "guard facts of the recency filter; provenance of the cluster pool",
    "C11.RANK": "must-pass of the total-key sort before the projection handed to the rerank layers; factor atoms of the combined score",
    "C11.PERM": "provenance of every list assigned to the result inside the rerank layers; no episode constructors there",
    "C11.RES": "loop source, label-map provenance, guard facts and cap test of residual nudges",
}

IDX = "clematis.memory.index"
LANCE = "clematis.memory.lance_index"
T2 = "clematis.engine.stages.t2.core:t2_semantic"
QUAL = "clematis.engine.stages.t2.quality:apply_quality"


class OwnerClean:
    """Decides whether a list-valued name holds only records that passed the owner test."""

    def __init__(self, ctx, fn: Func, raw_params: Set[str]):
        self.ctx = ctx
        self.fn = fn
        self.cfg = ctx.cfg(fn)
        self.rd = ctx.rd(fn)
        self.raw_params = raw_params
        self.memo: Dict[Tuple[int, int], bool] = {}
        self.why: List[str] = []

    def _owner_fact(self, node) -> bool:
        for t, p in self.cfg.facts(node):
            if "owner" not in t:
                continue
            if (not p) and "!=" in t:
                return True
            if p and "==" in t and "!=" not in t:
                return True
            if p and t.endswith("is None") and "owner" in t.split(" ")[0]:
                return True  # owner scope 'any': no filtering requested
        return False

    def expr_clean(self, e: ast.AST, at, depth: int = 0) -> bool:
        if depth > 12:
            return True
        if isinstance(e, ast.Name):
            return self.name_clean(e.id, at, depth + 1)
        if isinstance(e, (ast.List, ast.Tuple, ast.Dict, ast.Set)) and not getattr(e, "elts", getattr(e, "keys", [])):
            return True
        if isinstance(e, ast.Call):
            t = call_tail(e)
            if t == "_filter_owner":
                return True
            if t in ("_filter_recent", "_filter_quarters", "list", "sorted", "tuple", "reversed"):
                return bool(e.args) and self.expr_clean(e.args[0], at, depth + 1)
            if isinstance(e.func, ast.Attribute) and t in ("get", "setdefault", "values", "items", "copy"):
                return self.expr_clean(e.func.value, at, depth + 1)
            if t in ("dict",):
                return True  # dict(r): a copy of one record; the record's own cleanliness is decided where it is appended
            self.why.append(f"`{src(e)[:40]}` (unknown producer)")
            return False
        if isinstance(e, ast.Subscript):
            return self.expr_clean(e.value, at, depth + 1)
        if isinstance(e, (ast.ListComp, ast.GeneratorExp, ast.SetComp)):
            g = e.generators[0]
            if any("owner" in src(c) and ("==" in src(c)) for c in g.ifs):
                return True
            return self.expr_clean(g.iter, at, depth + 1)
        if isinstance(e, ast.Attribute):
            d = dotted(e) or ""
            if d.endswith("._eps") or d.endswith("._episodes") or d.endswith("_rows"):
                self.why.append(f"raw storage `{d}`")
                return False
            return self.expr_clean(e.value, at, depth + 1)
        if isinstance(e, ast.BoolOp):
            return all(self.expr_clean(v, at, depth + 1) for v in e.values)
        if isinstance(e, ast.IfExp):
            t = src(e.test)
            if t in ("owner is None", "not owner"):
                return self.expr_clean(e.orelse, at, depth + 1)  # no owner requested: nothing to filter on the `if` side
            if t in ("owner is not None", "owner"):
                return self.expr_clean(e.body, at, depth + 1)
            return self.expr_clean(e.body, at, depth + 1) and self.expr_clean(e.orelse, at, depth + 1)
        return True

    def name_clean(self, name: str, at, depth: int = 0) -> bool:
        key = (hash(name), at.id)
        if key in self.memo:
            return self.memo[key]
        self.memo[key] = True  # cycle: assume clean
        ok = True
        ds = self.rd.reaching(name, at)
        if not ds:
            ok = name not in self.raw_params
        for d in ds:
            if d.kind == "param":
                if d.name in self.raw_params:
                    self.why.append(f"parameter `{d.name}` (unfiltered episodes)")
                    ok = False
            elif d.kind in ("assign", "walrus"):
                if not self.expr_clean(d.value, d.node, depth + 1):
                    ok = False
            elif d.kind in ("for", "unpack"):
                if not self.expr_clean(d.value, d.node, depth + 1):
                    ok = False
            elif d.kind == "mutate" and isinstance(d.target, ast.Call):
                meth = d.target.func.attr
                if meth in ("append", "add", "insert"):
                    if self._owner_fact(d.node):
                        continue
                    arg = d.target.args[-1] if d.target.args else None
                    if arg is not None and not self.expr_clean(arg, d.node, depth + 1):
                        ok = False
                elif meth in ("extend", "update"):
                    arg = d.target.args[0] if d.target.args else None
                    if arg is not None and not self.expr_clean(arg, d.node, depth + 1):
                        ok = False
            elif d.kind == "mutate":
                # X[k] = v
                if isinstance(d.value, ast.Tuple) and d.value.elts and not self.expr_clean(d.value.elts[-1], d.node, depth + 1):
                    ok = False
        self.memo[key] = ok
        return ok


def _ranked_sources(ctx, fn: Func) -> List[Tuple[object, ast.AST, str]]:
    """(node, expression, description) of every list whose elements are scored/ranked in fn."""
    cfg = ctx.cfg(fn)
    out = []
    for n in cfg.nodes:
        for c in node_calls(n):
            if call_tail(c) == "_rank_by_cosine" and c.args:
                out.append((n, c.args[0], f"_rank_by_cosine({src(c.args[0])})"))
        if n.kind == "iter":
            body_calls = [x for st in n.ast.body for x in ast.walk(st) if isinstance(x, ast.Call)]
            if any(call_tail(x) == "append" and src(x.func.value) in ("scored", "results") for x in body_calls):
                out.append((n, n.ast.iter, f"scoring loop over {src(n.ast.iter)}"))
    return out


def rule_owner(ctx) -> None:
    impls = [
        (IDX + ":InMemoryIndex._search_with_episodes", {"episodes"}),
        (LANCE + ":LanceIndex.search_tiered", set()),
    ]
    shard = [f for f in ctx.prog.all_funcs(LANCE + ":") if f.name == "search_tiered" and f.qual != LANCE + ":LanceIndex.search_tiered"]
    impls += [(f.qual, set()) for f in shard]
    n_src = 0
    for q, raw in impls:
        fn = ctx.func(q)
        oc = OwnerClean(ctx, fn, raw)
        for n, e, what in _ranked_sources(ctx, fn):
            n_src += 1
            oc.why = []
            ok = oc.expr_clean(e, n)
            ctx.check(ok, "C11.OWNER", f"{fn.qual}/ranked-from-owner-filtered:{what[:40]}", fn.loc(e),
                      f"{what}: every record comes from the owner-filtered list",
                      f"{what} ranks records that never passed the owner filter ({'; '.join(oc.why[:2])}): agent scope can return another owner's memories")
    ctx.floor("C11.OWNER", "ranked-list sources across search_tiered implementations", n_src, 4)
    # shard view delegates to the parent's filtered search
    sv = ctx.func(IDX + ":InMemoryIndex._ShardView.search_tiered")
    ok = any(isinstance(x, ast.Call) and call_tail(x) == "_search_with_episodes" and len(x.args) >= 2 and src(x.args[1]) == "owner" for x in walk_no_defs(sv.node))
    ctx.check(ok, "C11.OWNER", f"{sv.qual}/delegates-with-owner", sv.loc(), "the shard view delegates to _search_with_episodes with the caller's owner", "the shard view does not forward the owner")
    fo = ctx.func(IDX + ":InMemoryIndex._filter_owner")
    okf = any(isinstance(x, ast.Compare) and isinstance(x.ops[0], ast.Eq) and "owner" in src(x.left) and src(x.comparators[0]) == "owner" for x in walk_no_defs(fo.node))
    ctx.check(okf, "C11.OWNER", f"{fo.qual}/equality-filter", fo.loc(), "_filter_owner keeps records with e['owner'] == owner (or all when owner is None)", "_filter_owner is not an equality filter on the owner field")
    # t2_semantic: the owner passed to the index
    t2 = ctx.func(T2)
    cfg = ctx.cfg(t2)
    rd = ctx.rd(t2)
    searches = [(n, c) for n in cfg.nodes for c in node_calls(n) if call_tail(c) == "search_tiered"]
    ctx.floor("C11.OWNER", "index.search_tiered call sites in t2_semantic", len(searches), 2)
    for n, c in searches:
        ov = kwarg(c, "owner") or (c.args[0] if c.args else None)
        ok = False
        if isinstance(ov, ast.Name):
            ds = [d for d in rd.reaching(ov.id, n) if d.kind != "mutate"]
            ok = bool(ds) and all(d.value is not None and isinstance(d.value, ast.Call) and call_tail(d.value) == "_owner_for_query" for d in ds)
        ctx.check(ok, "C11.OWNER", ctx.okey(f"{t2.qual}/owner-argument"), t2.loc(c), "search_tiered receives owner = owner_for_query(ctx, cfg_t2)",
                  f"search_tiered is called with owner={src(ov) if ov is not None else None}, not the configured owner scope")
    ofq = ctx.func("clematis.engine.stages.t2.helpers:owner_for_query")
    ocfg = ctx.cfg(ofq)
    okm = False
    for n in ocfg.nodes:
        if n.kind == "stmt" and isinstance(n.ast, ast.Return) and n.ast.value is not None and "agent_id" in src(ctx.rd(ofq).inline(n.ast.value, n)):
            okm = any(p and "== 'agent'" in t for t, p in ocfg.facts(n))
    ctx.check(okm, "C11.OWNER", f"{ofq.qual}/agent-maps-to-agent-id", ofq.loc(), "owner_scope 'agent' maps to ctx.agent_id", "owner_scope 'agent' does not map to ctx.agent_id")
    # None is the index's "no owner filter": under agent (or world) scope owner_for_query never returns None - a ctx without an
    # agent id must not widen the query to every owner
    for n in ocfg.nodes:
        if n.kind == "stmt" and isinstance(n.ast, ast.Return) and n in ocfg.reachable_from_entry() and any(p and ("== 'agent'" in t or "== 'world'" in t) for t, p in ocfg.facts(n)):
            v = n.ast.value
            rdq = ctx.rd(ofq)

            def may_be_none(e, at, depth=0) -> bool:
                if e is None or (isinstance(e, ast.Constant) and e.value is None):
                    return True
                if isinstance(e, ast.Constant):
                    return False
                if isinstance(e, ast.Call) and dotted(e.func) == "getattr":
                    return len(e.args) < 3 or may_be_none(e.args[2], at, depth + 1)
                if isinstance(e, ast.Call) and dotted(e.func) in ("str", "repr", "int"):
                    return False
                if isinstance(e, ast.IfExp):
                    t = src(e.test)
                    # `x if x is not None else y`
                    if isinstance(e.test, ast.Compare) and isinstance(e.test.ops[0], ast.IsNot) and isinstance(e.test.comparators[0], ast.Constant) and e.test.comparators[0].value is None and src(e.test.left) == src(e.body):
                        return may_be_none(e.orelse, at, depth + 1)
                    return may_be_none(e.body, at, depth + 1) or may_be_none(e.orelse, at, depth + 1)
                if isinstance(e, ast.BoolOp) and isinstance(e.op, ast.Or):
                    return may_be_none(e.values[-1], at, depth + 1)
                if isinstance(e, ast.Name) and depth < 4:
                    if not rdq.is_local(e.id):
                        return False  # a module-level sentinel
                    ds = [d for d in rdq.reaching(e.id, at) if d.kind != "mutate"]
                    return not ds or any(d.value is None or may_be_none(d.value, d.node, depth + 1) for d in ds)
                return True

            ctx.check(not may_be_none(v, n), "C11.OWNER", ctx.okey(f"{ofq.qual}/scoped-owner-never-none"), ofq.loc(n.ast),
                      "under agent / world scope the owner handed to the index is never None",
                      f"under agent scope owner_for_query can return None (`{src(v)[:50] if v is not None else 'None'}` for a ctx without agent_id), which the index reads as 'no owner filter': the "
                      "agent-scoped query returns every owner's episodes")
    # the embed-store reader path
    reader_nodes = [n for n in cfg.nodes if n.kind == "cond" and src(n.ast) == "use_reader"]
    for rn in reader_nodes:
        tb = [t for t, l in rn.succ if l == "T"][0]
        appends = [m for m in cfg.nodes if cfg.dominates(tb, m) and any(call_tail(c) == "append" and src(c.func.value) == "retrieved" for c in node_calls(m))]
        if not appends:
            continue
        uses_owner = all(any("owner" in t and (((not p) and ("!=" in t or "not (" in t or "is not None and not" in t)) or (p and "==" in t and "!=" not in t)) for t, p in cfg.facts(m))
                         for m in appends)
        ctx.check(uses_owner, "C11.OWNER", f"{t2.qual}/embed-store-reader-path", t2.loc(appends[0].ast),
                  "the embed-store reader path filters by owner", "the embed-store reader path (perf.t2.reader.partitions) fills `retrieved` from the raw embed store with no owner filter at all: "
                  "with owner_scope=agent it returns other owners' episodes")


def _thr_names(fn: Func) -> set:
    """names holding the similarity threshold in fn: the parameter, and locals read from hints['sim_threshold'] (or a float() of them)"""
    out = {p for p in fn.params if p == "sim_threshold"}
    for _ in range(2):
        for x in walk_no_defs(fn.node):
            if isinstance(x, ast.AnnAssign) and x.value is not None and isinstance(x.target, ast.Name):
                x = ast.Assign(targets=[x.target], value=x.value)
            if isinstance(x, ast.Assign) and len(x.targets) == 1 and isinstance(x.targets[0], ast.Name):
                v = x.value
                while isinstance(v, ast.Call) and dotted(v.func) == "float" and v.args:
                    v = v.args[0]
                if isinstance(v, ast.IfExp):
                    v = v.body
                if isinstance(v, ast.Call) and call_tail(v) == "get" and v.args and const_str(v.args[0]) == "sim_threshold":
                    out.add(x.targets[0].id)
                if isinstance(v, ast.Subscript) and const_str(v.slice) == "sim_threshold":
                    out.add(x.targets[0].id)
                if isinstance(v, ast.Name) and v.id in out:
                    out.add(x.targets[0].id)
    return out


def admits_at_or_above(test: ast.AST, pol: bool, thr: set) -> str:
    """does `test` having truth value `pol` imply score >= threshold?  'yes' (also for a NaN score: a positive >= / > test),
    'unless-nan' (only the negation of < / <= is known - a NaN score passes), 'vacuous' (no threshold configured), 'no'."""
    def has_thr(e):
        return any(isinstance(x, ast.Name) and x.id in thr for x in ast.walk(e))

    if isinstance(test, ast.UnaryOp) and isinstance(test.op, ast.Not):
        return admits_at_or_above(test.operand, not pol, thr)
    if isinstance(test, ast.BoolOp):
        conj = (isinstance(test.op, ast.And) and pol) or (isinstance(test.op, ast.Or) and not pol)
        rs = [admits_at_or_above(v, pol, thr) for v in test.values]
        if conj:  # all operands have truth value pol: one of them suffices
            for want in ("yes", "unless-nan", "vacuous"):
                if want in rs:
                    return want
            return "no"
        # at least one operand has truth value pol: every alternative must do
        if all(r in ("yes", "vacuous") for r in rs) and "yes" in rs:
            return "yes"
        if all(r in ("yes", "vacuous", "unless-nan") for r in rs) and any(r != "vacuous" for r in rs):
            return "unless-nan"
        return "no"
    if isinstance(test, ast.Compare) and len(test.ops) == 1:
        l, op, r = test.left, test.ops[0], test.comparators[0]
        if isinstance(op, (ast.Is, ast.IsNot)) and isinstance(r, ast.Constant) and r.value is None and has_thr(l):
            # `thr is None` true / `thr is not None` false: nothing to meet
            return "vacuous" if (isinstance(op, ast.Is) == pol) else "no"
        if has_thr(r) and not has_thr(l):
            if isinstance(op, (ast.GtE, ast.Gt)):
                return "yes" if pol else "no"
            if isinstance(op, (ast.Lt,)):
                return "unless-nan" if not pol else "no"
        if has_thr(l) and not has_thr(r):
            if isinstance(op, (ast.LtE, ast.Lt)):
                return "yes" if pol else "no"
            if isinstance(op, (ast.Gt,)):
                return "unless-nan" if not pol else "no"
    return "no"


def _finite_guard(test: ast.AST, pol: bool) -> bool:
    """isfinite(score) / not isnan(score) / score == score on the way"""
    if isinstance(test, ast.UnaryOp) and isinstance(test.op, ast.Not):
        return _finite_guard(test.operand, not pol)
    if isinstance(test, ast.BoolOp) and ((isinstance(test.op, ast.And) and pol) or (isinstance(test.op, ast.Or) and not pol)):
        return any(_finite_guard(v, pol) for v in test.values)
    if isinstance(test, ast.Call):
        t = call_tail(test)
        return (t == "isfinite" and pol) or (t == "isnan" and not pol)
    if isinstance(test, ast.Compare) and len(test.ops) == 1 and src(test.left) == src(test.comparators[0]):
        return (isinstance(test.ops[0], ast.Eq) and pol) or (isinstance(test.ops[0], ast.NotEq) and not pol)
    return False


def rule_thr(ctx) -> None:
    """an episode enters a scored list only on a path where `score >= threshold` is known to be TRUE.  The negated form
    (`if s < t: continue`) is not the same test: a NaN cosine (stored vector with a non-finite component) fails `<` as well, is
    returned below the threshold and breaks the total order of the (-score, id) sort that picks the top k."""
    sites = []
    fns = [ctx.func(IDX + ":InMemoryIndex._rank_by_cosine"), ctx.func(LANCE + ":LanceIndex.search_tiered")]
    fns += [f for f in ctx.prog.all_funcs(LANCE + ":") if f.name == "search_tiered" and f.qual != LANCE + ":LanceIndex.search_tiered"]
    for fn in fns:
        cfg = ctx.cfg(fn)
        rd = ctx.rd(fn)
        # role: the scored list = the list that is sorted and sliced for the return value
        sorted_lists = {src(c.func.value) for n in cfg.nodes for c in node_calls(n) if call_tail(c) == "sort" and isinstance(c.func.value, ast.Name)}
        knames = {p for p in fn.params if p == "k"}
        for _ in range(2):
            for x in walk_no_defs(fn.node):
                if isinstance(x, ast.Assign) and len(x.targets) == 1 and isinstance(x.targets[0], ast.Name) and any(isinstance(y, ast.Name) and y.id in knames for y in ast.walk(x.value)):
                    knames.add(x.targets[0].id)
        # ... and cut to k (the cluster-centroid list is sorted too, but cut to clusters_top_m and has no threshold)
        def cut_to_k(L: str) -> bool:
            return any(isinstance(x, ast.Subscript) and src(x.value) == L and isinstance(x.slice, ast.Slice) and x.slice.upper is not None
                       and any(isinstance(y, ast.Name) and y.id in knames for y in ast.walk(x.slice.upper)) for x in walk_no_defs(fn.node))

        # ... directly, or through a list filled while walking it (the de-duplicated copy)
        walked_into = {L: {src(c.func.value) for lp in walk_no_defs(fn.node) if isinstance(lp, ast.For) and src(lp.iter) == L
                           for st in lp.body for c in ast.walk(st) if isinstance(c, ast.Call) and call_tail(c) == "append" and isinstance(c.func.value, ast.Name)}
                       for L in sorted_lists}
        sorted_lists = {L for L in sorted_lists if cut_to_k(L) or any(cut_to_k(D) for D in walked_into.get(L, ()))}
        for n in cfg.nodes:
            for c in node_calls(n):
                if call_tail(c) == "append" and src(c.func.value) in sorted_lists and c.args and isinstance(c.args[0], ast.Tuple):
                    sites.append((fn, n, c))
    ctx.floor("C11.THR", "appends to scored lists", len(sites), 3)
    # the embed-store reader path ranks inside t2_semantic itself: its appends to the result are sites of the same rule
    t2 = ctx.func(T2)
    t2cfg = ctx.cfg(t2)
    rets = {kw.value.id for x in walk_no_defs(t2.node) if isinstance(x, ast.Call) and call_tail(x) == "T2Result" for kw in x.keywords if kw.arg == "retrieved" and isinstance(kw.value, ast.Name)} or {"retrieved"}
    reader_flags = {d.name for d in ctx.rd(t2).all_defs if d.value is not None and any(isinstance(y, ast.Name) and "reader" in y.id for y in ast.walk(d.value)) and isinstance(d.value, ast.Call) and dotted(d.value.func) == "bool"}
    n_reader = 0
    for n in t2cfg.nodes:
        for c in node_calls(n):
            if call_tail(c) == "append" and src(c.func.value) in rets and any(p and t in reader_flags for t, p in t2cfg.facts(n)):
                n_reader += 1
                sites.append((t2, n, c))
    ctx.floor("C11.THR", "appends to the result on the embed-store reader path", n_reader, 1)
    for fn, n, c in sites:
        thr = _thr_names(fn)
        if not thr:
            raise AnalysisError(f"anchor-vanished: no similarity-threshold variable in {fn.qual}")
        gs = ctx.cfg(fn).guards(n)
        verdicts = [admits_at_or_above(t, p, thr) for t, p, _ in gs]
        finite = any(_finite_guard(t, p) for t, p, _ in gs)
        key = f"{fn.qual}/threshold-dominates-append"
        if "yes" in verdicts or ("unless-nan" in verdicts and finite):
            ctx.holds("C11.THR", key, fn.loc(c), "a record is scored into the result only where `score >= sim_threshold` is true (a NaN score is not admitted)")
        elif "unless-nan" in verdicts:
            ctx.violation("C11.THR", key, fn.loc(c), "a record is dropped where `score < sim_threshold`, which is not the same as keeping it where `score >= sim_threshold`: a NaN cosine "
                          "(stored vector with a non-finite component) fails both, so the episode is returned below the threshold and the (-score, id) sort that picks the top k is no longer a total order")
        else:
            ctx.violation("C11.THR", key, fn.loc(c), "a record is appended to the scored list without the similarity-threshold test")


def rule_k(ctx) -> None:
    rk = ctx.func(IDX + ":InMemoryIndex._rank_by_cosine")
    rets = [x for x in walk_no_defs(rk.node) if isinstance(x, ast.Return) and x.value is not None]
    ok = bool(rets) and all(isinstance(r.value, ast.Subscript) and isinstance(r.value.slice, ast.Slice) and r.value.slice.upper is not None and src(r.value.slice.upper) == "k" for r in rets)
    ctx.check(ok, "C11.K", f"{rk.qual}/cut-to-k", rk.loc(), "_rank_by_cosine returns scored[:k]", "_rank_by_cosine does not cut its result to k")
    srt = [x for x in walk_no_defs(rk.node) if isinstance(x, ast.Call) and call_tail(x) == "sort" and isinstance(kwarg(x, "key"), ast.Lambda)]
    parts = [src(e) for e in srt[0].keywords[0].value.body.elts] if srt and isinstance(srt[0].keywords[0].value.body, ast.Tuple) else []
    ctx.check(len(parts) == 2 and parts[0].startswith("-") and "id" in parts[1], "C11.K", f"{rk.qual}/sort-key", rk.loc(), f"scored list sorted by ({', '.join(parts)})",
              f"index ranking key is {parts}, not (-score, id)")
    t2 = ctx.func(T2)
    cfg = ctx.cfg(t2)
    apps = [n for n in cfg.nodes if any(call_tail(c) == "append" and src(c.func.value) == "retrieved" for c in node_calls(n)) and cfg.in_loop(n)]
    ctx.floor("C11.K", "appends to `retrieved` inside loops", len(apps), 3)
    ktests = [n for n in cfg.nodes if n.kind == "cond" and "len(retrieved) >= k_retrieval" in src(n.ast)]
    for a in apps:
        heads = [h for h in cfg.nodes if h.kind == "iter"]
        # loops over an already k-bounded list are fine (slice [:k_retrieval] or the k-stopping merge)
        loops = [st for st, part in enclosing(ctx.prog, t2, a.ast) if isinstance(st, ast.For) and part == "body"]
        bounded = False
        if loops:
            it = loops[0].iter
            if isinstance(it, ast.Subscript) and isinstance(it.slice, ast.Slice) and it.slice.upper is not None and "k_retrieval" in src(it.slice.upper):
                bounded = True
            if isinstance(it, ast.Name) and it.id == "merged":
                bounded = True  # merge_tier_hits_across_shards_dict stops at k (C09.SIB-T2)
        # two idioms: test-after-append (break before the next iteration) or test-before-append (the k test dominates the append)
        pre = ("len(retrieved) >= k_retrieval", False) in cfg.facts(a) or ("len(retrieved) < k_retrieval", True) in cfg.facts(a)
        p = None if (bounded or pre) else cfg.path([a], lambda x: x in heads, avoid=lambda x: x in ktests, edge_ok=no_exc, include_start=False)
        ctx.check(p is None, "C11.K", ctx.okey(f"{t2.qual}/k-test-after-append"), t2.loc(a.ast), "after each append the walk tests len(retrieved) >= k_retrieval (or iterates a k-bounded list)",
                  "a hit can be appended and the loop continue without the k_retrieval test: more than k episodes can be returned", ctx.path_witness(t2, p))
    for kt in ktests:
        tb = [t for t, l in kt.succ if l == "T"][0]
        brk = [m for m in cfg.nodes if m.kind == "stmt" and isinstance(m.ast, ast.Break) and cfg.dominates(tb, m)]
        ctx.check(bool(brk), "C11.K", ctx.okey(f"{t2.qual}/k-test-breaks"), t2.loc(kt.ast), "the k test leaves the loop", "the k test does not break")


def rule_distinct(ctx) -> None:
    t2 = ctx.func(T2)
    cfg = ctx.cfg(t2)
    apps = [(n, c) for n in cfg.nodes for c in node_calls(n) if call_tail(c) == "append" and src(c.func.value) == "retrieved"]
    ctx.floor("C11.DISTINCT", "appends to `retrieved`", len(apps), 3)
    for n, c in apps:
        facts = cfg.facts(n)
        ok = any((not p) and t.endswith("in seen_ids") and "not in" not in t for t, p in facts) or any(p and t.endswith("not in seen_ids") for t, p in facts)
        ctx.check(ok, "C11.DISTINCT", ctx.okey(f"{t2.qual}/seen-test"), t2.loc(c), "an episode is appended only if its id is not in seen_ids",
                  "an episode is appended without the seen-id test: duplicates can be returned")
        adds = [m for m in cfg.nodes if any(call_tail(x) == "add" and src(x.func.value) == "seen_ids" for x in node_calls(m))]
        heads = [h for h in cfg.nodes if h.kind == "iter"]
        p = cfg.path([n], lambda x: x in heads or x is cfg.exit, avoid=lambda x: x in adds, edge_ok=no_exc, include_start=False)
        ctx.check(p is None, "C11.DISTINCT", ctx.okey(f"{t2.qual}/seen-add"), t2.loc(c), "each append is followed by seen_ids.add(id)", "an appended id is not recorded in seen_ids on some path")


def rule_distinct_before_cut(ctx) -> None:
    """"at most k DISTINCT episodes": the index's ranked list is cut to k after rows sharing an id were folded, not before -
    otherwise a repeated id takes several of the k slots, the tier walk (which de-duplicates afterwards) returns fewer
    than k although other episodes qualify, and the cross-shard merge (which de-duplicates while filling) returns another
    list than the sequential walk."""
    fn = ctx.func(IDX + ":InMemoryIndex._rank_by_cosine")
    cfg = ctx.cfg(fn)
    kparam = "k" if "k" in fn.params else fn.params[-2]
    cuts = [(r, r.value) for r in walk_no_defs(fn.node) if isinstance(r, ast.Return) and isinstance(r.value, ast.Subscript) and isinstance(r.value.slice, ast.Slice)
            and r.value.slice.upper is not None and kparam in {y.id for y in ast.walk(r.value.slice.upper) if isinstance(y, ast.Name)}]
    ctx.floor("C11.DISTINCT", "ranked lists cut to k in the index", len(cuts), 1)
    for r, sub in cuts:
        L = src(sub.value)
        apps = [(n, c) for n in cfg.nodes for c in node_calls(n) if call_tail(c) == "append" and src(c.func.value) == L]
        sets = {(x.targets[0] if isinstance(x, ast.Assign) else x.target).id for x in walk_no_defs(fn.node) if isinstance(x, (ast.Assign, ast.AnnAssign)) and x.value is not None
                and (isinstance(x.value, ast.Call) and dotted(x.value.func) == "set" or isinstance(x.value, (ast.Set, ast.Dict))) and isinstance((x.targets[0] if isinstance(x, ast.Assign) else x.target), ast.Name)}
        ok = bool(apps) and all(any(((not p) and any(t.endswith(f" in {sn}") and " not in " not in t for sn in sets)) or (p and any(t.endswith(f" not in {sn}") for sn in sets)) for t, p in cfg.facts(n)) for n, c in apps)
        ctx.check(ok, "C11.DISTINCT", ctx.okey(f"{fn.qual}/distinct-before-cut"), fn.loc(sub), f"`{src(sub)}`: every append to `{L}` is under a seen-id test, so the k slots go to k distinct episodes",
                  f"`{src(sub)}` cuts a list in which rows sharing an id each hold a slot: with a repeated id the result has fewer than k distinct episodes although others qualify, and it differs from "
                  "the cross-shard merge, which folds duplicates while it fills to k")


def rule_rescore_scope(ctx) -> None:
    """the combined score takes an episode's timestamp and importance from a map id -> episode built over the index's raw
    storage: that map holds only episodes visible under the query's owner scope (ids are not unique across owners), and the
    numeric fields it supplies are converted under a guard (JSON null / text in `importance` must not abort retrieval)."""
    t2 = ctx.func(T2)
    cfg = ctx.cfg(t2)
    rd = ctx.rd(t2)
    raw = {d.name for d in rd.all_defs if d.value is not None and isinstance(d.value, ast.Call) and dotted(d.value.func) == "getattr" and len(d.value.args) >= 2 and const_str(d.value.args[1]) == "_eps"}
    if not raw:
        raise AnalysisError("anchor-vanished: t2_semantic no longer reads the index's raw episode list")
    n_maps = 0
    for x in walk_no_defs(t2.node):
        if isinstance(x, (ast.DictComp, ast.ListComp, ast.GeneratorExp, ast.SetComp)) and any(isinstance(g.iter, ast.Name) and g.iter.id in raw for g in x.generators):
            n_maps += 1
            g = next(g for g in x.generators if isinstance(g.iter, ast.Name) and g.iter.id in raw)
            el = src(g.target)
            scoped = any(isinstance(c, (ast.Compare, ast.BoolOp)) and "owner" in src(c) and el in src(c) for c in g.ifs)
            # the owner it is compared with comes from owner_for_query
            owners = {d.name for d in rd.all_defs if d.value is not None and isinstance(d.value, ast.Call) and call_tail(d.value) in ("owner_for_query", "_owner_for_query")}
            scoped = scoped and any(isinstance(y, ast.Name) and y.id in owners for c in g.ifs for y in ast.walk(c))
            if not scoped:
                # ... or every record looked up in the map is owner-tested before it is used (the reader path hydrates, then tests)
                par = ctx.prog.parents(t2.node).get(id(x))
                while par is not None and not isinstance(par, (ast.Assign, ast.AnnAssign)):
                    par = ctx.prog.parents(t2.node).get(id(par))
                mname = next((t.id for t in (par.targets if isinstance(par, ast.Assign) else [par.target]) if isinstance(t, ast.Name)), None) if par is not None else None
                looked = {d.name for d in rd.all_defs if mname and d.value is not None and any(isinstance(y, ast.Call) and call_tail(y) == "get" and src(y.func.value) == mname for y in ast.walk(d.value))}
                scoped = bool(looked) and any(isinstance(c, ast.Compare) and any(isinstance(y, ast.Call) and call_tail(y) == "get" and src(y.func.value) in looked and y.args and const_str(y.args[0]) == "owner" for y in ast.walk(c))
                                              and any(isinstance(y, ast.Name) and y.id in owners for y in ast.walk(c)) for c in walk_no_defs(t2.node))
            ctx.check(scoped, "C11.OWNER", ctx.okey(f"{t2.qual}/rescoring-map-owner-scoped"), t2.loc(x), "the id -> episode map used for recency / importance holds only episodes of the queried owner",
                      f"`{src(x)[:70]}` maps ids to episodes over ALL owners (last one wins): an agent-scoped hit whose id also exists under another owner is scored with that owner's timestamp and "
                      "importance - another owner's memory reorders an agent-scoped result")
    ctx.floor("C11.OWNER", "maps built over the raw episode list in t2_semantic", n_maps, 1)
    # under owner_scope "any" ids are not unique in the map either (two owners, one id): a hit is looked up under ITS owner, not
    # under the id alone - the id-only map keeps whichever row came last, so the hit of owner A would be scored with the
    # timestamp / importance of owner B's episode and the order would contradict the combined score of what was returned
    n_look = 0
    for lp in [x for x in walk_no_defs(t2.node) if isinstance(x, ast.For) and isinstance(x.target, ast.Name)]:
        v = lp.target.id
        for st in lp.body:
            for x in ast.walk(st):
                if isinstance(x, ast.Assign) and any(isinstance(y, ast.Call) and call_tail(y) == "get" and y.args and src(y.args[0]) == f"{v}.id" for y in ast.walk(x.value)) \
                        and any(isinstance(y, ast.Call) and call_tail(y) == "get" and y.args and const_str(y.args[0]) in ("ts", "aux") and isinstance(y.func.value, ast.Name) and any(
                            isinstance(t, ast.Name) and t.id == y.func.value.id for t in x.targets) for st2 in lp.body for y in ast.walk(st2)):
                    n_look += 1
                    by_owner = any(isinstance(y, ast.Call) and call_tail(y) == "get" and y.args and "owner" in src(y.args[0]) and v in src(y.args[0]) for y in ast.walk(x.value))
                    ctx.check(by_owner, "C11.OWNER", ctx.okey(f"{t2.qual}/hit-looked-up-under-its-owner"), t2.loc(x), f"`{src(x.value)[:60]}` looks the hit up under its own owner first",
                              f"`{src(x.value)[:60]}` finds a hit's episode by id alone: under owner_scope 'any' two owners may hold the same id, the map keeps the last row, and owner A's hit is scored with "
                              "owner B's timestamp / importance - the returned order contradicts the documented combined score of the episodes actually returned")
    ctx.floor("C11.OWNER", "episode lookups of the rescoring loop", n_look, 1)
    # numeric episode fields
    n_conv = 0
    for x in walk_no_defs(t2.node):
        if isinstance(x, ast.Call) and dotted(x.func) in ("float", "int") and x.args and any(isinstance(y, ast.Call) and call_tail(y) == "get" and y.args and const_str(y.args[0]) in ("importance", "ts", "aux") for y in ast.walk(x.args[0])):
            n_conv += 1
            guarded = any(isinstance(st, ast.Try) and part == "body" for st, part in enclosing(ctx.prog, t2, x))
            ctx.check(guarded, "C11.RANK", ctx.okey(f"{t2.qual}/episode-field-conversion-guarded"), t2.loc(x), f"`{src(x)[:50]}` converts under try/except",
                      f"`{src(x)[:50]}` converts an episode field without a guard: `.get(k, default)` covers the missing key only - a JSON null or text there raises out of t2_semantic and no query "
                      "that hits the episode returns anything")
    ctx.floor("C11.RANK", "numeric conversions of episode fields in the rescoring", n_conv, 1)


def rule_tier(ctx) -> None:
    fn = ctx.func(IDX + ":InMemoryIndex._search_with_episodes")
    cfg = ctx.cfg(fn)
    fr = [(n, c) for n in cfg.nodes for c in node_calls(n) if call_tail(c) == "_filter_recent"]
    ctx.floor("C11.TIER", "_filter_recent call sites", len(fr), 1)
    for n, c in fr:
        ok = any(p and "tier == 'exact_semantic'" in t for t, p in cfg.facts(n))
        ctx.check(ok, "C11.TIER", f"{fn.qual}/recency-only-exact", fn.loc(c), "the recency window is applied only on the exact_semantic tier", "the recency window is applied outside the exact tier")
    # exact tier must apply it
    exact = [(n, c) for n in cfg.nodes for c in node_calls(n) if call_tail(c) == "_rank_by_cosine" and any(p and "tier == 'exact_semantic'" in t for t, p in cfg.facts(n))]
    rd = ctx.rd(fn)
    for n, c in exact:
        a = c.args[0]
        ok = isinstance(a, ast.Name) and all(d.value is not None and isinstance(d.value, ast.Call) and call_tail(d.value) == "_filter_recent" for d in rd.reaching(a.id, n) if d.kind != "mutate")
        ctx.check(ok, "C11.TIER", f"{fn.qual}/exact-uses-recency", fn.loc(c), "the exact tier ranks the recency-filtered list", "the exact tier ranks a list that did not pass the recency window")
    # the bound: a local read from hints["clusters_top_m"]; the ranked clusters: a list sorted in place with a key
    top_m = {d.name for d in rd.all_defs if d.value is not None and any(const_str(z) == "clusters_top_m" for z in ast.walk(d.value))}
    ranked = {src(c.func.value) for n in cfg.nodes for c in node_calls(n) if call_tail(c) == "sort" and kwarg(c, "key") is not None}
    slices = [x for x in walk_no_defs(fn.node) if isinstance(x, ast.Subscript) and isinstance(x.slice, ast.Slice) and x.slice.upper is not None and src(x.slice.upper) in top_m]
    ok = bool(slices) and all(x.slice.lower is None and src(x.value) in ranked for x in slices)
    ctx.check(ok, "C11.TIER", f"{fn.qual}/top-m-clusters", fn.loc(), "the cluster tier pools cluster_scores[:clusters_top_m]", "the cluster tier does not pool exactly the top clusters_top_m clusters")
    cs = [x for x in walk_no_defs(fn.node) if isinstance(x, ast.Call) and call_tail(x) == "sort" and src(x.func.value) == "cluster_scores"]
    parts = [src(e) for e in cs[0].keywords[0].value.body.elts] if cs and isinstance(kwarg(cs[0], "key"), ast.Lambda) and isinstance(cs[0].keywords[0].value.body, ast.Tuple) else []
    ctx.check(len(parts) == 2 and parts[0].startswith("-"), "C11.TIER", f"{fn.qual}/cluster-order", fn.loc(), f"clusters ordered by ({', '.join(parts)})", f"cluster order key is {parts}")
    _window_sites(ctx)


def _drops_time_of_day(e: ast.AST) -> bool:
    """idioms that truncate a datetime to its date: .replace(hour=.. / minute=.. / second=.. / microsecond=..), .date(),
    datetime.combine(..), a constructor fed .year / .month / .day of another value, .toordinal() / fromordinal."""
    for x in ast.walk(e):
        if isinstance(x, ast.Call):
            t = call_tail(x)
            if t == "replace" and any(k.arg in ("hour", "minute", "second", "microsecond") for k in x.keywords):
                return True
            if t in ("date", "combine", "toordinal", "fromordinal", "floor", "normalize") and isinstance(x.func, ast.Attribute):
                return True
            if t in ("datetime", "date") and any(isinstance(y, ast.Attribute) and y.attr in ("year", "month", "day") for a in x.args for y in ast.walk(a)):
                return True
    return False


def _window_sites(ctx) -> None:
    """the exact tier's recency window is `ts >= now - recent_days`, a rolling window from the turn's clock: in every index
    implementation the bound an episode's time is compared with is the clock value minus timedelta(days=recent_days), nothing
    else - not rounded to a calendar day, not shifted.  Roles: the bound is the compared name whose definition holds a
    timedelta; the clock value is a parameter or the parsed `now` hint (falling back to the process clock)."""
    n_sites = 0
    for mn in (IDX, LANCE):
        if mn not in ctx.prog.modules:
            continue
        for fn in sorted(ctx.prog.module(mn).funcs.values(), key=lambda f: f.qual):
            if not any(isinstance(x, ast.Call) and call_tail(x) == "timedelta" for x in ast.walk(fn.node)):
                continue
            cfg = ctx.cfg(fn)
            rd = ctx.rd(fn)
            for n in cfg.nodes:
                for e in node_exprs(n):
                    for x in ast.walk(e):
                        if not (isinstance(x, ast.Compare) and len(x.ops) == 1 and isinstance(x.ops[0], (ast.GtE, ast.Gt, ast.LtE, ast.Lt))):
                            continue
                        for side, other in ((x.comparators[0], x.left), (x.left, x.comparators[0])):
                            if not isinstance(side, ast.Name):
                                continue
                            ds = [d for d in rd.reaching(side.id, n) if d.value is not None]
                            if not ds or not all(any(isinstance(c, ast.Call) and call_tail(c) == "timedelta" for c in ast.walk(rd.inline(d.value, d.node, depth=2))) for d in ds):
                                continue
                            n_sites += 1
                            ctx.analysed_funcs.add(fn.qual)
                            key = ctx.okey(f"{fn.qual}/window-is-clock-minus-days")
                            bad = None
                            if not (isinstance(x.ops[0], ast.GtE) and side is x.comparators[0] or isinstance(x.ops[0], ast.LtE) and side is x.left):
                                bad = f"the test `{src(x)}` is not `time >= bound`"
                            for d in ds:
                                v = d.value
                                if isinstance(v, ast.BinOp) and isinstance(v.left, ast.Name):
                                    v = ast.BinOp(left=v.left, op=v.op, right=rd.inline(v.right, d.node))
                                if isinstance(v, ast.BinOp) and isinstance(v.op, ast.Add) and isinstance(v.right, ast.UnaryOp) and isinstance(v.right.op, ast.USub):
                                    v = ast.BinOp(left=v.left, op=ast.Sub(), right=v.right.operand)
                                if not (isinstance(v, ast.BinOp) and isinstance(v.op, ast.Sub) and isinstance(v.left, ast.Name) and isinstance(v.right, ast.Call) and call_tail(v.right) == "timedelta") or _drops_time_of_day(v):
                                    bad = bad or f"the bound is `{src(v)[:80]}`, not the clock value minus timedelta(days=recent_days): a bound moved to a day boundary (or otherwise shifted) lets episodes older than the window into the exact tier"
                                    continue
                                td = v.right
                                dv = kwarg(td, "days") or (td.args[0] if td.args else None)
                                if dv is None or len(td.args) + len(td.keywords) != 1:
                                    bad = bad or f"the window length `{src(td)}` is not timedelta(days=recent_days)"
                                    continue
                                core = dv
                                while isinstance(core, ast.Call) and call_tail(core) in ("int", "float") and len(core.args) == 1:
                                    core = core.args[0]
                                if any(isinstance(z, (ast.BinOp, ast.UnaryOp)) for z in ast.walk(core)):
                                    bad = bad or f"the window length `{src(dv)}` is not the configured recent_days as it is"
                                # the clock value keeps its time of day: no local definition cuts it to a calendar day
                                for cd in rd.reaching(v.left.id, d.node):
                                    if cd.value is not None and _drops_time_of_day(cd.value):
                                        bad = bad or f"the clock value `{v.left.id}` is cut to a calendar day before the window is taken (`{src(cd.value)[:60]}`): the window no longer rolls from the turn's clock"
                            ctx.check(bad is None, "C11.TIER", key, fn.loc(x), "the recency bound is the clock value minus timedelta(days=recent_days), compared as time >= bound", bad or "")
    ctx.floor("C11.TIER", "recency-window comparisons (in-memory + Lance indexes)", n_sites, 3)


def rule_rank(ctx) -> None:
    t2 = ctx.func(T2)
    cfg = ctx.cfg(t2)
    rd = ctx.rd(t2)
    q = [(n, c) for n in cfg.nodes for c in node_calls(n) if call_tail(c) == "_apply_quality"]
    ctx.floor("C11.RANK", "apply_quality call site", len(q), 1)
    for n, c in q:
        a = c.args[2] if len(c.args) > 2 else None
        ok = isinstance(a, ast.Name)
        why = "the retrieved list is not a local name"
        if ok:
            ds = [d for d in rd.reaching(a.id, n) if d.kind != "mutate"]
            for d in ds:
                v = d.value
                proj = isinstance(v, ast.ListComp) and isinstance(v.generators[0].iter, ast.Name)
                if not proj:
                    ok = False
                    why = f"on some path the list handed to the rerank layers is `{src(v)[:50] if v is not None else d.kind}` (L{d.node.lineno}), not the projection of the re-scored list"
                    continue
                lst = v.generators[0].iter.id
                sorts = [m for m in cfg.nodes if m.kind == "stmt" and isinstance(m.ast, ast.Expr) and isinstance(m.ast.value, ast.Call) and isinstance(m.ast.value.func, ast.Attribute)
                         and m.ast.value.func.attr == "sort" and src(m.ast.value.func.value) == lst]
                good = []
                for m in sorts:
                    k = kwarg(m.ast.value, "key")
                    parts = [src(e) for e in k.body.elts] if isinstance(k, ast.Lambda) and isinstance(k.body, ast.Tuple) else []
                    if len(parts) == 2 and parts[0].startswith("-") and parts[1].endswith(".id"):
                        good.append(m)
                grow = [m for m in cfg.nodes if any(dd.name == lst and dd.kind == "mutate" and not (isinstance(dd.target, ast.Call) and dd.target.func.attr in ("sort",))
                                                    for dd in rd.defs.get(m, []))]
                p = None
                for g in grow + [x.node for x in rd.all_defs if x.name == lst and x.kind == "assign"]:
                    pp = cfg.path([g], lambda t: t is d.node, avoid=lambda t: t in good, include_start=False)
                    if pp is not None and not any(m in pp for m in grow if m is not g and grow.index(m) > -1 and m.lineno > g.lineno):
                        p = pp
                if not good or p is not None:
                    ok = False
                    why = f"`{lst}` reaches the projection without `{lst}.sort(key=(-combined, id))` on some path"
        ctx.check(ok, "C11.RANK", f"{t2.qual}/sorted-before-rerank", t2.loc(c), "the list handed on is [ref for ...] over the list sorted by (-combined, id) on every path",
                  why + ": hits come back in tier order instead of the documented combined-score order")
    # combined score factors
    comb = [d for d in rd.all_defs if d.name == "combined" and d.value is not None]
    okc = bool(comb)
    for d in comb:
        names = {x.id for x in ast.walk(d.value) if isinstance(x, ast.Name)}
        okc = okc and {"alpha", "beta", "gamma"} <= names and isinstance(d.value, ast.BinOp)
    atoms = set()
    for nm in ("alpha", "beta", "gamma"):
        for d in rd.all_defs:
            if d.name == nm and d.value is not None:
                atoms |= {x.value for x in ast.walk(d.value) if isinstance(x, ast.Constant) and isinstance(x.value, str)}
    ctx.check(okc and {"alpha_sim", "beta_recency", "gamma_importance"} <= atoms, "C11.RANK", f"{t2.qual}/combined-score", t2.loc(),
              "combined = alpha_sim*cos + beta_recency*recency + gamma_importance*importance (weights from t2.ranking)", "the combined score does not read the three t2.ranking weights")


def rule_perm(ctx) -> None:
    fn = ctx.func(QUAL)
    cfg = ctx.cfg(fn)
    rd = ctx.rd(fn)
    assigns = [n for n in cfg.nodes if n.kind == "stmt" and isinstance(n.ast, ast.Assign) and any(isinstance(t, ast.Name) and t.id == "retrieved" for t in n.ast.targets)]
    ctx.floor("C11.PERM", "assignments to `retrieved` in apply_quality", len(assigns), 3)
    for n in assigns:
        v = n.ast.value
        ok = False
        why = src(v)[:50]
        if isinstance(v, ast.Name):
            ds = [d for d in rd.reaching(v.id, n) if d.kind != "mutate"]
            ok = bool(ds)
            for d in ds:
                dv = d.value
                if d.kind == "unpack" and isinstance(dv, ast.Call) and call_tail(dv) == "rerank_with_gel":
                    continue  # reordered copy of its input (checked below)
                if isinstance(dv, ast.ListComp) and isinstance(dv.elt, ast.Subscript) and isinstance(dv.elt.value, ast.Name):
                    mp = dv.elt.value.id
                    mds = [x for x in rd.reaching(mp, d.node) if x.kind != "mutate"]
                    if mds and all(isinstance(x.value, ast.DictComp) and src(x.value.generators[0].iter) == "retrieved" and src(x.value.value) == src(x.value.generators[0].target) for x in mds):
                        continue
                ok = False
                why = f"`{v.id}` = {src(dv)[:50] if dv is not None else d.kind}"
        ctx.check(ok, "C11.PERM", ctx.okey(f"{fn.qual}/result-from-input"), fn.loc(n.ast), "the new order is looked up in an id->ref map built from the input list (or is the hybrid reranker's copy)",
                  f"a rerank layer replaces the result by {why}, which is not drawn from its input")
    for modname in ("clematis.engine.stages.t2.quality", "clematis.engine.stages.t2.quality_ops", "clematis.engine.stages.t2.quality_mmr", "clematis.engine.stages.hybrid"):
        m = ctx.prog.module(modname)
        ctx.analysed_modules.add(modname)
        bad = [x for f in m.funcs.values() for x in walk_no_defs(f.node) if isinstance(x, ast.Call) and call_tail(x) in ("EpisodeRef", "_EpRefShim", "EpRefShim")]
        ctx.check(not bad, "C11.PERM", f"{modname}/no-episode-constructors", m.rel, "no episode reference is constructed in this rerank layer", f"a rerank layer constructs an episode reference: `{src(bad[0])[:50]}`" if bad else "")
    h = ctx.func("clematis.engine.stages.hybrid:rerank_with_gel")
    rets = [x for x in walk_no_defs(h.node) if isinstance(x, ast.Return) and isinstance(x.value, ast.Tuple)]
    hrd = ctx.rd(h)
    hcfg = ctx.cfg(h)
    okh = bool(rets)
    for r in rets:
        first = r.value.elts[0]
        node = hcfg.nodes_of(r)[0]
        inl = hrd.inline(first, node, depth=3)
        names = {x.id for x in ast.walk(inl) if isinstance(x, ast.Name)}
        if not ({"items", "work", "tail"} & names or "items" in src(inl)):
            okh = False
    ctx.check(okh, "C11.PERM", f"{h.qual}/returns-reordered-input", h.loc(), "every return of the hybrid reranker is built from `items` (reordered head + preserved tail)", "the hybrid reranker returns a list not built from its input")


def _complement_of(rd, node, tail_e: ast.AST, head_name: str) -> Optional[str]:
    """None if `tail_e` is `[x for x in U if x not in S]` over the WHOLE of a named universe U with S = set(head)/head;
    else the reason it is not"""
    if not isinstance(tail_e, ast.ListComp) or len(tail_e.generators) != 1:
        return f"the tail `{src(tail_e)[:50]}` is not a single filter over the baseline order"
    g = tail_e.generators[0]
    if not (isinstance(tail_e.elt, ast.Name) and isinstance(g.target, ast.Name) and tail_e.elt.id == g.target.id):
        return "the tail comprehension transforms its elements"
    if not isinstance(g.iter, ast.Name):
        return f"the tail filters `{src(g.iter)[:30]}`, not the whole baseline order (a slice leaves part of it unfiltered)"
    if len(g.ifs) != 1:
        return "the tail comprehension does not have exactly one membership filter"
    t = g.ifs[0]
    if not (isinstance(t, ast.Compare) and len(t.ops) == 1 and isinstance(t.ops[0], ast.NotIn) and isinstance(t.left, ast.Name) and t.left.id == g.target.id and isinstance(t.comparators[0], ast.Name)):
        return f"the tail filter `{src(t)[:40]}` is not `x not in <picked>`"
    sname = t.comparators[0].id
    if sname != head_name:
        ok = False
        for d in rd.reaching(sname, node):
            v = d.value
            if d.kind == "assign" and isinstance(v, ast.Call) and dotted(v.func) in ("set", "frozenset", "list", "tuple") and v.args and isinstance(v.args[0], ast.Name) and v.args[0].id == head_name:
                ok = True
            elif d.kind != "mutate":
                return f"`{sname}` is not set({head_name})"
        if not ok:
            return f"`{sname}` is not set({head_name})"
    return None


def rule_perm_partition(ctx) -> None:
    """head + tail constructions of the rerank layers are partitions of their input: the tail is the complement of the
    head over the whole baseline order (MMR), or head and tail are the two sides of one slice bound (hybrid)"""
    f = ctx.func("clematis.engine.stages.t2.quality_mmr:mmr_reorder_full")
    cfg = ctx.cfg(f)
    rd = ctx.rd(f)
    rets = [n for n in cfg.nodes if n.kind == "stmt" and isinstance(n.ast, ast.Return) and n.ast.value is not None and n in cfg.reachable_from_entry()]
    ctx.floor("C11.PERM", "returns of mmr_reorder_full", len(rets), 1)
    for n in rets:
        v = n.ast.value
        why = None
        if not (isinstance(v, ast.BinOp) and isinstance(v.op, ast.Add) and isinstance(v.left, ast.Name)):
            why = f"returns `{src(v)[:50]}`, not head + complement-tail"
        else:
            tail_e = v.right
            if isinstance(tail_e, ast.Name):
                uv = rd.unique_value(tail_e.id, n)
                if uv is None:
                    why = f"`{tail_e.id}` has no single definition"
                else:
                    why = _complement_of(rd, uv[1], uv[0], v.left.id)
            else:
                why = _complement_of(rd, n, tail_e, v.left.id)
            # the head itself: the MMR selection (distinct by construction: selected.append(best) + remaining.remove(best))
            hv = rd.unique_value(v.left.id, n)
            if why is None and not (hv is not None and isinstance(hv[0], ast.Call) and call_tail(hv[0]) == "mmr_select"):
                why = f"the head `{v.left.id}` is not the MMR selection"
        ctx.check(why is None, "C11.PERM", f"{f.qual}/head-plus-complement", f.loc(v), "the full order is the MMR head followed by every baseline index not in the head (a permutation)",
                  f"{why}: an index picked from beyond the cut appears twice (or one is lost), so the reranked result has a duplicate episode and can exceed k")
    sel = ctx.func("clematis.engine.stages.t2.quality_mmr:mmr_select")
    scfg = ctx.cfg(sel)
    sel_names = {r.value.id for r in walk_no_defs(sel.node) if isinstance(r, ast.Return) and isinstance(r.value, ast.Name)}
    app = [n for n in scfg.nodes for c in node_calls(n) if call_tail(c) == "append" and src(c.func.value) in sel_names]
    rem = [n for n in scfg.nodes for c in node_calls(n) if call_tail(c) == "remove" and isinstance(c.func.value, ast.Name) and c.func.value.id not in sel_names]
    ok = bool(app) and bool(rem) and all(any(scfg.dominates(a, r) or scfg.dominates(r, a) for r in rem) for a in app) and all(src(node_calls(a)[0].args[0]) == src(node_calls(r)[0].args[0]) for a in app for r in rem)
    ctx.check(ok, "C11.PERM", f"{sel.qual}/select-removes-picked", sel.loc(), "every selected index is removed from the candidates (no index is selected twice)", "a selected index stays among the candidates: it can be selected again")
    # hybrid: work = items[:k], tail = items[k:] with the same bound
    h = ctx.func("clematis.engine.stages.hybrid:rerank_with_gel")
    hrd = ctx.rd(h)
    hcfg = ctx.cfg(h)
    lo = hi = None
    for n in hcfg.nodes:
        if n.kind == "stmt" and isinstance(n.ast, ast.Assign) and len(n.ast.targets) == 1 and isinstance(n.ast.targets[0], ast.Name):
            v = n.ast.value
            if isinstance(v, ast.Call) and dotted(v.func) == "list" and v.args:
                v = v.args[0]
            if isinstance(v, ast.Subscript) and isinstance(v.value, ast.Name) and v.value.id in h.params and isinstance(v.slice, ast.Slice):
                if v.slice.lower is None and v.slice.upper is not None:
                    hi = src(v.slice.upper)
                if v.slice.upper is None and v.slice.lower is not None:
                    lo = src(v.slice.lower)
    ctx.check(lo is not None and lo == hi, "C11.PERM", f"{h.qual}/slice-partition", h.loc(), f"head = items[:{hi}] and tail = items[{lo}:] split the input at one bound",
              f"head = items[:{hi}] but tail = items[{lo}:]: the reranked list drops or duplicates the items between the two bounds")


def rule_ts_parsers(ctx) -> None:
    """the recency window (index._parse_iso) and the recency term of the combined score (t2.helpers.parse_iso) read the same
    timestamps: both parsers must turn an offset-bearing ISO string into the same instant - fromisoformat(...) converted with
    .astimezone(utc); a parser that stamps tzinfo with .replace(tzinfo=...) discards the offset and the two sites disagree"""
    sigs = {}
    for q in (IDX + ":_parse_iso", "clematis.engine.stages.t2.helpers:parse_iso"):
        f = ctx.func(q)
        ops = set()
        for x in walk_no_defs(f.node):
            if isinstance(x, ast.Call) and isinstance(x.func, ast.Attribute):
                if x.func.attr == "fromisoformat":
                    ops.add("fromisoformat")
                if x.func.attr == "astimezone":
                    ops.add("astimezone")
                if x.func.attr == "replace" and any(k.arg == "tzinfo" for k in x.keywords):
                    # stamping UTC on a value that has no offset is the naive-means-UTC rule; anywhere else it discards an offset
                    cf = ctx.cfg(f)
                    nodes = cf.node_containing(x)
                    guarded = bool(nodes) and any(pol and t.replace(" ", "").endswith(".tzinfoisNone") for t, pol in cf.facts(nodes[0]))
                    ops.add("naive->utc" if guarded else "replace-tzinfo")
                if x.func.attr == "replace" and x.args and const_str(x.args[0]) == "Z":
                    ops.add("Z->+00:00")
        sigs[q] = ops
        ctx.check("fromisoformat" in ops and "astimezone" in ops and "replace-tzinfo" not in ops, "C11.RANK", f"{q}/offset-aware-utc", f.loc(),
                  "timestamps are parsed with fromisoformat and converted to UTC with astimezone (offsets honoured)",
                  f"`{f.name}` normalises timestamps with {sorted(ops)}: an explicit UTC offset is " + ("overwritten by .replace(tzinfo=...)" if "replace-tzinfo" in ops else "not converted") +
                  ", so the recency term ages an episode by up to 14 h differently from the recency window and the documented combined-score order is lost")
    vals = list(sigs.values())
    ctx.check(all(v == vals[0] for v in vals), "C11.RANK", "timestamp-parsers/agree", "clematis/memory/index.py", f"both timestamp parsers normalise with {sorted(vals[0])}",
              f"the two timestamp parsers normalise differently: { {k.split(':')[1]: sorted(v) for k, v in sigs.items()} }")


def rule_res(ctx) -> None:
    t2 = ctx.func(T2)
    cfg = ctx.cfg(t2)
    rd = ctx.rd(t2)
    apps = [(n, c) for n in cfg.nodes for c in node_calls(n) if call_tail(c) == "append" and src(c.func.value) == "chosen_nodes"]
    ctx.floor("C11.RES", "appends to chosen_nodes", len(apps), 1)
    for n, c in apps:
        loops = [st for st, part in enclosing(ctx.prog, t2, c) if isinstance(st, ast.For) and part == "body"]
        outer = loops[-1] if loops else None
        ctx.check(outer is not None and src(outer.iter) == "used_hits", "C11.RES", f"{t2.qual}/iterates-used-hits", t2.loc(c), "residual nudges iterate the slice-capped `used_hits`",
                  f"residual nudges iterate `{src(outer.iter) if outer else None}`, not the hits actually used")
        inner = loops[0] if loops else None
        okm = inner is not None and "label_map" in src(inner.iter)
        lm = [d for d in rd.all_defs if d.name == "label_map" and d.value is not None]
        okm = okm and bool(lm) and all(isinstance(d.value, ast.Call) and call_tail(d.value) == "_build_label_map" for d in lm)
        ctx.check(okm, "C11.RES", f"{t2.qual}/labels-from-existing-nodes", t2.loc(c), "node ids come from build_label_map(state): labels of existing nodes", "residual node ids do not come from the label map of existing nodes")
        facts = cfg.facts(n)
        okg = any(p and " in t_low" in t and "not in seen_nodes" in t for t, p in facts) or (any(p and " in t_low" in t for t, p in facts) and any(p and "not in seen_nodes" in t for t, p in facts))
        ctx.check(okg, "C11.RES", f"{t2.qual}/label-occurs-and-new", t2.loc(c), "a node is chosen only if its label occurs in the hit text and it was not chosen before",
                  "a residual node is chosen without the label-occurs / not-yet-chosen test")
        caps = [m for m in cfg.nodes if m.kind == "cond" and "len(chosen_nodes) >= residual_cap" in src(m.ast)]
        heads = [h for h in cfg.nodes if h.kind == "iter"]
        p = cfg.path([n], lambda x: x in heads, avoid=lambda x: x in caps, edge_ok=no_exc, include_start=False)
        ctx.check(bool(caps) and p is None, "C11.RES", f"{t2.qual}/residual-cap-tested", t2.loc(c), "every chosen node is followed by the residual-cap test", "the residual cap is not tested after a node is chosen",
                  ctx.path_witness(t2, p))
    # "labels occur in the hits actually used": the used hits are a PREFIX of the list the stage returns as `retrieved` - the
    # order after the rerank layers - not of an earlier ranking.  Roles: R = the name handed to T2Result(retrieved=...), U = what
    # the residual loop walks; every definition of U is R or R[:n], and R is not re-bound between that definition and the result.
    res_nodes = [m for m in cfg.nodes if m.kind == "stmt" and isinstance(m.ast, ast.Assign) and isinstance(m.ast.value, ast.Call) and call_tail(m.ast.value) == "T2Result"]
    rnames = {kw.value.id for m in res_nodes for kw in m.ast.value.keywords if kw.arg == "retrieved" and isinstance(kw.value, ast.Name)}
    loops_u = {src(st.iter) for n, c in apps for st, part in enclosing(ctx.prog, t2, c) if isinstance(st, ast.For) and part == "body" and isinstance(st.iter, ast.Name)}
    outer_u = {src(loops[-1].iter) for n, c in apps for loops in [[st for st, part in enclosing(ctx.prog, t2, c) if isinstance(st, ast.For) and part == "body"]] if loops and isinstance(loops[-1].iter, ast.Name)}
    if not rnames or not outer_u:
        raise AnalysisError("anchor-vanished: T2Result(retrieved=<name>) / the residual loop's source")
    for U in sorted(outer_u):
        hn = [h for h in cfg.nodes if h.kind == "iter" and isinstance(h.ast.iter, ast.Name) and h.ast.iter.id == U]
        ds = [d for d in rd.reaching(U, hn[0]) if d.kind != "mutate"] if hn else []
        bad = None
        for d in ds:
            v = d.value
            base = v
            for _ in range(6):   # order-preserving wrappers: R[:n], list(R) / tuple(R), R.copy(), a local bound once to one of these
                if isinstance(base, ast.Subscript) and isinstance(base.slice, ast.Slice) and base.slice.lower is None and base.slice.step is None:
                    base = base.value
                elif isinstance(base, ast.Call) and dotted(base.func) in ("list", "tuple") and len(base.args) == 1 and not base.keywords:
                    base = base.args[0]
                elif isinstance(base, ast.Call) and isinstance(base.func, ast.Attribute) and base.func.attr == "copy" and not base.args:
                    base = base.func.value
                elif isinstance(base, ast.Name) and base.id not in rnames:
                    one = [x for x in rd.reaching(base.id, d.node) if x.kind != "mutate"]
                    if len(one) == 1 and one[0].value is not None and one[0].kind == "assign":
                        base = one[0].value
                    else:
                        break
                else:
                    break
            if not (isinstance(base, ast.Name) and base.id in rnames):
                bad = bad or (d, f"`{src(v)[:40] if v is not None else d.kind}` is not a prefix of `{sorted(rnames)[0]}`, the list the stage returns")
                continue
            # R re-bound after U was cut from it?
            later = [d2 for d2 in rd.all_defs if d2.name == base.id and d2.kind != "mutate" and d2.node is not d.node and d2.node in cfg.reach([d.node], include_start=False)
                     and any(m in cfg.reach([d2.node], include_start=False) for m in res_nodes)]
            if later:
                bad = bad or (d, f"`{base.id}` is re-bound (`{src(later[0].node.ast)[:40]}`) after `{U}` was cut from it")
        ctx.check(bool(ds) and bad is None, "C11.RES", ctx.okey(f"{t2.qual}/used-hits-are-a-prefix-of-the-returned-order"), t2.loc(bad[0].node.ast if bad else (hn[0].ast if hn else t2.node)),
                  f"`{U}` is `{sorted(rnames)[0]}` or a prefix of it, as returned",
                  (f"the residual nudges walk `{U}`, and {bad[1]}: under a slice cap the nudges are taken from hits of another order than the one returned - a node whose label occurs only in a hit "
                   "outside the used set is nudged, and the node of a hit the rerank promoted into it is not") if bad else "")
    bl = ctx.func("clematis.engine.stages.t2.state:build_label_map")
    okb = any(isinstance(x, ast.Call) and isinstance(x.func, ast.Attribute) and x.func.attr == "get" and isinstance(x.func.value, ast.Attribute) and x.func.value.attr == "nodes" for x in walk_no_defs(bl.node)) \
        and any(isinstance(x, (ast.For, ast.comprehension)) and isinstance(x.iter, ast.Call) and dotted(x.iter.func) == "sorted" for x in ast.walk(bl.node))
    ctx.check(okb, "C11.RES", f"{bl.qual}/existing-nodes-sorted", bl.loc(), "the label map enumerates existing graph nodes in sorted id order", "the label map is not built from existing nodes in sorted order")
    tl = [d for d in rd.all_defs if d.name == "t_low" and d.value is not None]
    ctx.check(bool(tl) and all(".lower()" in src(d.value) and "text" in src(d.value) for d in tl), "C11.RES", f"{t2.qual}/hit-text-lowered", t2.loc(), "labels are matched against the lower-cased hit text", "t_low is not the lower-cased hit text")


def rule_cluster_id_identity(ctx) -> None:
    """cluster membership comes from aux.cluster_id; 'no cluster id' is told from a real id by identity (is None / == ""), never
    by truthiness: cluster 0 is a cluster, and reading it as absent turns its members into singleton clusters, so the cluster
    tier returns one member of the best cluster instead of all of them.  All sibling readers (in-memory, both Lance readers)."""
    from ..zero import truthy_operands
    n_sites = 0
    for mn in (IDX, LANCE):
        for fn in ctx.prog.module(mn).funcs.values():
            names = set()
            for x in walk_no_defs(fn.node):
                if isinstance(x, ast.Assign) and len(x.targets) == 1 and isinstance(x.targets[0], ast.Name) and any(isinstance(c, ast.Call) and call_tail(c) == "get" and c.args and const_str(c.args[0]) == "cluster_id" for c in ast.walk(x.value)):
                    names.add(x.targets[0].id)
            if not names:
                continue
            n_sites += 1
            bad = None
            for x in walk_no_defs(fn.node):
                tests = [x.test] if isinstance(x, (ast.If, ast.IfExp, ast.While)) else ([x] if isinstance(x, ast.BoolOp) else [])
                for t in tests:
                    for o in truthy_operands(t):
                        if isinstance(o, ast.Name) and o.id in names:
                            bad = t
            ctx.check(bad is None, "C11.TIER", f"{fn.qual}/cluster-id-by-identity", fn.loc(bad) if bad is not None else fn.loc(),
                      "the episode's cluster id is tested with `is None` / `== \"\"`, so id 0 names a cluster",
                      f"`{src(bad)[:40] if bad is not None else ''}` tests the cluster id for truthiness: members of cluster 0 are treated as unclustered and become singleton clusters, "
                      "so with clusters_top_m = 1 the tier returns one of them instead of the whole best cluster")
    ctx.floor("C11.TIER", "readers of aux.cluster_id", n_sites, 3)


def rule_zero_caps(ctx) -> None:
    from ..zero import zero_cap_rule
    zero_cap_rule(ctx, "C11.RES", ["clematis.engine.stages.t2.core:t2_semantic", "clematis.engine.stages.t2.shard:merge_tier_hits_across_shards_dict"], 3)


def rule_rescoring_data_on_every_backend(ctx) -> None:
    """"ordered by the documented combined score": alpha * cosine + beta * recency + gamma * importance needs each hit's timestamp
    and importance.  T2 takes them from a data attribute of the index object; every index class the stage can be configured
    with (the classes of clematis.memory that implement search_tiered) must have that attribute - on a backend without it the
    lookup is empty, every hit gets recency 0 / importance 0.5 and the result is ordered by cosine alone."""
    t2 = ctx.func(T2)
    rd = ctx.rd(t2)
    # the index object: what the stage searches (X.search_tiered(...))
    idx_names = {c.func.value.id for x in walk_no_defs(t2.node) for c in [x] if isinstance(c, ast.Call) and isinstance(c.func, ast.Attribute) and c.func.attr == "search_tiered" and isinstance(c.func.value, ast.Name)}
    if not idx_names:
        raise AnalysisError("anchor-vanished: <index>.search_tiered(...) in t2_semantic")
    # data attributes read from it that reach the combined score (the slice of the sort key of the rescoring)
    sorts = [x for x in walk_no_defs(t2.node) if isinstance(x, ast.Call) and call_tail(x) == "sort" and isinstance(x.func, ast.Attribute) and x.keywords]
    cfg = ctx.cfg(t2)
    attrs = {}
    for srt in sorts:
        at = cfg.node_containing(srt)
        if not at:
            continue
        sl = rd.slice([srt.func.value], at[0], control=False)
        for y in sl.nodes():
            if isinstance(y, ast.Call) and dotted(y.func) == "getattr" and len(y.args) >= 2 and isinstance(y.args[0], ast.Name) and y.args[0].id in idx_names and const_str(y.args[1]):
                attrs.setdefault(const_str(y.args[1]), y)
    called = {id(y.func) for srt in sorts for y in ast.walk(t2.node) if isinstance(y, ast.Call)}
    data_attrs = {a: n for a, n in attrs.items()}
    ctx.floor("C11.RANK", "data attributes of the index that feed the combined score", len(data_attrs), 1)
    backends = []
    for mn in (IDX, LANCE):
        if mn not in ctx.prog.modules:
            continue
        m = ctx.prog.module(mn)
        for cname in sorted({f.cls for f in m.funcs.values() if f.cls and f.name == "search_tiered" and "." not in f.cls and not f.cls.startswith("_")}):
            backends.append((mn, cname))
    ctx.floor("C11.RANK", "index backends (classes with search_tiered)", len(backends), 2)
    for a, node in sorted(data_attrs.items()):
        for mn, cname in backends:
            has = any(isinstance(x, (ast.Assign, ast.AnnAssign)) and any(isinstance(t, ast.Attribute) and isinstance(t.value, ast.Name) and t.value.id == "self" and t.attr == a
                                                                         for t in (x.targets if isinstance(x, ast.Assign) else [x.target]))
                      for f in ctx.prog.module(mn).funcs.values() if f.cls == cname for x in walk_no_defs(f.node)) \
                or any(f.cls == cname and f.name == a for f in ctx.prog.module(mn).funcs.values())
            ctx.check(has, "C11.RANK", f"{t2.qual}/rescoring-data-on-backend:{a}:{cname}", t2.loc(node), f"{cname} provides `{a}`",
                      f"the combined score takes each hit's timestamp / importance from `{src(node)[:40]}`, and {cname} has no `{a}`: with that backend configured (t2.backend) the lookup is empty, "
                      "every hit is scored recency 0 / importance 0.5, and the result is ordered by cosine alone - not by the documented combined score")


def _memo_key_gaps(fnode: ast.AST) -> List[Tuple[ast.AST, str, str]]:
    """memo fills `self.<table>[K] = V` (or via a local bound to V) in one function whose key is coarser than the value:
    a parameter the VALUE is computed from occurs in the KEY not at all, or only under a lossy projection (len(p), bool(p),
    type(p), p[0]).  Returns (store node, parameter, how it occurs in the key)."""
    params = [a.arg for a in fnode.args.args if a.arg not in ("self", "cls")] if isinstance(fnode, (ast.FunctionDef, ast.AsyncFunctionDef)) else []
    assigns = {}
    for x in ast.walk(fnode):
        if isinstance(x, ast.Assign) and len(x.targets) == 1 and isinstance(x.targets[0], ast.Name):
            assigns.setdefault(x.targets[0].id, []).append(x.value)

    def expand(e, depth=0):
        out = [e]
        if depth < 3:
            for y in ast.walk(e):
                if isinstance(y, ast.Name) and y.id in assigns and y.id not in params:
                    for v in assigns[y.id]:
                        out += expand(v, depth + 1)
        return out

    gaps = []
    for x in ast.walk(fnode):
        if not (isinstance(x, ast.Assign) and any(isinstance(t, ast.Subscript) and isinstance(t.value, ast.Attribute) and isinstance(t.value.value, ast.Name) and t.value.value.id == "self" for t in x.targets)):
            continue
        t = next(t for t in x.targets if isinstance(t, ast.Subscript))
        vexprs = expand(x.value)
        kexprs = expand(t.slice)
        vparams = {y.id for e in vexprs for y in ast.walk(e) if isinstance(y, ast.Name) and y.id in params}
        for p_ in sorted(vparams):
            whole, lossy = False, None
            for e in kexprs:
                lossy_ids = {id(z) for y in ast.walk(e) if isinstance(y, ast.Call) and isinstance(y.func, ast.Name) and y.func.id in ("len", "bool", "type") for z in ast.walk(y)}
                lossy_ids |= {id(z) for y in ast.walk(e) if isinstance(y, ast.Subscript) and isinstance(y.value, ast.Name) and y.value.id == p_ for z in ast.walk(y)}
                for y in ast.walk(e):
                    if isinstance(y, ast.Name) and y.id == p_:
                        if id(y) in lossy_ids:
                            lossy = lossy or "only through a count / type / single element"
                        else:
                            whole = True
            if not whole:
                gaps.append((x, p_, lossy or "not at all"))
    return gaps


def rule_index_memos_keyed_by_their_inputs(ctx) -> None:
    """"top clusters for the cluster tier ... (agent scope never yields another owner's memories)": a table an index fills
    during a search (`self._centroids[key] = mean(vecs)`) is shared by every later search of that index object - other owners,
    other shard views.  Its key must determine the cached value: a parameter the value is computed from (the owner-filtered
    member vectors) that reaches the key only as a count makes two owners with equally many members in a cluster share one
    centroid, and the second one's clusters are ranked with the first one's vectors."""
    n_fn = 0
    for mn in (IDX, LANCE):
        if mn not in ctx.prog.modules:
            continue
        for f in ctx.prog.module(mn).funcs.values():
            if not f.cls or f.name in ("__init__", "add", "clear", "__setstate__", "__getstate__"):
                continue
            n_fn += 1
            for node, p_, how in _memo_key_gaps(f.node):
                ctx.violation("C11.TIER", ctx.okey(f"{f.qual}/memo-key-determines-the-value:{p_}"), f.loc(node),
                              f"`{src(node)[:60]}` files a value computed from `{p_}` under a key in which `{p_}` occurs {how}: the table outlives the call, so another owner (or another shard view) "
                              "with an equal count is served this one's value - its clusters are ranked with foreign vectors, the cluster-tier cut and the final order are wrong")
    ctx.floor("C11.TIER", "index methods scanned for memo tables", n_fn, 6)
    # positive control on a synthetic method (the rule's expected count on the clean tree is zero)
    probe = ast.parse("class _P:\n  def c(self, cid, vecs):\n    key = (cid, len(vecs))\n    v = self._t.get(key)\n    if v is None:\n      v = sum(vecs)\n      self._t[key] = v\n    return v\n"
                      "  def ok(self, cid, ids, vecs):\n    key = (cid, tuple(ids))\n    self._t[key] = sum(vecs[i] for i in ids)\n    return self._t[key]\n")
    fns = {x.name: x for x in ast.walk(probe) if isinstance(x, ast.FunctionDef)}
    if not _memo_key_gaps(fns["c"]) or [g for g in _memo_key_gaps(fns["ok"]) if g[1] == "ids"]:
        raise AnalysisError("positive control failed: memo-key query")
    ctx.holds("C11.TIER", f"{IDX}/memo-tables-keyed-by-their-inputs", "clematis/memory/index.py", f"no memo fill with a key coarser than its value in {n_fn} index methods (query verified on a synthetic memo)")


def run(ctx) -> None:
    rule_index_memos_keyed_by_their_inputs(ctx)
    rule_rescoring_data_on_every_backend(ctx)
    rule_zero_caps(ctx)
    rule_cluster_id_identity(ctx)
    rule_owner(ctx)
    rule_thr(ctx)
    rule_k(ctx)
    rule_distinct(ctx)
    rule_distinct_before_cut(ctx)
    rule_rescore_scope(ctx)
    rule_tier(ctx)
    rule_rank(ctx)
    rule_perm(ctx)
    rule_perm_partition(ctx)
    rule_ts_parsers(ctx)
    rule_res(ctx)
